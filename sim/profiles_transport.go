package sim

// C38 (scope-limited): what a transport does to otherwise valid requests - body cut, truncated, read
// error, client disconnect, duplication - on every write route and on the streaming routes in particular.

import (
	"fmt"
	"strings"
)

func (g *gen) scriptStreamElement(ledgerName string) Op {
	op := Op{ID: g.id("e"), Kind: KScript, Ledger: ledgerName}
	op.Script = fmt.Sprintf("send [USD %d] (\n  source = @world\n  destination = @t:%d\n)\nset_tx_meta(\"%s\", \"%s\")", 1+g.r.Intn(9), g.r.Intn(4), sigKey, op.ID)
	op.Expect = "ok"
	return op
}

func init() {
	register(Profile{Property: "C38", Name: "transport-faults", Gen: func(r *RNG, seed uint64, tier string) (*Scenario, *ExploreCfg) {
		sc := &Scenario{Property: "C38", Profile: "transport-faults", Knobs: randomKnobs(r), Checks: []string{"logs-match-ops", "replay", "no-5xx-without-fault", "no-leaked-locks", "transport"}, Params: map[string]string{}}
		g := &gen{r: r, sc: sc}
		sc.Setup = g.baseSetup("l1", "100", 3)
		// a source ledger to export, for the import route
		withImport := r.Chance(0.35)
		if withImport {
			sc.Setup = append(sc.Setup, Op{ID: g.id("s"), Kind: KCreateLedger, Ledger: "src", Feats: ledgerFeatures(sc.Knobs)})
			sc.Setup = append(sc.Setup, g.historyOps("src", 2+r.Intn(3), false)...)
			sc.Setup = append(sc.Setup, Op{ID: g.id("s"), Kind: KExport, Ledger: "src"})
			sc.Setup = append(sc.Setup, Op{ID: g.id("s"), Kind: KCreateLedger, Ledger: "dst", Feats: ledgerFeatures(sc.Knobs)})
		}
		g.txN = 5
		nc := 1 + r.Intn(2)
		chunk := func() int { return Pick(r, []int{7, 16, 64, 512, 1 << 20}) }
		for c := 0; c < nc; c++ {
			n := 1 + r.Intn(3)
			var ops []Op
			for i := 0; i < n; i++ {
				var op Op
				switch x := r.Intn(12); {
				case x < 2:
					op = g.postingsOp("l1", 2, true, false)
					op.Force = true
				case x < 3:
					op = g.scriptOp("l1")
				case x < 4:
					op = g.revertOp("l1", uint64(3+r.Intn(3)))
					op.Force = true
				case x < 5:
					op = g.metaOp("l1")
				case x < 7:
					op = Op{Kind: KBulk, Ledger: "l1", ContentType: "json-stream", ContinueOnFailure: r.Bool()}
					els, _ := g.bulkElements("l1", fmt.Sprintf("b%d", c), nil, 2+r.Intn(3), false)
					op.Elements = els
				case x < 9:
					op = Op{Kind: KBulk, Ledger: "l1", ContentType: "script-stream", ContinueOnFailure: r.Bool()}
					for j := 0; j < 2+r.Intn(3); j++ {
						op.Elements = append(op.Elements, g.scriptStreamElement("l1"))
					}
				case x < 10:
					op = Op{Kind: KBulk, Ledger: "l1", Atomic: r.Bool()}
					els, _ := g.bulkElements("l1", fmt.Sprintf("b%d", c), nil, 2+r.Intn(3), false)
					op.Elements = els
				default:
					if withImport && c == 0 && i == 0 {
						op = Op{Kind: KImport, Ledger: "dst", From: "src"}
					} else {
						op = g.postingsOp("l1", 1, true, false)
						op.Force = true
					}
				}
				op.ID = fmt.Sprintf("c%d.%d", c, i)
				switch op.Kind {
				case KTxMetaSet, KAcctMetaSet:
					v := ""
					for _, vv := range op.Metadata {
						v = vv
					}
					op.Metadata = map[string]string{"m." + op.ID: v}
				case KTxMetaDel, KAcctMetaDel:
					op.Key = "d." + op.ID
				}
				op.Chunked = chunk()
				ops = append(ops, op)
				if r.Chance(0.15) && op.Kind != KImport {
					// duplicated request (a proxy re-sent it): a second, independent write
					dup := op
					dup.ID = op.ID + "d"
					dup.Sig = op.sig()
					if op.Kind == KBulk {
						dup.Elements = append([]Op{}, op.Elements...)
					}
					ops = append(ops, dup)
				}
			}
			sc.Clients = append(sc.Clients, ops)
		}
		ex := &ExploreCfg{Seed: seed, PreemptP: 0.3, FaultP: 0.06, BiasP: 0, MaxFaults: 2, Kinds: []FaultKind{FBodyCut, FBodyErr, FBodyTrunc, FDisconnect}}
		return sc, ex
	}})
}

// elementEnds returns, for a streamed body, the byte offset at which each element is complete.
func elementEnds(op *Op, body string) []int {
	var ends []int
	switch {
	case op.Kind == KImport || op.ContentType == "json-stream":
		off := 0
		for _, line := range strings.SplitAfter(body, "\n") {
			off += len(line)
			if strings.TrimSpace(line) != "" {
				// complete once the closing brace has arrived (the newline is not needed)
				ends = append(ends, off-len(line)+len(strings.TrimRight(line, "\n")))
			}
		}
	case op.ContentType == "script-stream":
		off := 0
		for _, line := range strings.SplitAfter(body, "\n") {
			off += len(line)
			if strings.TrimSpace(line) == "//end" {
				ends = append(ends, off-len(line)+len("//end"))
			}
		}
	}
	return ends
}

func checkTransport(r *runner, views map[string]*LedgerView) []Violation {
	var vs []Violation
	prop := r.sc.Property
	for _, or := range r.results {
		op := or.Op
		var cut *FaultAt
		for i := range or.Faults {
			switch or.Faults[i].Kind {
			case FBodyCut, FBodyErr, FBodyTrunc:
				cut = &or.Faults[i]
			}
		}
		if or.Out.Class == "panic" {
			vs = append(vs, Violation{prop, "no-panic", fmt.Sprintf("%s %s: handler panicked: %s", op.ID, op.Kind, or.Out.Msg)})
		}
		if cut == nil {
			continue
		}
		r.w.mu.Lock()
		delivered, known := r.w.delivered[op.ID]
		r.w.mu.Unlock()
		if !known {
			continue
		}
		streaming := op.Kind == KImport || (op.Kind == KBulk && op.ContentType != "")
		if !streaming {
			continue // whole-body routes: judged by logs-match-ops (a 4xx leaves nothing) and no-5xx
		}
		body := op.Render(r.exports).Body
		if delivered >= len(body) {
			continue
		}
		if cut.Kind == FBodyTrunc && op.ContentType == "script-stream" {
			continue // a script without its end tag at a clean end of body is accepted by the format itself
		}
		ends := elementEnds(op, body)
		complete := 0
		for _, e := range ends {
			if e <= delivered {
				complete++
			}
		}
		switch op.Kind {
		case KImport:
			v := views[op.Ledger]
			n := r.importCommits[op.ID]
			_ = v
			if n > complete {
				vs = append(vs, Violation{prop, "nothing-from-a-partial-element", fmt.Sprintf("%s: body cut after %d bytes (%d complete logs) but %d logs were imported", op.ID, delivered, complete, n)})
			}
		case KBulk:
			v := views[op.Ledger]
			has := map[string]bool{}
			if v != nil {
				for _, lr := range v.Logs {
					if li, err := logInfo(lr); err == nil {
						has[li.Sig] = true
					}
				}
			}
			for i := range op.Elements {
				if i >= complete && has[op.Elements[i].sig()] && countSig(r, op.Elements[i].sig()) == 1 {
					vs = append(vs, Violation{prop, "nothing-from-a-partial-element", fmt.Sprintf("%s: body cut after %d bytes (%d complete elements) but element %d was applied", op.ID, delivered, complete, i)})
				}
			}
		}
	}
	return vs
}

// countSig: how many write elements of the scenario carry this signature (duplicates share one).
func countSig(r *runner, sig string) int {
	n := 0
	var visit func(op *Op)
	visit = func(op *Op) {
		if op.Kind == KBulk {
			for i := range op.Elements {
				visit(&op.Elements[i])
			}
			return
		}
		if op.sig() == sig {
			n++
		}
	}
	for _, c := range r.sc.Clients {
		for i := range c {
			visit(&c[i])
		}
	}
	return n
}
