package sim

// The seeded scheduler. Every goroutine of the system under test that reaches a yield point (all of them
// in the stubs, see DESIGN.md 3.3) registers itself under a stable task key and blocks. The scheduler -
// the bubble's main goroutine - waits for quiescence (synctest.Wait), computes the runnable set, takes
// one decision (default policy + recorded deviations, or PRNG in exploration mode) and resumes exactly
// one task.

import (
	"context"
	"crypto/sha256"
	"encoding/hex"
	"fmt"
	"sort"
	"strings"
	"sync"
	"testing/synctest"
	"time"
)

type FaultKind string

const (
	FStmtErr         FaultKind = "stmt_err"         // statement fails (53100), transaction aborted, session survives
	FConnLost        FaultKind = "conn_lost"        // connection lost before the statement took effect
	FDeadlock        FaultKind = "deadlock"         // 40P01 on a lock-taking statement
	FTooMany         FaultKind = "too_many_clients" // 53300 when opening a transaction
	FSerialization   FaultKind = "serialization"    // 40001
	FCommitClean     FaultKind = "commit_clean"     // connection lost at COMMIT, nothing durable
	FCommitAmbiguous FaultKind = "commit_ambiguous" // connection lost after COMMIT became durable
	FDisconnect      FaultKind = "disconnect"       // client goes away: request context cancelled
	FCrash           FaultKind = "crash"            // process crash + restart, only committed state survives
	FExporterErr     FaultKind = "exporter_err"     // exporter Accept/Start returns an error
	FExporterItemErr FaultKind = "exporter_item_err"
	FStorageErr      FaultKind = "storage_err" // system-store error seen by the worker
	FBodyCut         FaultKind = "body_cut"    // request body cut (unexpected EOF)
	FBodyErr         FaultKind = "body_err"    // request body read error
	FBodyTrunc       FaultKind = "body_trunc"  // request body ends early but cleanly (Arg selects the offset)
	FClockJump       FaultKind = "clock_jump"  // DB clock jumps (Arg = milliseconds, may be negative)
	FShutdown        FaultKind = "shutdown"    // internal: the run is over
	FCancelled       FaultKind = "cancelled"   // internal: a cancellable yield ended because its context was cancelled
)

type Fault struct {
	Kind FaultKind
	Arg  int
}

// FaultAt addresses a fault to the n-th yield of a task.
type FaultAt struct {
	Task string    `json:"task"`
	N    int       `json:"n"`
	Kind FaultKind `json:"kind"`
	Arg  int       `json:"arg,omitempty"`
}

// Deviation: when the default policy would resume Task at its N-th yield, first let DelayMs of
// simulated time pass and/or switch to task SwitchTo instead (if it is runnable).
type Deviation struct {
	Task     string `json:"task"`
	N        int    `json:"n"`
	K        int    `json:"k,omitempty"` // k-th time (Task, N) is the default pick
	SwitchTo string `json:"switch_to,omitempty"`
	DelayMs  int    `json:"delay_ms,omitempty"`
	// StallSteps: the task is passed over for that many scheduler steps (while anybody else can run)
	StallSteps int `json:"stall_steps,omitempty"`
}

type Plan struct {
	Deviations []Deviation `json:"deviations,omitempty"`
	Faults     []FaultAt   `json:"faults,omitempty"`
	// Victims: for the k-th organic deadlock of the run, which member of the cycle is aborted
	// (0 = the session that closed the cycle)
	Victims []int `json:"victims,omitempty"`
}

// Explore holds the knobs of random exploration (nil = pure replay of Plan).
type Explore struct {
	Sched     *RNG
	Fault     *RNG
	PreemptP  float64
	StallP    float64
	DelayP    float64
	FaultP    float64
	MaxFaults int
	Kinds     map[FaultKind]bool
	// BiasAfterCommit: extra fault probability on the yield right after a commit of the same task
	BiasP float64
}

// YieldSite is one yield point of a run at which a fault can be injected.
type YieldSite struct {
	Task  string
	N     int
	Op    string
	Kinds []FaultKind
}

type ctxKeyT struct{}

var ctxKey ctxKeyT

func WithTask(ctx context.Context, key string) context.Context {
	return context.WithValue(ctx, ctxKey, key)
}

func taskKeyOf(ctx context.Context) string {
	if v, ok := ctx.Value(ctxKey).(string); ok {
		return v
	}
	return "?"
}

type parkedTask struct {
	key      string
	op       string
	note     string
	n        int
	wake     chan *Fault
	cond     func() bool
	ctx      context.Context
	lockWait bool
	inDriver bool // parked inside a database/sql driver call: ends by itself when its context is cancelled
	seq      int  // order of parking (lock hand-off is first come, first served)
	kinds    []FaultKind
	epoch    int
}

type World struct {
	realSQL             bool   // data methods of storage/ledger run for real over the SQL interpreter (sqlmini)
	sqlUnsupported      string // first statement the interpreter could not handle (the run is then inconclusive)
	sqlUnsupportedTaint string
	parkSeq             int
	ddlSeen             bool           // the real bucket.AddLedger ran: triggers fire as registered, not as the features say
	stalledUntil        map[string]int // task key -> scheduler step until which it is passed over
	recordYields        bool           // fault enumeration: remember every yield that admits a fault
	yields              []YieldSite
	victims             map[string]int             // op id -> how often one of its statements was the victim of an organic deadlock
	victimTraceIdx      map[string]int             // op id -> length of the step trace when it was last a victim
	readTables          map[string]map[string]bool // task -> tables of the bucket its read statements referenced (auditRead)
	refusals            map[string]string          // task -> the feature refusal the storage layer raised for its read
	foreign             []ForeignRow               // rows of another ledger matched by a statement (sqlmini auditRows)
	unscoped            []UnscopedRead             // read statements with fewer ledger predicates than bucket-table references (auditRead)
	misreads            []FeatureMisread           // read statements that need a feature the ledger has disabled (auditRead)
	lenientReads        bool                       // see unmodelled
	sites               [][3]string                // (task, store call, fault fired or "") for every step at a yield that admits faults
	mu                  sync.Mutex
	db                  *DB
	eventCtr            uint64
	parked              map[string]*parkedTask
	yieldCount          map[string]int
	abandoned           []*parkedTask
	shutdown            bool
	scheduling          bool
	harness             error
	epoch               int
	deadEpochs          map[int]bool

	calls    map[int]func(context.Context, *conn) error
	nextCall int

	plan     Plan
	devIdx   map[string]*Deviation
	faultIdx map[string]*FaultAt
	explore  *Explore
	recorded Plan
	faultsN  int

	current   string
	picks     map[string]int
	deadlocks int
	steps     int
	simTime   time.Duration
	log       []string
	probes    map[string]int
	fired     map[FaultKind]int

	lastCommitTask string
	trace          []string // compact (task, op, outcome) sequence for interleaving digests

	// hooks set by the profile
	onCrash     func()
	cancels     map[string]context.CancelFunc // op id -> cancel of its request context
	deadCancels []context.CancelFunc
	gone        map[string]chan struct{} // op id -> closed when the client of that request goes away
	delivered   map[string]int           // op id -> bytes of a faulted body that reached the server
	firedAt     []FaultAt
	selfWoken   []string
	// adminInFlight: replication Manager API calls in flight. They hold the manager's mutex across
	// durable waits; the clock must not advance meanwhile (DESIGN.md 3.7b): a timer-driven goroutine would
	// block on that mutex, which synctest does not count as durably blocked, and time would stop for good.
	adminInFlight int
	// quiet: the fault-free tail of a run (liveness phase): no deviation, delay or fault is applied
	quiet bool
}

func NewWorld() *World {
	w := &World{
		parked:     map[string]*parkedTask{},
		yieldCount: map[string]int{},
		deadEpochs: map[int]bool{},
		calls:      map[int]func(context.Context, *conn) error{},
		devIdx:     map[string]*Deviation{},
		faultIdx:   map[string]*FaultAt{},
		probes:     map[string]int{},
		picks:      map[string]int{},
		fired:      map[FaultKind]int{},
		cancels:    map[string]context.CancelFunc{},
		gone:       map[string]chan struct{}{},
		delivered:  map[string]int{},
	}
	w.db = NewDB(&w.eventCtr)
	w.db.chooseVictim = w.chooseVictim
	w.db.onDeadlockVictim = func(task string) {
		// called with db.mu held
		if w.victims == nil {
			w.victims = map[string]int{}
		}
		w.victims[opIDOf(task)]++
		if w.victimTraceIdx == nil {
			w.victimTraceIdx = map[string]int{}
		}
		w.victimTraceIdx[opIDOf(task)] = len(w.trace)
	}
	w.db.onTaintedCommit = func(reason string) {
		// called with db.mu held, from the task that commits
		if w.sqlUnsupportedTaint == "" {
			w.sqlUnsupportedTaint = "committed state the simulation cannot represent: " + reason
		}
	}
	return w
}

func (w *World) SetPlan(p Plan) {
	w.plan = p
	for i := range p.Deviations {
		d := &p.Deviations[i]
		w.devIdx[fmt.Sprintf("%s#%d@%d", d.Task, d.N, d.K)] = d
	}
	for i := range p.Faults {
		f := &p.Faults[i]
		w.faultIdx[fmt.Sprintf("%s#%d", f.Task, f.N)] = f
	}
}

func (w *World) epochDead(e int) bool {
	w.mu.Lock()
	defer w.mu.Unlock()
	return w.deadEpochs[e]
}

func (w *World) probe(name string) {
	w.mu.Lock()
	w.probes[name]++
	w.mu.Unlock()
}

func (w *World) registerCall(fn func(context.Context, *conn) error) int {
	w.mu.Lock()
	defer w.mu.Unlock()
	w.nextCall++
	w.calls[w.nextCall] = fn
	return w.nextCall
}

func (w *World) takeCall(id int) func(context.Context, *conn) error {
	w.mu.Lock()
	defer w.mu.Unlock()
	fn := w.calls[id]
	delete(w.calls, id)
	return fn
}

// Event returns the next global event sequence number.
func (w *World) Event() uint64 {
	w.db.mu.Lock()
	defer w.db.mu.Unlock()
	w.eventCtr++
	return w.eventCtr
}

func (w *World) holdClock() bool {
	w.mu.Lock()
	defer w.mu.Unlock()
	return w.adminInFlight > 0
}

// eventCtrLocked: next event number, for callers already inside a simpg statement (db.mu held).
func (w *World) eventCtrLocked() uint64 {
	w.eventCtr++
	return w.eventCtr
}

// logf appends to the deterministic event log. Only the scheduler goroutine, or the single task that
// holds the baton, may call it.
func (w *World) logf(format string, a ...any) {
	w.mu.Lock()
	w.log = append(w.log, fmt.Sprintf(format, a...))
	w.mu.Unlock()
}

func (w *World) Digest() string {
	h := sha256.New()
	for _, l := range w.log {
		h.Write([]byte(l))
		h.Write([]byte{'\n'})
	}
	return hex.EncodeToString(h.Sum(nil))[:16]
}

// Yield is a yield point of task ctx at operation op. kinds lists the fault kinds that make sense
// here. It returns the fault injected at this point, if any.
func (w *World) Yield(ctx context.Context, op, note string, kinds ...FaultKind) *Fault {
	return w.park(ctx, op, note, nil, false, kinds)
}

func (w *World) parkLockWait(ctx context.Context, s *Session, what string) *Fault {
	return w.park(ctx, "lockwait", what, s.canProceed, true, nil)
}

// parkInDriver: a yield point inside a driver call. database/sql holds the connection's and the
// transaction's mutexes during the call, and sql.Tx.awaitDone needs them to roll back when the context is
// cancelled; a goroutine waiting for a sync.Mutex is not durably blocked, so the scheduler could never run
// again. Like a real driver, the parked statement therefore ends by itself when its context is cancelled.
func (w *World) parkInDriver(ctx context.Context, op, note string, kinds []FaultKind) *Fault {
	return w.parkX(ctx, op, note, nil, false, true, kinds)
}

func (w *World) park(ctx context.Context, op, note string, cond func() bool, lockWait bool, kinds []FaultKind) *Fault {
	return w.parkX(ctx, op, note, cond, lockWait, false, kinds)
}

func (w *World) parkX(ctx context.Context, op, note string, cond func() bool, lockWait, inDriver bool, kinds []FaultKind) *Fault {
	if ctx.Value(sysSQLKey) != nil && !lockWait {
		// a caller that must not park here (it holds a mutex of the system under test)
		return nil
	}
	w.mu.Lock()
	if !w.scheduling {
		w.mu.Unlock()
		return nil
	}
	if w.shutdown {
		w.mu.Unlock()
		return &Fault{Kind: FShutdown}
	}
	key := taskKeyOf(ctx)
	n := w.yieldCount[key]
	if !lockWait {
		w.yieldCount[key] = n + 1
	}
	p := &parkedTask{key: key, op: op, note: note, n: n, wake: make(chan *Fault, 1), cond: cond, ctx: ctx, lockWait: lockWait, inDriver: inDriver, kinds: kinds, epoch: w.epoch, seq: w.parkSeq}
	w.parkSeq++
	if old, dup := w.parked[key]; dup {
		if w.harness == nil {
			w.harness = fmt.Errorf("duplicate task key %q parked at %s and %s", key, old.op, op)
		}
		// keep both reachable for shutdown
		w.abandoned = append(w.abandoned, old)
	}
	w.parked[key] = p
	w.mu.Unlock()
	if inDriver {
		select {
		case f := <-p.wake:
			return f
		case <-ctx.Done():
			w.mu.Lock()
			if w.parked[key] == p {
				delete(w.parked, key)
			}
			w.mu.Unlock()
			return nil
		}
	}
	if ctx.Value(cancellableKey) == nil {
		return <-p.wake
	}
	// a yield inside code that another goroutine may be waiting for while holding a mutex (the exporter
	// behind the batcher during Manager.StopPipeline): it gives up by itself when its context is
	// cancelled, because the scheduler cannot run while a goroutine is blocked on that mutex
	select {
	case f := <-p.wake:
		return f
	case <-ctx.Done():
		w.mu.Lock()
		if w.parked[key] == p {
			delete(w.parked, key)
		}
		// Whether the task had parked yet when its context was cancelled depends on goroutine start-up
		// timing (both happen within one scheduler step), so a yield that ends this way leaves no trace:
		// no line in the event log and no yield number consumed.
		if !lockWait && w.yieldCount[key] == n+1 {
			w.yieldCount[key] = n
		}
		w.mu.Unlock()
		return &Fault{Kind: FCancelled}
	}
}

type cancellableKeyT struct{}

var cancellableKey cancellableKeyT

// Cancellable marks the context so that yields made with it end when it is cancelled.
func Cancellable(ctx context.Context) context.Context {
	return context.WithValue(ctx, cancellableKey, true)
}

// Spawn starts fn as a task goroutine; it first parks at a "start" yield so that the scheduler decides
// when it begins.
func (w *World) Spawn(key string, fn func(ctx context.Context)) {
	ctx := WithTask(context.Background(), key)
	go func() {
		if f := w.Yield(ctx, "start", ""); f != nil && f.Kind == FShutdown {
			return
		}
		fn(ctx)
	}()
}

type runnable struct {
	p *parkedTask
}

func (w *World) runnableSet() []*parkedTask {
	w.mu.Lock()
	ps := make([]*parkedTask, 0, len(w.parked))
	for _, p := range w.parked {
		ps = append(ps, p)
	}
	w.mu.Unlock()
	sort.Slice(ps, func(i, j int) bool { return ps[i].key < ps[j].key })
	out := ps[:0]
	for _, p := range ps {
		if p.cond == nil || p.cond() || (p.ctx != nil && p.ctx.Err() != nil) {
			out = append(out, p)
		}
	}
	return out
}

func (w *World) resume(p *parkedTask, f *Fault) {
	w.mu.Lock()
	if w.parked[p.key] == p {
		delete(w.parked, p.key)
	}
	w.mu.Unlock()
	p.wake <- f
}

// Step performs one scheduling decision. It returns false if nothing is runnable.
func (w *World) Step() bool {
	synctest.Wait()
	rs := w.runnableSet()
	if len(rs) == 0 {
		return false
	}
	// stalled tasks (a slow or paused request) are passed over while anybody else can run
	if len(w.stalledUntil) > 0 && !w.quiet {
		var awake []*parkedTask
		for _, p := range rs {
			if w.stalledUntil[p.key] <= w.steps {
				awake = append(awake, p)
			}
		}
		if len(awake) > 0 {
			rs = awake
		}
	}
	// Lock hand-off: a session that has been waiting for a lock gets it as soon as it is released, before
	// the releaser (or anybody else) can take it again - PostgreSQL queues waiters first come, first served.
	// Without this a retried deadlock victim that keeps the baton re-takes its locks before the session it
	// blocked wakes up, and the pair livelocks for ever.
	var chosen *parkedTask
	for _, p := range rs {
		if p.lockWait && p.cond != nil && p.cond() && (p.ctx == nil || p.ctx.Err() == nil) && (chosen == nil || p.seq < chosen.seq) {
			chosen = p
		}
	}
	// default policy: continue the current task, else the lowest key
	for _, p := range rs {
		if chosen == nil && p.key == w.current {
			chosen = p
			break
		}
	}
	if chosen == nil {
		chosen = rs[0]
	}
	// deviations are addressed to the task the default policy picked
	addr := fmt.Sprintf("%s#%d", chosen.key, chosen.n)
	if !chosen.lockWait {
		// the same (task, yield) can be the default pick several times (each time it is pre-empted):
		// deviations are addressed to the k-th such pick
		k := w.picks[addr]
		w.picks[addr] = k + 1
		addr = fmt.Sprintf("%s@%d", addr, k)
		if w.explore != nil {
			var dev Deviation
			if len(rs) > 1 && w.explore.Sched.Chance(w.explore.PreemptP) {
				others := make([]*parkedTask, 0, len(rs)-1)
				for _, p := range rs {
					if p != chosen {
						others = append(others, p)
					}
				}
				dev.SwitchTo = Pick(w.explore.Sched, others).key
			}
			if len(rs) > 1 && w.explore.StallP > 0 && w.explore.Sched.Chance(w.explore.StallP) {
				// the request stalls (GC pause, slow network hop): everybody else runs for a while
				dev.StallSteps = 5 + w.explore.Sched.Intn(80)
			}
			if w.explore.DelayP > 0 && w.explore.Sched.Chance(w.explore.DelayP) {
				dev.DelayMs = []int{1, 10, 100, 1000, 5000, 60000}[w.explore.Sched.Intn(6)]
			}
			if dev.SwitchTo != "" || dev.DelayMs != 0 || dev.StallSteps != 0 {
				dev.Task, dev.N, dev.K = chosen.key, chosen.n, k
				w.recorded.Deviations = append(w.recorded.Deviations, dev)
				w.devIdx[addr] = &w.recorded.Deviations[len(w.recorded.Deviations)-1]
			}
		}
		if d := w.devIdx[addr]; d != nil && !w.quiet {
			if d.DelayMs > 0 && !w.holdClock() {
				w.logf("delay %dms before %s", d.DelayMs, addr)
				w.sleep(time.Duration(d.DelayMs) * time.Millisecond)
				// after time passed the runnable set may have changed; recompute but keep the decision
				rs = w.runnableSet()
			}
			stalled := chosen
			if d.SwitchTo != "" {
				for _, p := range rs {
					if p.key == d.SwitchTo {
						chosen = p
						break
					}
				}
			}
			if d.StallSteps > 0 && len(rs) > 1 {
				if w.stalledUntil == nil {
					w.stalledUntil = map[string]int{}
				}
				w.stalledUntil[stalled.key] = w.steps + d.StallSteps
				if chosen == stalled {
					for _, p := range rs {
						if p != stalled {
							chosen = p
							break
						}
					}
				}
			}
		}
	}
	var fault *Fault
	if !chosen.lockWait {
		fault = w.decideFault(chosen)
	}
	w.steps++
	w.current = chosen.key
	fs := ""
	if fault != nil {
		fs = " FAULT=" + string(fault.Kind)
		w.mu.Lock()
		w.fired[fault.Kind]++
		w.firedAt = append(w.firedAt, FaultAt{Task: chosen.key, N: chosen.n, Kind: fault.Kind, Arg: fault.Arg})
		w.mu.Unlock()
	}
	admits := false
	if w.explore != nil {
		for _, k := range chosen.kinds {
			if w.explore.Kinds[k] {
				admits = true
			}
		}
	}
	if admits {
		k := ""
		if fault != nil {
			k = string(fault.Kind)
		}
		w.sites = append(w.sites, [3]string{chosen.key, chosen.op, k})
	}
	if w.recordYields && !chosen.lockWait && len(chosen.kinds) > 0 {
		w.yields = append(w.yields, YieldSite{Task: chosen.key, N: chosen.n, Op: chosen.op, Kinds: append([]FaultKind(nil), chosen.kinds...)})
	}
	w.logf("step %d: %s#%d %s %s%s", w.steps, chosen.key, chosen.n, chosen.op, chosen.note, fs)
	w.trace = append(w.trace, chosen.key+":"+chosen.op+fs)
	if fault != nil {
		switch fault.Kind {
		case FCrash:
			// crash strikes before the task's operation: the task dies with its incarnation
			w.Crash()
			return true
		case FDisconnect:
			w.disconnect(chosen)
			fault = nil
		case FClockJump:
			w.db.SetSkew(w.db.skew + time.Duration(fault.Arg)*time.Millisecond)
			fault = nil
		}
	}
	w.resume(chosen, fault)
	return true
}

func (w *World) decideFault(p *parkedTask) *Fault {
	addr := fmt.Sprintf("%s#%d", p.key, p.n)
	if w.quiet {
		return nil
	}
	if f := w.faultIdx[addr]; f != nil {
		// in replay a planned fault is applied only if the site admits it
		for _, k := range p.kinds {
			if k == f.Kind {
				return &Fault{Kind: f.Kind, Arg: f.Arg}
			}
		}
		return nil
	}
	if w.explore == nil || len(p.kinds) == 0 || w.faultsN >= w.explore.MaxFaults {
		return nil
	}
	pf := w.explore.FaultP
	if w.explore.BiasP > 0 && w.lastCommitTask == p.key {
		pf += w.explore.BiasP
	}
	w.lastCommitTask = ""
	if !w.explore.Fault.Chance(pf) {
		return nil
	}
	var ks []FaultKind
	for _, k := range p.kinds {
		if w.explore.Kinds[k] {
			ks = append(ks, k)
		}
	}
	if len(ks) == 0 {
		return nil
	}
	k := Pick(w.explore.Fault, ks)
	f := &Fault{Kind: k}
	if k == FClockJump {
		f.Arg = []int{-3600000, -5, 5, 3600000}[w.explore.Fault.Intn(4)]
	}
	if k == FExporterItemErr {
		f.Arg = w.explore.Fault.Intn(1 << 16) // which item of the batch is refused
	}
	if k == FBodyCut || k == FBodyTrunc {
		f.Arg = w.explore.Fault.Intn(1 << 16)
	}
	w.faultsN++
	w.recorded.Faults = append(w.recorded.Faults, FaultAt{Task: p.key, N: p.n, Kind: k, Arg: f.Arg})
	return f
}

// chooseVictim is called (with db.mu held, by the task holding the baton) when a wait-for cycle closes.
func (w *World) chooseVictim(n int) int {
	k := w.deadlocks
	w.deadlocks++
	w.probes["organic_deadlock"]++
	idx := 0
	if w.explore != nil {
		idx = w.explore.Sched.Intn(n)
		w.recorded.Victims = append(w.recorded.Victims, idx)
	} else if k < len(w.plan.Victims) {
		idx = w.plan.Victims[k] % n
	}
	return idx
}

// opIDOf returns the operation id part of a task key ("c1.3/e2" -> "c1.3").
func opIDOf(key string) string {
	if i := strings.IndexByte(key, '/'); i >= 0 {
		return key[:i]
	}
	return key
}

// disconnect cancels the request context of the operation the task belongs to and wakes every task of
// that request that is parked inside a driver call (see DESIGN.md 3.7c).
func (w *World) disconnect(p *parkedTask) {
	w.mu.Lock()
	cancel := w.cancels[opIDOf(p.key)]
	w.mu.Unlock()
	if cancel == nil {
		return
	}
	w.mu.Lock()
	if g := w.gone[opIDOf(p.key)]; g != nil {
		close(g)
		delete(w.gone, opIDOf(p.key))
	}
	w.mu.Unlock()
	cancel()
	w.wakeCancelledLockWaiters()
}

func (w *World) wakeCancelledLockWaiters() {
	w.mu.Lock()
	var wake []*parkedTask
	for _, q := range w.parked {
		if q.lockWait && q.ctx != nil && q.ctx.Err() != nil {
			wake = append(wake, q)
		}
	}
	w.mu.Unlock()
	sort.Slice(wake, func(i, j int) bool { return wake[i].key < wake[j].key })
	for _, q := range wake {
		w.resume(q, nil)
	}
}

func (w *World) sleep(d time.Duration) {
	time.Sleep(d)
	w.simTime += d
	synctest.Wait()
}

// Crash kills the current incarnation: every session dies (uncommitted work is lost, locks released),
// every parked task of the incarnation is abandoned, in-flight requests never answer.
func (w *World) Crash() {
	w.mu.Lock()
	w.deadEpochs[w.epoch] = true
	w.epoch++
	var release []*parkedTask
	for k, p := range w.parked {
		if p.epoch < w.epoch && !strings.HasPrefix(p.key, "client:") {
			if strings.HasPrefix(p.key, "pipeline:") || strings.HasPrefix(p.key, "state:") || strings.HasPrefix(p.key, "exporter:") {
				// worker-side tasks of the dead incarnation are let go with an error (their later calls
				// are fenced): the dead Manager must not wait on them while holding its mutex
				release = append(release, p)
			} else {
				w.abandoned = append(w.abandoned, p)
			}
			delete(w.parked, k)
		}
	}
	w.mu.Unlock()
	sort.Slice(release, func(i, j int) bool { return release[i].key < release[j].key })
	for _, p := range release {
		p.wake <- &Fault{Kind: FShutdown}
	}
	w.db.KillAll()
	w.logf("CRASH -> epoch %d", w.epoch)
	if w.onCrash != nil {
		w.onCrash()
	}
}

// Shutdown releases every parked goroutine; from now on yields return FShutdown immediately.
func (w *World) Shutdown() {
	w.mu.Lock()
	w.shutdown = true
	ps := w.abandoned
	for _, p := range w.parked {
		ps = append(ps, p)
	}
	w.parked = map[string]*parkedTask{}
	w.abandoned = nil
	cancels := w.cancels
	w.cancels = map[string]context.CancelFunc{}
	dead := w.deadCancels
	w.deadCancels = nil
	w.mu.Unlock()
	for _, p := range ps {
		select {
		case p.wake <- &Fault{Kind: FShutdown}:
		default:
		}
	}
	synctest.Wait()
	for _, k := range sortedKeys(cancels) {
		cancels[k]()
	}
	for _, c := range dead {
		c()
	}
	synctest.Wait()
}

func (w *World) ParkedKeys() []string {
	w.mu.Lock()
	defer w.mu.Unlock()
	var ks []string
	for k, p := range w.parked {
		ks = append(ks, k+"@"+p.op)
	}
	sort.Strings(ks)
	return ks
}
