package sim

// database/sql driver over simpg. It understands exactly the statements that reach it from real code:
// transaction control (BEGIN/COMMIT/ROLLBACK through driver.Tx, SAVEPOINT/RELEASE/ROLLBACK TO as text),
// the advisory lock calls of storage/ledger/store.go:LockLedger, the three raw statements of the state
// tracker, and SIMCALL <n>, through which the simulated store binds a data operation to the session of
// the handle (bun.DB / bun.Tx / bun.Conn) the real code chose.

import (
	"context"
	"database/sql/driver"
	"encoding/json"
	"errors"
	"fmt"
	"io"
	"os"
	"regexp"
	"strconv"
	"strings"

	"github.com/jackc/pgx/v5/pgconn"

	storagecommon "github.com/formancehq/ledger/internal/storage/common"
)

func pgErr(code, msg, constraint string) *pgconn.PgError {
	return &pgconn.PgError{Severity: "ERROR", Code: code, Message: msg, ConstraintName: constraint}
}

var errConnLost = errors.New("simpg: connection lost (injected)")

// sqlTrace (VERIF_SQLTRACE=1): print every interpreted statement to stderr (debugging aid, never part of the event log)
var sqlTrace = os.Getenv("VERIF_SQLTRACE") != ""

type Connector struct {
	w     *World
	epoch int
}

func (c *Connector) Connect(ctx context.Context) (driver.Conn, error) {
	if c.w.epochDead(c.epoch) {
		return nil, errSessionDead
	}
	return &conn{w: c.w, sess: c.w.db.NewSession(), epoch: c.epoch}, nil
}

func (c *Connector) Driver() driver.Driver { return simDriver{} }

type simDriver struct{}

func (simDriver) Open(string) (driver.Conn, error) { return nil, errors.New("simpg: use connector") }

type conn struct {
	w     *World
	sess  *Session
	epoch int
	// commit fault armed by the simulated store just before the real code commits
	commitFault FaultKind
	lastTry     bool // result of the last pg_try_advisory_* call
}

func (c *conn) Prepare(string) (driver.Stmt, error) {
	return nil, errors.New("simpg: prepare unsupported")
}
func (c *conn) Close() error               { c.sess.Kill(); return nil }
func (c *conn) Begin() (driver.Tx, error)  { return c.BeginTx(context.Background(), driver.TxOptions{}) }
func (c *conn) Ping(context.Context) error { return nil }
func (c *conn) IsValid() bool              { return !c.sess.dead }
func (c *conn) ResetSession(context.Context) error {
	if c.sess.dead {
		return driver.ErrBadConn
	}
	return nil
}

func (c *conn) BeginTx(ctx context.Context, _ driver.TxOptions) (driver.Tx, error) {
	if err := c.sess.Begin(); err != nil {
		return nil, err
	}
	return &simTx{c: c, task: taskKeyOf(ctx)}, nil
}

type simTx struct {
	c    *conn
	task string
}

func (t *simTx) Commit() error {
	switch t.c.commitFault {
	case FCommitClean:
		t.c.commitFault = ""
		t.c.sess.Kill()
		return errConnLost
	case FCommitAmbiguous:
		t.c.commitFault = ""
		err := t.c.sess.Commit(t.task)
		t.c.sess.Kill()
		if err != nil {
			return err
		}
		return errConnLost
	}
	return t.c.sess.Commit(t.task)
}

func (t *simTx) Rollback() error { return t.c.sess.Rollback() }

var (
	reSimcall   = regexp.MustCompile(`^SIMCALL (\d+)$`)
	reSavepoint = regexp.MustCompile(`^SAVEPOINT (\S+)$`)
	reRelease   = regexp.MustCompile(`^RELEASE SAVEPOINT (\S+)$`)
	reRollback  = regexp.MustCompile(`^ROLLBACK TO SAVEPOINT (\S+)$`)
	reAdv       = regexp.MustCompile(`(?i)^SELECT (pg_advisory_lock|pg_advisory_xact_lock|pg_try_advisory_lock|pg_try_advisory_xact_lock|pg_advisory_unlock)\((?:hashtext\('([^']*)'\)|(\d+))\)$`)
	reUpdState  = regexp.MustCompile(`^UPDATE "_system"\."ledgers" AS "ledgers" SET state = '([^']*)' WHERE \(id = (\d+) and state = '([^']*)'\)$`)
	reSetval    = regexp.MustCompile(`^select setval\(\s*'("[^"]*"\."[^"]*")',\s*\(\s*select max\(id\) from "([^"]*)"\.(\w+)(?: where ledger = '([^']*)')?\s*\)::bigint\s*\)$`)
	reSelLedger = regexp.MustCompile(`^SELECT (.*) FROM "_system"\."ledgers" AS "ledgers" WHERE \(id = (\d+)\)$`)
	reSpaces    = regexp.MustCompile(`\s+`)
)

func normSQL(q string) string { return strings.TrimSpace(reSpaces.ReplaceAllString(q, " ")) }

type execResult struct{ n int64 }

func (r execResult) LastInsertId() (int64, error) { return 0, nil }
func (r execResult) RowsAffected() (int64, error) { return r.n, nil }

func (c *conn) ExecContext(ctx context.Context, query string, args []driver.NamedValue) (driver.Result, error) {
	if len(args) != 0 {
		return nil, c.w.harnessErr("simpg: statement with bind arguments: %q", query)
	}
	if c.w.epochDead(c.epoch) {
		c.sess.Kill()
		return nil, errSessionDead
	}
	q := normSQL(query)
	if m := reSimcall.FindStringSubmatch(q); m != nil {
		id, _ := strconv.Atoi(m[1])
		fn := c.w.takeCall(id)
		if fn == nil {
			return nil, c.w.harnessErr("simpg: unknown SIMCALL %d", id)
		}
		return execResult{}, fn(ctx, c)
	}
	if m := reSavepoint.FindStringSubmatch(q); m != nil {
		return execResult{}, c.sess.Savepoint(m[1])
	}
	if m := reRelease.FindStringSubmatch(q); m != nil {
		switch c.commitFault {
		case FCommitClean, FCommitAmbiguous:
			// a connection lost while releasing a savepoint loses the whole transaction
			c.commitFault = ""
			c.sess.Kill()
			return nil, errConnLost
		}
		return execResult{}, c.sess.Release(m[1])
	}
	if m := reRollback.FindStringSubmatch(q); m != nil {
		return execResult{}, c.sess.RollbackTo(m[1])
	}
	if m := reAdv.FindStringSubmatch(q); m != nil {
		key := m[2]
		if m[3] != "" {
			// integer key (storage/ledger/logs.go locks the ledger id before inserting a log)
			key = "int:" + m[3]
			if c.w.realSQL {
				if err := c.driverYield(ctx, "sql:advisory-lock", "", lockStmtKinds); err != nil {
					return nil, err
				}
			}
		}
		switch strings.ToLower(m[1]) {
		case "pg_advisory_lock":
			return execResult{}, c.w.runStmt(ctx, c, func() error { return c.sess.advLockStmt(key, false) })
		case "pg_advisory_xact_lock":
			return execResult{}, c.w.runStmt(ctx, c, func() error { return c.sess.advLockStmt(key, true) })
		case "pg_try_advisory_lock", "pg_try_advisory_xact_lock":
			// never waits: the boolean it returns (false = somebody else holds it) goes to the caller through
			// QueryContext; an Exec discards it, as PostgreSQL does
			got, err := c.sess.advTryLockStmt(key, strings.ToLower(m[1]) == "pg_try_advisory_xact_lock")
			c.lastTry = got
			return execResult{}, err
		default:
			_, err := c.sess.advUnlockStmt(key)
			return execResult{}, err
		}
	}
	if m := reUpdState.FindStringSubmatch(q); m != nil {
		newState, oldState := m[1], m[3]
		id, _ := strconv.Atoi(m[2])
		var n int64
		err := c.w.runStmt(ctx, c, func() error {
			return c.sess.stmt(taskKeyOf(ctx), func() error {
				n = 0
				k, row := c.sess.findLedgerByID(id)
				if row == nil {
					return nil
				}
				if err := c.sess.lockRow(k); err != nil {
					return err
				}
				row = c.sess.get(k).(*LedgerRow)
				if row.State != oldState {
					return nil
				}
				cp := *row
				cp.State = newState
				c.sess.put(k, &cp)
				n = 1
				return nil
			})
		})
		return execResult{n: n}, err
	}
	if m := reSetval.FindStringSubmatch(q); m != nil {
		seq, bucket, table, ledgerName := m[1], m[2], m[3], m[4]
		unscopedOwner := ""
		defer func() {
			if ledgerName == "" && unscopedOwner != "" {
				u := UnscopedRead{Task: taskKeyOf(ctx), Ledger: unscopedOwner, Bucket: bucket, Refs: 1, SQL: q, Tables: []string{table}, Event: c.w.eventNow()}
				c.w.mu.Lock()
				c.w.unscoped = append(c.w.unscoped, u)
				c.w.mu.Unlock()
			}
		}()
		err := c.sess.stmt(taskKeyOf(ctx), func() error {
			var ledgers []string
			if ledgerName == "" {
				// no ledger predicate: the maximum is taken over the whole table of the bucket. For the statement
				// audit of C19 this is a read of a bucket table without its ledger predicate, on behalf of the
				// ledger that owns the sequence
				owner := ""
				for _, k := range c.sess.scan("ledger", "") {
					if l, _ := c.sess.get(k).(*LedgerRow); l != nil && l.Bucket == bucket && strings.HasSuffix(seq, fmt.Sprintf("_%d\"", l.ID)) {
						owner = l.Name
					}
				}
				unscopedOwner = owner
				for _, k := range c.sess.scan("ledger", "") {
					if l, _ := c.sess.get(k).(*LedgerRow); l != nil && l.Bucket == bucket {
						ledgers = append(ledgers, l.Name)
					}
				}
			} else if l, _ := c.sess.get(rowKey{"ledger", "", ledgerName}).(*LedgerRow); l != nil && l.Bucket == bucket {
				ledgers = []string{ledgerName}
			}
			if len(ledgers) == 0 {
				// max over an empty set is NULL; setval(NULL) returns NULL and changes nothing
				return nil
			}
			var tbl string
			switch table {
			case "transactions":
				tbl = "tx"
			case "logs":
				tbl = "log"
			default:
				return pgErr("42P01", "relation does not exist: "+table, "")
			}
			var max int64 = -1
			for _, name := range ledgers {
				for _, k := range c.sess.scan(tbl, name) {
					if id, err := strconv.ParseInt(k.Key, 10, 64); err == nil && id > max {
						max = id
					}
				}
			}
			if max < 0 {
				return nil
			}
			if _, ok := c.sess.db.seqs[seq]; !ok {
				return pgErr("42P01", "relation does not exist: "+seq, "")
			}
			c.sess.db.setvalLocked(seq, max)
			return nil
		})
		return execResult{}, err
	}
	if c.w.realSQL && looksLikeDDL(query) {
		c.w.mu.Lock()
		c.w.ddlSeen = true
		c.w.mu.Unlock()
		return execResult{}, c.execDDL(ctx, query)
	}
	if c.w.realSQL || ctx.Value(sysSQLKey) != nil {
		res, err := c.sqlStatement(ctx, query)
		if err != nil {
			return nil, err
		}
		return execResult{n: res.affected}, nil
	}
	return nil, c.w.harnessErr("simpg: unrecognised statement: %q", q)
}

func (c *conn) QueryContext(ctx context.Context, query string, args []driver.NamedValue) (driver.Rows, error) {
	if len(args) != 0 {
		return nil, c.w.harnessErr("simpg: query with bind arguments: %q", query)
	}
	if c.w.epochDead(c.epoch) {
		c.sess.Kill()
		return nil, errSessionDead
	}
	q := normSQL(query)
	if m := reSelLedger.FindStringSubmatch(q); m != nil {
		id, _ := strconv.Atoi(m[2])
		var row *LedgerRow
		err := c.sess.stmt(taskKeyOf(ctx), func() error {
			_, row = c.sess.findLedgerByID(id)
			return nil
		})
		if err != nil {
			return nil, err
		}
		cols := []string{"bucket", "metadata", "features", "id", "name", "added_at", "state", "deleted_at"}
		rows := &simRows{cols: cols}
		if row != nil {
			md, _ := json.Marshal(row.Metadata)
			ft, _ := json.Marshal(row.Features)
			rows.data = append(rows.data, []driver.Value{row.Bucket, md, ft, int64(row.ID), row.Name, row.AddedAt, row.State, nil})
		}
		return rows, nil
	}
	// statements that are exec-like but issued through Query by bun (e.g. Exec of a raw select)
	if reAdv.MatchString(q) || reSetval.MatchString(q) {
		if _, err := c.ExecContext(ctx, query, args); err != nil {
			return nil, err
		}
		if strings.Contains(strings.ToLower(q), "pg_try_advisory") {
			return &simRows{cols: []string{"result"}, data: [][]driver.Value{{c.lastTry}}}, nil
		}
		return &simRows{cols: []string{"result"}, data: [][]driver.Value{{nil}}}, nil
	}
	if c.w.realSQL || ctx.Value(sysSQLKey) != nil {
		res, err := c.sqlStatement(ctx, query)
		if err != nil {
			return nil, err
		}
		return res.rows(), nil
	}
	return nil, c.w.harnessErr("simpg: unrecognised query: %q", q)
}

// driverYield is a yield point inside a driver call (real-SQL mode: every data statement the real storage
// code sends). It returns the error the statement must fail with, if a fault was injected.
func (c *conn) driverYield(ctx context.Context, op, note string, kinds []FaultKind) error {
	if f := c.w.parkInDriver(ctx, op, note, kinds); f != nil {
		switch f.Kind {
		case FShutdown:
			c.sess.abandonStmt()
			return errShutdown
		case FStmtErr:
			c.sess.failStmt()
			return pgErr("53100", "could not extend file: No space left on device (injected)", "")
		case FConnLost:
			c.sess.Kill()
			return errConnLost
		case FDeadlock:
			c.sess.failStmt()
			return pgErr("40P01", "deadlock detected (injected)", "")
		case FSerialization:
			c.sess.failStmt()
			return pgErr("40001", "could not serialize access (injected)", "")
		}
	}
	if c.sess.dead || c.w.epochDead(c.epoch) {
		return errSessionDead
	}
	if err := ctx.Err(); err != nil {
		c.sess.abandonStmt()
		return err
	}
	return nil
}

// sqlStatement: real-SQL mode. The statement text built by the real storage code is parsed, becomes a
// yield point (scheduling decision, fault site), and is interpreted over simpg on this connection's session.
func (c *conn) sqlStatement(ctx context.Context, query string) (*sqlResult, error) {
	c.w.auditRead(ctx, query)
	stmt, err := parseSQL(query)
	if err != nil {
		return nil, c.w.unsupportedSQL(ctx, err, query)
	}
	verb, table := describeStmt(stmt)
	if sqlTrace {
		q := normSQL(query)
		if len(q) > 400 {
			q = q[:400]
		}
		fmt.Fprintf(os.Stderr, "SQLTRACE %s: %s\n", taskKeyOf(ctx), q)
	}
	kinds := stmtKinds
	if stmtTakesLocks(stmt) {
		kinds = lockStmtKinds
	}
	if ctx.Value(sysSQLKey) == nil {
		if err := c.driverYield(ctx, "sql:"+verb+":"+table, "", kinds); err != nil {
			return nil, err
		}
	} else {
		c.w.probe("system_store_sql:" + verb + ":" + table)
	}
	task := taskKeyOf(ctx)
	st := &stmtState{ledger: stmtLedgerOf(ctx), task: task, query: normSQL(query)}
	var res *sqlResult
	err = c.w.runStmt(ctx, c, func() error {
		var e error
		res, e = c.execParsed(task, stmt, st)
		return e
	})
	if err != nil {
		var ue *errUnsupportedSQL
		if errors.As(err, &ue) {
			return nil, c.w.unsupportedSQL(ctx, err, query)
		}
		if sqlTrace {
			fmt.Fprintf(os.Stderr, "SQLTRACE %s: -> error %v\n", taskKeyOf(ctx), err)
		}
		return nil, err
	}
	return res, nil
}

// unsupportedSQL: the statement is outside what the interpreter models. The run is reported as
// inconclusive (never as a violation, never as infrastructure trouble); the statement itself fails like a
// feature the server does not support.
func (w *World) unsupportedSQL(ctx context.Context, err error, query string) error {
	if sqlTrace {
		fmt.Fprintf(os.Stderr, "SQLTRACE-UNSUPPORTED %s: %v :: %s\n", taskKeyOf(ctx), err, normSQL(query))
	}
	if ctx.Value(softSQLKey) != nil {
		// a read that has a model-served fallback: nothing is marked
		return pgErr("0A000", err.Error(), "")
	}
	w.mu.Lock()
	if w.sqlUnsupported == "" {
		q := normSQL(query)
		if len(q) > 300 {
			q = q[:300] + "..."
		}
		w.sqlUnsupported = err.Error() + " in: " + q
	}
	w.mu.Unlock()
	return pgErr("0A000", err.Error(), "")
}

type simRows struct {
	cols []string
	data [][]driver.Value
	pos  int
}

func (r *simRows) Columns() []string { return r.cols }
func (r *simRows) Close() error      { return nil }
func (r *simRows) Next(dest []driver.Value) error {
	if r.pos >= len(r.data) {
		return io.EOF
	}
	copy(dest, r.data[r.pos])
	r.pos++
	return nil
}

// runStmt runs a simpg statement that may have to wait for a lock: while another session holds the
// lock the calling goroutine parks (inside the driver call) and is resumed by the scheduler when the
// lock is free or its context is cancelled.
func (w *World) runStmt(ctx context.Context, c *conn, fn func() error) error {
	for {
		err := fn()
		var wb *wouldBlock
		if !errors.As(err, &wb) {
			return err
		}
		what := "row:"
		if wb.row != nil {
			what += wb.row.String()
		} else {
			what = "adv:" + wb.adv
		}
		w.probe("lock_wait")
		if f := w.parkLockWait(ctx, c.sess, what); f != nil && f.Kind == FShutdown {
			c.sess.abandonStmt()
			return errShutdown
		}
		if c.sess.dead || w.epochDead(c.epoch) {
			c.sess.abandonStmt()
			return errSessionDead
		}
		if ctx.Err() != nil {
			c.sess.abandonStmt()
			return ctx.Err()
		}
	}
}

// unmodelled: a read shape the stub does not model. In profiles that send arbitrary queries
// (lenientReads) the stub refuses it the way the storage layer refuses an invalid query; elsewhere the
// workload generator has a bug.
func (w *World) unmodelled(format string, a ...any) error {
	if w.lenientReads {
		return storagecommon.NewErrInvalidQuery(format, a...)
	}
	return w.harnessErr(format, a...)
}

func (w *World) harnessErr(format string, a ...any) error {
	err := fmt.Errorf(format, a...)
	w.mu.Lock()
	if w.harness == nil {
		w.harness = err
	}
	w.mu.Unlock()
	return err
}
