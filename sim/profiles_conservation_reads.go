package sim

// C01, second profile: conservation as the READS report it. The first profile sums the rows of accounts_volumes
// after every commit; the property also speaks of aggregated balances and of volumes read at any point in time,
// and those go through other rows (the moves, their post-commit volumes, the windows over them).
//
// Scenario: a history with pass-through postings (world -> a -> b in one transaction: an account crossed twice),
// back-dated and future-dated transactions and reverts, then readers asking for unfiltered aggregated balances
// (current, at a point in time, in both date modes) and complete volume listings (current, up to an instant, in both
// date modes) while writers keep adding transactions of every date. Oracle, without any reference: each of those
// reads is one statement over one snapshot, so per asset the balances it reports sum to zero and the inputs it
// reports equal the outputs - whatever the writers did meanwhile.

import (
	"encoding/json"
	"fmt"
	"math/big"
	"sort"
	"strings"
)

func init() {
	register(Profile{Property: "C01", Name: "conservation-in-reads", Gen: func(r *RNG, seed uint64, tier string) (*Scenario, *ExploreCfg) {
		sc := &Scenario{Property: "C01", Profile: "conservation-in-reads", Knobs: randomKnobs(r), Checks: []string{"conservation", "conservation-reads"},
			Params: map[string]string{"lenient_reads": "1", "force_real_sql": "1"}}
		g := &gen{r: r, sc: sc}
		sc.Setup = []Op{{ID: g.id("s"), Kind: KCreateLedger, Ledger: "l1"}}
		if r.Chance(0.3) {
			sc.Setup = append(sc.Setup, Op{ID: g.id("s"), Kind: KCreateLedger, Ledger: "l2"},
				Op{ID: g.id("s"), Kind: KPostings, Ledger: "l2", Timestamp: "1999-06-01T00:00:00Z", Postings: []PostingSpec{{"world", "u:1", "7777", "USD"}}})
		}
		dates := []string{"1999-12-31T23:59:59Z", "1999-06-01T00:00:00Z", "1990-01-01T12:00:00.123456Z", "2000-01-02T00:00:00Z", "2000-01-01T12:00:00Z", "2030-01-01T00:00:00Z"}
		txN := uint64(0)
		reverted := map[uint64]bool{}
		write := func() (Op, bool) {
			var op Op
			switch x := r.Intn(10); {
			case x < 7 || txN == 0:
				a, b, as := Pick(r, users), Pick(r, users), Pick(r, assets)
				op = Op{Kind: KPostings, Ledger: "l1", Postings: []PostingSpec{{"world", a, fmt.Sprint(10 + r.Intn(90)), as}}}
				switch r.Intn(4) {
				case 0: // the account is crossed: credited, then debited, in one transaction
					op.Postings = append(op.Postings, PostingSpec{a, b, fmt.Sprint(1 + r.Intn(9)), as})
				case 1: // ... twice
					op.Postings = append(op.Postings, PostingSpec{a, b, fmt.Sprint(1 + r.Intn(5)), as}, PostingSpec{b, a, "1", as}, PostingSpec{a, "bank", "1", as})
				case 2: // a posting from an account to itself
					op.Postings = append(op.Postings, PostingSpec{a, a, "3", as})
				}
				if r.Chance(0.6) {
					op.Timestamp = Pick(r, dates)
				}
				txN++
			default:
				id := 1 + uint64(r.Intn(int(txN)))
				if reverted[id] {
					return op, false
				}
				reverted[id] = true
				op = Op{Kind: KRevert, Ledger: "l1", TxID: id, Force: true, AtEffectiveDate: r.Bool()}
				txN++
				reverted[txN] = true
			}
			return op, true
		}
		for i := 0; i < 3+r.Intn(6); i++ {
			if op, ok := write(); ok {
				op.ID = g.id("s")
				sc.Setup = append(sc.Setup, op)
			}
		}
		for c := 0; c < 1+r.Intn(3); c++ {
			var ops []Op
			for i := 0; i < 3+r.Intn(5); i++ {
				t := Pick(r, pitInstants)
				op := Op{ID: fmt.Sprintf("r%d.%d", c, i), Kind: KRaw, Ledger: "l1"}
				switch r.Intn(6) {
				case 0:
					op.Raw = &Request{Method: "GET", Path: "/v2/l1/aggregate/balances"}
				case 1, 2:
					op.Raw = &Request{Method: "GET", Path: "/v2/l1/aggregate/balances?pit=" + t + Pick(r, []string{"", "&useInsertionDate=true"})}
				case 3:
					op.Raw = &Request{Method: "GET", Path: "/v2/l1/volumes?pageSize=100"}
				default:
					op.Raw = &Request{Method: "GET", Path: "/v2/l1/volumes?pageSize=100&endTime=" + t + Pick(r, []string{"", "&insertionDate=true"})}
				}
				ops = append(ops, op)
			}
			sc.Clients = append(sc.Clients, ops)
		}
		for c := 0; c < r.Intn(3); c++ {
			var ops []Op
			for i := 0; i < 1+r.Intn(3); i++ {
				if op, ok := write(); ok && op.Kind == KPostings {
					// (a racing revert may be refused - already reverted by the other writer - which is fine, but its
					// id bookkeeping is not worth it here)
					op.ID = fmt.Sprintf("w%d.%d", c, i)
					ops = append(ops, op)
				}
			}
			if len(ops) > 0 {
				sc.Clients = append(sc.Clients, ops)
			}
		}
		ex := defaultExplore(seed, 0, 0)
		if r.Chance(0.3) {
			ex = defaultExplore(seed, 0.04, 3, FStmtErr, FConnLost, FDeadlock)
		}
		ex.PreemptP = 0.5
		return sc, ex
	}})
}

// checkConservationReads: every answered, unfiltered aggregated-balances or complete volumes read conserves each asset.
func checkConservationReads(r *runner) []Violation {
	var vs []Violation
	for _, or := range r.results {
		if or.Op.Kind != KRaw || or.Op.Raw == nil || or.Op.Raw.Method != "GET" || or.Out.Class != "ok" || or.Op.Raw.Body != "" {
			continue
		}
		path, query, _ := strings.Cut(or.Op.Raw.Path, "?")
		if r.w.fired[FClockJump] > 0 && (strings.Contains(query, "useInsertionDate=true") || strings.Contains(query, "insertionDate=true")) {
			// the database clock was moved in this run (thorough tier): insertion dates are then not in commit order,
			// the moves inserted up to an instant are not a prefix of the history, and "at that instant" names no
			// state of the ledger to conserve anything (same reasoning as metadata-at-pit, 15.17)
			continue
		}
		dec := func(into any) bool {
			d := json.NewDecoder(strings.NewReader(string(or.Out.Body)))
			d.UseNumber()
			return d.Decode(into) == nil
		}
		sums := map[string]*big.Int{}
		add := func(asset string, n *big.Int) {
			if sums[asset] == nil {
				sums[asset] = new(big.Int)
			}
			sums[asset].Add(sums[asset], n)
		}
		what := ""
		switch {
		case strings.HasSuffix(path, "/aggregate/balances"):
			var env struct {
				Data map[string]json.Number `json:"data"`
			}
			if !dec(&env) {
				continue
			}
			what = "the balances"
			bad := false
			for as, b := range env.Data {
				n := bigNum(b)
				if n == nil {
					bad = true
					break
				}
				add(as, n)
			}
			if bad {
				continue
			}
		case strings.HasSuffix(path, "/volumes"):
			var env struct {
				Cursor struct {
					HasMore bool `json:"hasMore"`
					Data    []struct {
						Account string `json:"account"`
						Asset   string `json:"asset"`
						volJSON
					} `json:"data"`
				} `json:"cursor"`
			}
			if !dec(&env) || env.Cursor.HasMore {
				continue
			}
			what = "input minus output"
			bad := false
			for _, v := range env.Cursor.Data {
				in, o := bigNum(v.Input), bigNum(v.Output)
				if in == nil || o == nil {
					bad = true
					break
				}
				add(v.Asset, new(big.Int).Sub(in, o))
			}
			if bad {
				continue
			}
		default:
			continue
		}
		r.w.probe("conservation_read_judged")
		var off []string
		for as, n := range sums {
			if n.Sign() != 0 {
				off = append(off, fmt.Sprintf("%s: %s", as, n))
			}
		}
		sort.Strings(off)
		if len(off) > 0 {
			vs = append(vs, Violation{r.sc.Property, "reads-conserve-every-asset", fmt.Sprintf("%s GET %s: %s it reports do not sum to zero {%s}: %s", or.Op.ID, or.Op.Raw.Path, what, strings.Join(off, "; "), truncate(string(or.Out.Body), 400))})
		}
	}
	return vs
}
