package sim

// Fault enumeration tier (C07, C31; since wave 9 also C08, C15 and C03 with their own oracles): for a fixed list of scenarios - every write kind x {single request on
// an in-use ledger, first write of a pristine ledger, element of a non-atomic bulk, element of an atomic
// bulk} x {contract model, real SQL} - one fault-free run numbers the yield points of the request (every
// store call / SQL statement, BeginTX, Commit, LockLedger...) and the fault kinds each admits; then one run
// per (yield point, fault kind) injects exactly that fault. This is a complete enumeration of the
// single-fault positions of those scenarios, not a sample. The same oracles judge every run.

import (
	"fmt"
	"sort"
	"strings"
	"testing"
)

type enumScenario struct {
	name string
	sc   *Scenario
}

// enumScenarios builds the scenario list of a property (deterministic: no PRNG involved).
func enumScenarios(prop string) []enumScenario {
	var checks []string
	switch prop {
	case "C07":
		checks = []string{"logs-match-ops", "replay", "events", "no-leaked-locks"}
	case "C31":
		checks = []string{"events", "logs-match-ops"}
	case "C08":
		// the journal is the state, whatever single fault (crash included) strikes a write, wherever
		checks = []string{"logs-match-ops", "replay", "log-order"}
	case "C15":
		checks = []string{"reverts", "conservation", "logs-match-ops", "revert-answers"}
	case "C03":
		checks = []string{"pcv", "conservation", "logs-match-ops"}
	default:
		return nil
	}
	var out []enumScenario
	type kindGen struct {
		name     string
		pristine bool // usable as the first write of a ledger
		mk       func(g *gen, sc *Scenario) Op
	}
	kinds := []kindGen{
		{"postings-v2", true, func(g *gen, sc *Scenario) Op {
			return Op{Kind: KPostings, Ledger: "l1", Postings: []PostingSpec{{"world", "u:1", "5", "USD"}, {"u:1", "u:2", "3", "USD"}}, Reference: "enum-ref"}
		}},
		{"postings-v1", true, func(g *gen, sc *Scenario) Op {
			return Op{Kind: KPostings, Ledger: "l1", API: "v1", Postings: []PostingSpec{{"world", "u:2", "7", "USD"}}}
		}},
		{"postings-insufficient", true, func(g *gen, sc *Scenario) Op {
			return Op{Kind: KPostings, Ledger: "l1", Postings: []PostingSpec{{"poor:1", "bank", "1000000", "USD"}}}
		}},
		{"postings-ik", true, func(g *gen, sc *Scenario) Op {
			return Op{Kind: KPostings, Ledger: "l1", Postings: []PostingSpec{{"world", "u:3", "9", "USD"}}, IK: "ik-enum"}
		}},
		{"postings-dry-run", true, func(g *gen, sc *Scenario) Op {
			return Op{Kind: KPostings, Ledger: "l1", Postings: []PostingSpec{{"world", "u:3", "9", "USD"}}, DryRun: true}
		}},
		{"script", true, func(g *gen, sc *Scenario) Op {
			return Op{Kind: KScript, Ledger: "l1", Script: "send [USD 4] (\n  source = @world\n  destination = @u:2\n)\nset_account_meta(@u:2, \"k\", \"v\")\nset_tx_meta(\"t\", \"1\")\n"}
		}},
		{"script-bounded-source", false, func(g *gen, sc *Scenario) Op {
			return Op{Kind: KScript, Ledger: "l1", Script: "send [USD 4] (\n  source = @u:1\n  destination = @u:2\n)\n",
				Sem: &ScriptSem{Asset: "USD", Amount: "4", Sources: []SourceSem{{Account: "u:1"}}, Dest: "u:2"}}
		}},
		{"revert", false, func(g *gen, sc *Scenario) Op { return Op{Kind: KRevert, Ledger: "l1", TxID: 3, Force: true} }},
		{"revert-at-effective-date", false, func(g *gen, sc *Scenario) Op {
			return Op{Kind: KRevert, Ledger: "l1", TxID: 4, AtEffectiveDate: true}
		}},
		{"tx-meta-set", false, func(g *gen, sc *Scenario) Op { return Op{Kind: KTxMetaSet, Ledger: "l1", TxID: 3} }},
		{"tx-meta-del", false, func(g *gen, sc *Scenario) Op { return delSetupKey(g, "l1", 3, sc.Setup[3].ID) }},
		{"acct-meta-set", true, func(g *gen, sc *Scenario) Op { return Op{Kind: KAcctMetaSet, Ledger: "l1", Address: "u:1"} }},
		{"acct-meta-del", true, func(g *gen, sc *Scenario) Op { return Op{Kind: KAcctMetaDel, Ledger: "l1", Address: "u:1"} }},
		{"schema-insert", true, func(g *gen, sc *Scenario) Op {
			spec := schemaSpec{Version: "s.enum", Chart: map[string]*chartNode{
				"world": {Account: true}, "bank": {Account: true}, "poor": {Var: &chartNode{Account: true}, VarLabel: "n"},
				"u": {Var: &chartNode{Account: true, Defaults: map[string]string{"tier": "std"}}, VarLabel: "id", VarPat: "^[0-9]+$"}}}
			return Op{Kind: KSchema, Ledger: "l1", SchemaVersion: spec.Version, Sig: "enum", Schema: spec.renderJSON()}
		}},
	}
	contexts := []string{"single", "first", "bulk", "atomic"}
	for _, k := range kinds {
		for _, ctx := range contexts {
			if ctx == "first" && !k.pristine {
				continue
			}
			if (ctx == "bulk" || ctx == "atomic") && (k.name == "schema-insert" || k.name == "postings-v1" || k.name == "postings-dry-run" || k.name == "postings-ik") {
				continue // not expressible as a bulk element (or not with that option)
			}
			for _, real := range []bool{false, true} {
				sc := &Scenario{Property: prop, Profile: "enumerate", Seed: 1, Checks: checks, Params: map[string]string{"record_yields": "1"},
					Knobs: Knobs{NSCache: 2, BulkParallelism: 2, MaxRetry: 1, RetryDelayMs: 50, HashLogs: "SYNC", BusListener: real, RealSQL: real}}
				g := &gen{r: NewRNG(7), sc: sc}
				sc.Setup = g.baseSetup("l1", "100", 2)
				op := k.mk(g, sc)
				if ctx == "first" {
					sc.Setup = sc.Setup[:1]
				}
				switch op.Kind {
				case KTxMetaSet, KAcctMetaSet:
					op.Metadata = map[string]string{"m.ZZ": "v"}
				case KAcctMetaDel:
					op.Key = "d.ZZ"
				}
				fix := func(o *Op, id string) {
					o.ID = id
					for key, v := range o.Metadata {
						if key == "m.ZZ" {
							delete(o.Metadata, key)
							o.Metadata["m."+id] = v
						}
					}
					if o.Key == "d.ZZ" {
						o.Key = "d." + id
					}
					if o.IK != "" {
						o.IK = "ik-" + id
					}
				}
				var main Op
				switch ctx {
				case "single", "first":
					main = op
					fix(&main, "c0.0")
				case "bulk":
					fix(&op, "e1")
					filler := Op{ID: "e2", Kind: KPostings, Ledger: "l1", Postings: []PostingSpec{{"world", "u:3", "1", "USD"}}}
					main = Op{ID: "c0.0", Kind: KBulk, Ledger: "l1", Elements: []Op{op, filler}, ContinueOnFailure: true}
				case "atomic":
					fix(&op, "e2")
					filler := Op{ID: "e1", Kind: KPostings, Ledger: "l1", Postings: []PostingSpec{{"world", "u:3", "1", "USD"}}}
					main = Op{ID: "c0.0", Kind: KBulk, Ledger: "l1", Elements: []Op{filler, op}, Atomic: true}
				}
				sc.Clients = [][]Op{{main}}
				mode := "model"
				if real {
					mode = "real-sql"
				}
				out = append(out, enumScenario{name: k.name + "/" + ctx + "/" + mode, sc: sc})
			}
		}
	}
	return out
}

type EnumStats struct {
	Scenarios  int            `json:"scenarios"`
	Sites      int            `json:"sites"`      // (scenario, yield point) pairs that admit a fault
	Positions  int            `json:"positions"`  // (scenario, yield point, fault kind) triples = runs of the enumeration
	Runs       int            `json:"runs"`       // runs this process executed
	PerKind    map[string]int `json:"per_kind"`   // positions per fault kind
	PerOp      map[string]int `json:"per_op"`     // positions per store call / statement
	Incomplete []string       `json:"incomplete"` // scenarios whose fault-free run did not complete cleanly
	Traces     []string       `json:"-"`          // interleaving digests of the runs this process executed
	Sample     []string       `json:"sample"`     // a few positions, written out
}

// enumerateFaults runs the enumeration tier of a property, if it has one. Work is split over the worker
// processes by position index.
func enumerateFaults(t *testing.T, prop string, out *ProcResult, handle func(pname string, run int, rs uint64, sc *Scenario, recorded Plan, res *RunResult)) {
	scs := enumScenarios(prop)
	if len(scs) == 0 {
		return
	}
	st := &EnumStats{PerKind: map[string]int{}, PerOp: map[string]int{}}
	out.Enum = st
	idx := 0
	for si, es := range scs {
		st.Scenarios++
		base := RunScenario(t, cloneScenario(es.sc), &Plan{}, nil)
		if base.Harness != nil || base.Unsupported != "" || len(base.Violations) > 0 {
			// the fault-free run is itself judged (every process does it; report once)
			st.Incomplete = append(st.Incomplete, fmt.Sprintf("%s: harness=%v unsupported=%q violations=%v", es.name, base.Harness, base.Unsupported, base.Violations))
			if *fFrom == 0 && base.Harness == nil && base.Unsupported == "" {
				handle("enumerate:"+es.name, -1000-si, 1, es.sc, Plan{}, base)
			}
			continue
		}
		var sites []YieldSite
		for _, y := range base.Yields {
			if strings.HasPrefix(opIDOf(y.Task), "c0.") {
				sites = append(sites, y)
			}
		}
		for _, y := range sites {
			st.Sites++
			kinds := append([]FaultKind(nil), y.Kinds...)
			sort.Slice(kinds, func(i, j int) bool { return kinds[i] < kinds[j] })
			for _, k := range kinds {
				if k == FCommitAmbiguous || k == FClockJump {
					continue // ambiguous commits are not part of "a write that returns an error leaves no trace"
				}
				st.Positions++
				st.PerKind[string(k)]++
				st.PerOp[y.Op]++
				mine := idx%*fStride == *fFrom
				idx++
				if !mine {
					continue
				}
				plan := Plan{Faults: []FaultAt{{Task: y.Task, N: y.N, Kind: k}}}
				res := RunScenario(t, cloneScenario(es.sc), &plan, nil)
				st.Runs++
				out.Runs++
				out.Steps += res.Stats.Steps
				out.Commits += res.Stats.Commits
				out.Crashes += res.Stats.Crashes
				if es.sc.Knobs.RealSQL {
					out.RealSQLRuns++
				}
				for fk, v := range res.Stats.Fired {
					out.Fired[string(fk)] += v
				}
				out.Profiles["enumerate"]++
				st.Traces = append(st.Traces, res.Stats.TraceDigest)
				if len(st.Sample) < 4 {
					st.Sample = append(st.Sample, fmt.Sprintf("%s: %s at %s#%d (%s)", es.name, k, y.Task, y.N, y.Op))
				}
				if res.Unsupported != "" {
					out.UnsupportedRuns++
					continue
				}
				if res.Harness != nil {
					out.Harness = append(out.Harness, fmt.Sprintf("enumeration %s at %s#%d %s: %v", es.name, y.Task, y.N, k, res.Harness))
					continue
				}
				handle("enumerate:"+es.name, -1-idx, 1, es.sc, plan, res)
			}
		}
	}
}
