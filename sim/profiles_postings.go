package sim

// C25: a postings request is recorded exactly as submitted, and fails with insufficient funds if and
// only if applying its postings in order takes a non-world source below zero.

import (
	"fmt"
	"math/big"
	"strings"

	ledger "github.com/formancehq/ledger/internal"
)

func init() {
	register(Profile{Property: "C25", Name: "postings-exact", Gen: func(r *RNG, seed uint64, tier string) (*Scenario, *ExploreCfg) {
		sc := &Scenario{Property: "C25", Profile: "postings-exact", Knobs: randomKnobs(r), Checks: []string{"postings-model", "logs-match-ops"}, Params: map[string]string{}}
		g := &gen{r: r, sc: sc}
		accts := []string{"a", "b", "c"}
		sc.Setup = []Op{{ID: g.id("s"), Kind: KCreateLedger, Ledger: "l1", Feats: ledgerFeatures(sc.Knobs)}}
		// random starting balances
		var ps []PostingSpec
		for _, a := range accts {
			for _, as := range assets {
				if r.Chance(0.7) {
					ps = append(ps, PostingSpec{"world", a, Pick(r, []string{"1", "50", "100", "122", "9007199254740993", "18446744073709551617"}), as})
				}
			}
		}
		if len(ps) > 0 {
			sc.Setup = append(sc.Setup, Op{ID: g.id("s"), Kind: KPostings, Ledger: "l1", Postings: ps})
		}
		overdrawn := r.Chance(0.2)
		if overdrawn {
			// an account left below zero by a forced request; later requests pass it through a zero-amount posting,
			// refill it partly and spend from it again
			sc.Setup = append(sc.Setup, Op{ID: g.id("s"), Kind: KPostings, Ledger: "l1", Force: true, Postings: []PostingSpec{{"n", "world", fmt.Sprint(20 + r.Intn(60)), "USD"}}})
		}
		nc := 1 + r.Intn(3)
		for c := 0; c < nc; c++ {
			n := 1 + r.Intn(4)
			var ops []Op
			if overdrawn && r.Chance(0.7) {
				credit := 5 + r.Intn(40)
				pp := []PostingSpec{{"n", Pick(r, accts), "0", "USD"}, {"world", "n", fmt.Sprint(credit), "USD"}, {"n", Pick(r, accts), fmt.Sprint(1 + r.Intn(credit)), "USD"}}
				if r.Chance(0.3) {
					pp = pp[1:]
				}
				ops = append(ops, Op{ID: fmt.Sprintf("c%d.n", c), Kind: KPostings, Ledger: "l1", Postings: pp})
			}
			for i := 0; i < n; i++ {
				np := 1 + r.Intn(5)
				if r.Chance(0.1) {
					np = 10 + r.Intn(11)
				}
				var pp []PostingSpec
				for j := 0; j < np; j++ {
					src := Pick(r, append(append([]string{}, accts...), "world"))
					dst := Pick(r, append(append([]string{}, accts...), "world", "d"))
					if r.Chance(0.15) {
						dst = src
					}
					var amt string
					switch x := r.Intn(10); {
					case x < 1:
						amt = "0"
					case x < 7:
						amt = fmt.Sprint(1 + r.Intn(130))
					default:
						amt = Pick(r, bigAmount)
					}
					pp = append(pp, PostingSpec{src, dst, amt, Pick(r, assets)})
				}
				op := Op{ID: fmt.Sprintf("c%d.%d", c, i), Kind: KPostings, Ledger: "l1", Postings: pp, Force: r.Chance(0.12)}
				switch x := r.Intn(10); {
				case x < 2 && !op.Force:
					op.API = "v1"
				case x < 4:
					// as the single element of a bulk
					el := op
					el.ID = op.ID + "e"
					op = Op{ID: op.ID, Kind: KBulk, Ledger: "l1", Elements: []Op{el}}
				}
				ops = append(ops, op)
			}
			sc.Clients = append(sc.Clients, ops)
		}
		ex := defaultExplore(seed, 0, 0)
		return sc, ex
	}})
}

type balSnap struct {
	event uint64
	bal   map[string]*big.Int // account\x00asset
}

func balancesOf(state map[rowKey]any, ledgerName string) map[string]*big.Int {
	out := map[string]*big.Int{}
	for k, v := range state {
		if k.Table == "vol" && k.Ledger == ledgerName {
			r := v.(*VolRow)
			out[k.Key] = new(big.Int).Sub(r.Input, r.Output)
		}
	}
	return out
}

// wouldOverdraw applies postings in order to a copy of bal: it reports whether some non-world source
// goes below zero, and whether the question is clear cut (no source starts negative).
func wouldOverdraw(bal map[string]*big.Int, postings []PostingSpec) (overdraw, clear bool) {
	cur := map[string]*big.Int{}
	get := func(k string) *big.Int {
		if v, ok := cur[k]; ok {
			return v
		}
		v := new(big.Int)
		if b, ok := bal[k]; ok {
			v.Set(b)
		}
		cur[k] = v
		return v
	}
	clear = true
	for _, p := range postings {
		amt := bigOf(p.Amount)
		if p.Source != "world" {
			// a bounded source can give what it has above zero: a posting of amount 0 takes nothing and passes
			// whatever the balance (also a negative one, left by a forced request); a positive amount needs a balance
			// that stays at or above zero
			s := get(p.Source + "\x00" + p.Asset)
			s.Sub(s, amt)
			if amt.Sign() > 0 && s.Sign() < 0 {
				overdraw = true
			}
		}
		if p.Destination != "world" {
			d := get(p.Destination + "\x00" + p.Asset)
			d.Add(d, amt)
		}
	}
	return overdraw, clear
}

func samePostings(a []PostingSpec, b ledger.Postings) bool {
	if len(a) != len(b) {
		return false
	}
	for i := range a {
		if a[i].Source != b[i].Source || a[i].Destination != b[i].Destination || a[i].Asset != b[i].Asset || bigOf(a[i].Amount).Cmp(b[i].Amount) != 0 {
			return false
		}
	}
	return true
}

func checkPostingsModel(r *runner, views map[string]*LedgerView, commits []CommitRec) []Violation {
	var vs []Violation
	prop := r.sc.Property
	// balances after each commit, in commit order
	state := map[rowKey]any{}
	snaps := []balSnap{{event: 0, bal: map[string]*big.Int{}}}
	commitOfSig := map[string]int{} // sig -> index in snaps of the state BEFORE its commit
	for _, c := range commits {
		for _, w := range c.Writes {
			if w.Key.Table == "tx" && w.Before == nil && w.After != nil {
				commitOfSig[w.After.(*ledger.Transaction).Metadata[sigKey]] = len(snaps) - 1
			}
			if w.After == nil {
				delete(state, w.Key)
			} else {
				state[w.Key] = w.After
			}
		}
		snaps = append(snaps, balSnap{event: c.Event, bal: balancesOf(state, "l1")})
	}
	v := views["l1"]
	check := func(op *Op, ok bool, code string, tx *TxView, invoke, ret uint64, id string) {
		if op.Kind != KPostings {
			return
		}
		rt := "machine"
		if r.sc.Knobs.Interpreter {
			rt = "interpreter"
		}
		api := "v2"
		if op.API == "v1" {
			api = "v1"
		}
		id = fmt.Sprintf("%s [runtime=%s api=%s]", id, rt, api)
		// v1 rejects some inputs (e.g. world as destination only?) with validation: only judge the two outcomes of the property
		if !ok && code != "INSUFFICIENT_FUND" {
			if code == "VALIDATION" || code == "INTERNAL" || code == "" || code == "NO_POSTINGS" {
				vs = append(vs, Violation{prop, "valid-postings-are-accepted-or-insufficient-funds", fmt.Sprintf("%s: a well formed postings list was answered %s", id, code)})
			}
			return
		}
		if ok {
			if tx == nil {
				return
			}
			if len(tx.Postings) != len(op.Postings) {
				vs = append(vs, Violation{prop, "recorded-exactly-as-submitted", fmt.Sprintf("%s: submitted %d postings, answer has %d", id, len(op.Postings), len(tx.Postings))})
			} else {
				for i := range op.Postings {
					a, b := op.Postings[i], tx.Postings[i]
					if a.Source != b.Source || a.Destination != b.Destination || a.Asset != b.Asset || bigOf(a.Amount).Cmp(bigOf(b.Amount)) != 0 {
						vs = append(vs, Violation{prop, "recorded-exactly-as-submitted", fmt.Sprintf("%s: posting %d submitted %v, answered %v", id, i, a, b)})
					}
				}
			}
			if v != nil {
				if stored := v.Txs[tx.ID]; stored == nil || !samePostings(op.Postings, stored.Postings) {
					vs = append(vs, Violation{prop, "recorded-exactly-as-submitted", fmt.Sprintf("%s: transaction %d is not stored with the submitted postings", id, tx.ID)})
				}
			}
			if op.Force {
				return
			}
			if idx, found := commitOfSig[op.sig()]; found {
				if over, clear := wouldOverdraw(snaps[idx].bal, op.Postings); over && clear {
					vs = append(vs, Violation{prop, "insufficient-funds-iff-a-source-goes-below-zero", fmt.Sprintf("%s was accepted although, on the balances it was committed against, applying its postings in order takes a source below zero: %v", id, op.Postings)})
				}
			}
			return
		}
		// insufficient funds
		if op.Force {
			vs = append(vs, Violation{prop, "force-never-fails-on-funds", fmt.Sprintf("%s: forced postings answered insufficient funds", id)})
			return
		}
		justified := false
		for i, s := range snaps {
			// states the operation may have decided on: from the last commit before its invocation to the last before its return
			next := uint64(1 << 62)
			if i+1 < len(snaps) {
				next = snaps[i+1].event
			}
			if next < invoke || s.event > ret {
				continue
			}
			if over, clear := wouldOverdraw(s.bal, op.Postings); over || !clear {
				justified = true
			}
		}
		if !justified {
			vs = append(vs, Violation{prop, "insufficient-funds-iff-a-source-goes-below-zero", fmt.Sprintf("%s was refused for insufficient funds, but in no committed state of its window does applying its postings in order take a non-world source below zero: %v", id, op.Postings)})
		}
	}
	for _, or := range r.results {
		if or.Phase != "main" || uncertain(or) || len(or.Faults) > 0 {
			continue
		}
		switch or.Op.Kind {
		case KPostings:
			if or.Out.Class == "server_err" || or.Out.Class == "panic" {
				rt := "machine"
				if r.sc.Knobs.Interpreter {
					rt = "interpreter"
				}
				api := "v2"
				if or.Op.API == "v1" {
					api = "v1"
				}
				vs = append(vs, Violation{prop, "valid-postings-are-accepted-or-insufficient-funds", fmt.Sprintf("%s [runtime=%s api=%s] answered %d %s", or.Op.ID, rt, api, or.Out.Status, or.Out.Msg)})
				continue
			}
			check(or.Op, or.Out.Class == "ok", or.Out.Code, or.Out.Tx, or.Out.Invoke, or.Out.Return, or.Op.ID)
		case KBulk:
			if len(or.Out.Bulk) == len(or.Op.Elements) {
				for i := range or.Op.Elements {
					e := or.Out.Bulk[i]
					check(&or.Op.Elements[i], e.OK, e.Code, e.Tx, or.Out.Invoke, or.Out.Return, or.Op.ID+"/"+fmt.Sprint(i))
				}
			}
		}
	}
	_ = strings.Join
	return vs
}
