package sim

// C33: replication delivers every log, in order, despite failures.
//
// One or two ledgers, one or two exporters, up to three pipelines (two ledgers sharing an exporter, one
// ledger exported twice), administrative actions (stop, start, reset, delete a pipeline, update an exporter),
// concurrent writers, exporter failures (whole batch, single item), storage failures and crash/restart of the
// worker. Every oracle is per pipeline = per (exporter, ledger) pair.

import (
	"fmt"
	"sort"

	ledger "github.com/formancehq/ledger/internal"
)

func init() {
	register(Profile{Property: "C33", Name: "replication", Gen: func(r *RNG, seed uint64, tier string) (*Scenario, *ExploreCfg) {
		sc := &Scenario{Property: "C33", Profile: "replication", Knobs: randomKnobs(r), Checks: []string{"replication"}, Params: map[string]string{}, MaxSteps: 6000}
		// ids follow commit order only where log insertion is serialised (DESIGN.md 9/C33)
		sc.Knobs.HashLogs = "SYNC"
		// periods are pairwise "unaligned" so that two timers rarely fire at the same simulated instant (two
		// goroutines woken at the same instant are ordered by the Go runtime, not by the simulator)
		sc.Worker = &WorkerSpec{Enabled: true, PullMs: Pick(r, []int{503, 5003, 60007}), PushRetryMs: Pick(r, []int{47, 499, 4999}), PageSize: 1 + r.Intn(5),
			SyncMs: Pick(r, []int{1009, 60013}), BatchMaxItems: r.Intn(4), BatchFlushMs: Pick(r, []int{11, 53, 997})}
		g := &gen{r: r, sc: sc}
		ledgers := []string{"l1"}
		if r.Chance(0.4) {
			ledgers = append(ledgers, "l2")
		}
		for _, l := range ledgers {
			sc.Setup = append(sc.Setup, Op{ID: g.id("s"), Kind: KCreateLedger, Ledger: l})
			for i, pre := 0, r.Intn(4); i < pre; i++ {
				sc.Setup = append(sc.Setup, Op{ID: g.id("s"), Kind: KPostings, Ledger: l, Postings: []PostingSpec{{"world", "a", "1", "USD"}}})
			}
		}
		batching := map[string]any{"flushInterval": fmt.Sprintf("%dms", sc.Worker.BatchFlushMs)}
		if sc.Worker.BatchMaxItems > 0 {
			batching["maxItems"] = sc.Worker.BatchMaxItems
		}
		var admin []Op
		raw := func(method, path, body, capture string) *Op {
			admin = append(admin, Op{ID: fmt.Sprintf("a0.%d", len(admin)), Kind: KRaw, Ledger: "l1", Capture: capture, Raw: &Request{Method: method, Path: path, Body: body, Header: map[string]string{"Content-Type": "application/json"}}})
			return &admin[len(admin)-1]
		}
		exporterBody := func(name string) string {
			return mustJSON(map[string]any{"driver": "rec", "config": map[string]any{"name": name, "batching": batching}})
		}
		// the first exporter and the first pipeline are what the run is about: the minimiser keeps them
		raw("POST", "/v2/_/exporters", exporterBody("x1"), "exporter").Keep = true
		raw("POST", "/v2/l1/pipelines", `{"exporterID":"$exporter"}`, "pipeline").Keep = true
		type pipe struct {
			v       string // variable holding the pipeline id
			stopped bool
			deleted bool
		}
		pipes := []*pipe{{v: "pipeline"}}
		twoExporters := r.Chance(0.3)
		if twoExporters {
			raw("POST", "/v2/_/exporters", exporterBody("x2"), "xB")
		}
		if len(ledgers) > 1 && r.Chance(0.8) {
			// a second ledger, exported through the same exporter or through the second one
			x := "$exporter"
			if twoExporters && r.Bool() {
				x = "$xB"
			}
			raw("POST", "/v2/l2/pipelines", `{"exporterID":"`+x+`"}`, "pB")
			pipes = append(pipes, &pipe{v: "pB"})
		}
		if twoExporters && r.Chance(0.6) {
			// the first ledger exported twice
			raw("POST", "/v2/l1/pipelines", `{"exporterID":"$xB"}`, "pC")
			pipes = append(pipes, &pipe{v: "pC"})
		}
		ledgerOf := map[string]string{"pipeline": "l1", "pB": "l2", "pC": "l1"}
		for i, n := 0, r.Intn(6); i < n; i++ {
			p := Pick(r, pipes)
			if p.deleted {
				continue
			}
			base := "/v2/" + ledgerOf[p.v] + "/pipelines/$" + p.v
			switch x := r.Intn(9); {
			case x < 2 && !p.stopped:
				raw("POST", base+"/stop", "", "")
				p.stopped = true
			case x < 3 && p.stopped:
				raw("POST", base+"/start", "", "")
				p.stopped = false
			case x < 5:
				raw("POST", base+"/reset", "", "reset")
				p.stopped = false // a reset enables the pipeline
			case x < 6 && p.v != "pipeline":
				raw("DELETE", base, "", "")
				p.deleted = true
			case x < 7:
				// reconfigure the first exporter while pipelines use it
				raw("PUT", "/v2/_/exporters/$exporter", exporterBody("x1"), "")
			default:
				// let some time pass between administrative actions
				admin = append(admin, Op{ID: fmt.Sprintf("a0.%d", len(admin)), Kind: KSleep, SleepMs: Pick(r, []int{10, 200, 3000})})
			}
		}
		for _, p := range pipes {
			if p.stopped && !p.deleted {
				raw("POST", "/v2/"+ledgerOf[p.v]+"/pipelines/$"+p.v+"/start", "", "")
			}
		}
		if r.Chance(0.15) {
			// a targeted family: the first administrator stops the pipeline after it has exported something and starts
			// it again, while a second one resets it at about the same time (a reset acknowledged while a start is
			// under way must still lead to every log being exported again)
			hdr := map[string]string{"Content-Type": "application/json"}
			admin = admin[:2]
			admin = append(admin, Op{ID: "a0.2", Kind: KSleep, SleepMs: 3000},
				Op{ID: "a0.3", Kind: KRaw, Ledger: "l1", Raw: &Request{Method: "POST", Path: "/v2/l1/pipelines/$pipeline/stop", Header: hdr}},
				Op{ID: "a0.4", Kind: KSleep, SleepMs: Pick(r, []int{1, 5, 20})},
				Op{ID: "a0.5", Kind: KRaw, Ledger: "l1", Raw: &Request{Method: "POST", Path: "/v2/l1/pipelines/$pipeline/start", Header: hdr}})
			sc.Clients = [][]Op{admin, {
				{ID: "a1.0", Kind: KSleep, SleepMs: 3000 + Pick(r, []int{1, 4, 8, 15, 30})},
				{ID: "a1.1", Kind: KRaw, Ledger: "l1", Capture: "reset", Raw: &Request{Method: "POST", Path: "/v2/l1/pipelines/$pipeline/reset", Header: hdr}},
				{ID: "a1.2", Kind: KSleep, SleepMs: 8000},
				{ID: "a1.3", Kind: KRaw, Ledger: "l1", Raw: &Request{Method: "POST", Path: "/v2/l1/pipelines/$pipeline/start", Header: hdr}},
			}}
		} else {
			sc.Clients = [][]Op{admin}
		}
		if len(sc.Clients) == 1 && r.Chance(0.35) {
			// a second administrator working on the first pipeline at the same time: stop / start / reset requests
			// that race the first one's (and each other's answers may be refusals: already started, not found...)
			second := []Op{{ID: "a1.0", Kind: KSleep, SleepMs: Pick(r, []int{50, 400, 3500})}}
			for i, n := 0, 1+r.Intn(4); i < n; i++ {
				base := "/v2/l1/pipelines/$pipeline"
				id := fmt.Sprintf("a1.%d", len(second))
				switch r.Intn(4) {
				case 0:
					second = append(second, Op{ID: id, Kind: KRaw, Ledger: "l1", Raw: &Request{Method: "POST", Path: base + "/stop", Header: map[string]string{"Content-Type": "application/json"}}})
				case 1:
					second = append(second, Op{ID: id, Kind: KRaw, Ledger: "l1", Raw: &Request{Method: "POST", Path: base + "/start", Header: map[string]string{"Content-Type": "application/json"}}})
				case 2:
					second = append(second, Op{ID: id, Kind: KRaw, Ledger: "l1", Capture: "reset", Raw: &Request{Method: "POST", Path: base + "/reset", Header: map[string]string{"Content-Type": "application/json"}}})
				default:
					second = append(second, Op{ID: id, Kind: KSleep, SleepMs: Pick(r, []int{5, 100, 2000})})
				}
			}
			// leave the pipeline enabled at the end, whatever the two did
			second = append(second, Op{ID: fmt.Sprintf("a1.%d", len(second)), Kind: KSleep, SleepMs: 8000},
				Op{ID: fmt.Sprintf("a1.%d", len(second)+1), Kind: KRaw, Ledger: "l1", Raw: &Request{Method: "POST", Path: "/v2/l1/pipelines/$pipeline/start", Header: map[string]string{"Content-Type": "application/json"}}})
			sc.Clients = append(sc.Clients, second)
		}
		nw := 1 + r.Intn(2)
		for c := 1; c <= nw; c++ {
			var ops []Op
			for i := 0; i < 1+r.Intn(4); i++ {
				ops = append(ops, Op{ID: fmt.Sprintf("c%d.%d", c, i), Kind: KPostings, Ledger: Pick(r, ledgers), Postings: []PostingSpec{{"world", fmt.Sprintf("w:%d", c), "1", "USD"}}})
				if r.Chance(0.3) {
					ops = append(ops, Op{ID: fmt.Sprintf("c%d.%ds", c, i), Kind: KSleep, SleepMs: Pick(r, []int{20, 700, 6000})})
				}
			}
			sc.Clients = append(sc.Clients, ops)
		}
		if r.Chance(0.4) {
			// a ledger that joins the bucket while the pipelines run (their stores were opened before it existed,
			// possibly while their ledger was alone in the bucket), and is written to: none of its logs may
			// reach an exporter, no pipeline exports it
			late := []Op{{ID: "cl.0", Kind: KSleep, SleepMs: Pick(r, []int{1, 30, 800})}, {ID: "cl.1", Kind: KCreateLedger, Ledger: "l9"}}
			for i := 0; i < 1+r.Intn(3); i++ {
				late = append(late, Op{ID: fmt.Sprintf("cl.%d", i+2), Kind: KPostings, Ledger: "l9", Postings: []PostingSpec{{"world", "late", "7", "EUR"}}})
			}
			sc.Clients = append(sc.Clients, late)
		}
		ex := &ExploreCfg{Seed: seed, PreemptP: 0.3, DelayP: 0.05, FaultP: 0, MaxFaults: 0}
		if r.Chance(0.65) {
			// swarm: each run enables its own subset of fault kinds. A crash is admitted at almost every
			// yield, the exporter and storage faults only at the worker's own yields: runs without crash get a
			// higher rate so that those faults fire at all.
			var ks []FaultKind
			for _, k := range []FaultKind{FExporterErr, FExporterItemErr, FStorageErr, FCrash} {
				if r.Chance(0.45) {
					ks = append(ks, k)
				}
			}
			if len(ks) == 0 {
				ks = []FaultKind{Pick(r, []FaultKind{FExporterErr, FExporterItemErr, FStorageErr})}
			}
			ex.Kinds = ks
			ex.FaultP, ex.MaxFaults = 0.25, 1+r.Intn(4)
			for _, k := range ks {
				if k == FCrash {
					ex.FaultP = 0.04
				}
			}
		}
		return sc, ex
	}})
}

// logIDs returns the ids of the committed logs of a ledger, ascending.
func (r *runner) logIDs(ledgerName string) []uint64 {
	var ids []uint64
	for k, v := range r.state {
		if k.Table == "log" && k.Ledger == ledgerName {
			ids = append(ids, v.(*LogRow).ID)
		}
	}
	sort.Slice(ids, func(i, j int) bool { return ids[i] < ids[j] })
	return ids
}

// checkOwn (C33, and C19's pipeline profile): whatever a pipeline of ledger L hands to the exporter -
// acknowledged or not - is a committed log of L: same id, same content. A pipeline keeps the store it opened
// when it started; that store must keep reading its own ledger when the bucket later gets siblings.
func (ww *workerWorld) checkOwn(r *runner) []Violation {
	var vs []Violation
	prop := r.sc.Property
	ww.mu.Lock()
	accepts := append([]AcceptRec(nil), ww.accepts[ww.lastOwnSeen:]...)
	ww.lastOwnSeen = len(ww.accepts)
	ww.mu.Unlock()
	for _, a := range accepts {
		// whatever a pipeline of ledger L hands to the exporter - acknowledged or not - is a committed log of L:
		// same id, same content (a pipeline's store keeps reading its own ledger when the bucket gets siblings)
		for pos, id := range a.IDs {
			if pos >= len(a.Prints) {
				break
			}
			row, _ := r.state[rowKey{"log", a.Ledger, idKey(id)}].(*LogRow)
			if row == nil {
				vs = append(vs, Violation{prop, "delivered-logs-are-the-ledgers-own", fmt.Sprintf("exporter %s received log %d for ledger %s, which has no committed log with that id", a.Exporter, id, a.Ledger)})
				break
			}
			own, err := (&SimStore{}).logFromRow(row)
			if err != nil {
				continue
			}
			if logPrint(own) != a.Prints[pos] {
				vs = append(vs, Violation{prop, "delivered-logs-are-the-ledgers-own", fmt.Sprintf("exporter %s received for ledger %s a log %d that is not that ledger's log %d: got %.200s, the ledger has %.200s", a.Exporter, a.Ledger, id, id, a.Prints[pos], logPrint(own))})
				break
			}
		}
	}
	return vs
}

// checkStep is called after every scheduler step: safety clauses over the new Accept calls and the new
// commits of pipeline rows.
func (ww *workerWorld) checkStep(r *runner, recs []CommitRec) []Violation {
	vs := ww.checkOwn(r)
	prop := r.sc.Property
	ww.mu.Lock()
	accepts := append([]AcceptRec(nil), ww.accepts...)
	ww.mu.Unlock()
	for i := ww.lastSeen; i < len(accepts); i++ {
		a := accepts[i]
		if !a.Acked || len(a.IDs) == 0 {
			continue
		}
		// Delivery is at least once: a stopped pipeline may leave its page in the exporter's batcher, and a
		// restarted or reset pipeline sends the same logs again, so one call can carry duplicates
		// ([1 2 3 1 2 3]). What must hold is that the FIRST delivery of each log follows the first
		// delivery of every committed log with a smaller id: in increasing order, without gaps. A log the
		// exporter refused individually in this very call counts as sent in its place (the system sent the
		// page in order; which items an exporter accepts out of one call is the exporter's business), but it
		// is not delivered: if it is never sent again, the next call trips this clause.
		seen := map[uint64]bool{}
		for _, b := range accepts[:i] {
			if b.Ledger == a.Ledger && b.Exporter == a.Exporter {
				for _, id := range b.acked() {
					seen[id] = true
				}
			}
		}
		ids := r.logIDs(a.Ledger)
		sentHere := map[uint64]bool{}
		for pos, id := range a.IDs {
			sentHere[id] = true
			if seen[id] || a.Refused[pos] {
				continue
			}
			for _, k := range ids {
				if k < id && !seen[k] && !sentHere[k] {
					// finding F12: the batcher cuts pages into driver calls of its own (maxItems, flush timer,
					// other pipelines sharing the exporter); when the call carrying log k fails, the calls
					// carrying the rest of the page still go through before k is retried
					tag := ""
					for _, b := range accepts[:i] {
						if b.Ledger != a.Ledger || b.Exporter != a.Exporter {
							continue
						}
						for pos, bid := range b.IDs {
							if bid == k && (!b.Acked || b.Refused[pos]) {
								tag = " [the call that carried that log failed: the batcher's calls do not follow the pipeline's pages]"
							}
						}
					}
					vs = append(vs, Violation{prop, "no-gap-in-delivered-logs", fmt.Sprintf("exporter %s acknowledged %v: log %d of ledger %s is delivered for the first time although log %d was never acknowledged%s", a.Exporter, a.IDs, id, a.Ledger, k, tag)})
					break
				}
			}
			seen[id] = true
		}
	}
	ww.lastSeen = len(accepts)
	snap := r.w.db.CommittedSnapshot()
	for _, rec := range recs {
		for _, w := range rec.Writes {
			if w.Key.Table != "pipeline" || w.After == nil {
				continue
			}
			p := w.After.(*ledger.Pipeline)
			if p.LastLogID == nil {
				continue
			}
			if old, ok := w.Before.(*ledger.Pipeline); ok && old != nil && old.LastLogID != nil && *old.LastLogID == *p.LastLogID {
				continue
			}
			var max uint64
			// the reset that precedes this commit (several commits are examined per step: a state write that
			// landed just before the reset's own update must not be judged against the reset)
			since := ww.lastResetBefore(rec.Event, p.ID)
			x := exporterName(snap, p.ExporterID)
			ackedSet := map[uint64]bool{}
			for _, a := range accepts {
				if a.Ledger == p.Ledger && a.Exporter == x && a.Seq >= since {
					for _, id := range a.acked() {
						ackedSet[id] = true
						if id > max {
							max = id
						}
					}
				}
			}
			what := fmt.Sprintf("exporter %s acknowledged", x)
			if since > 0 {
				what += " since the pipeline was reset"
			}
			if *p.LastLogID > max {
				if since > 0 {
					ww.staleAfterReset = true
				}
				vs = append(vs, Violation{prop, "persisted-state-never-ahead-of-acknowledged", fmt.Sprintf("commit %d: pipeline %s (ledger %s) persists last log id %d, but the highest id %s is %d", rec.Seq, p.ID[:8], p.Ledger, *p.LastLogID, what, max)})
			} else {
				// everything up to the persisted id must have been acknowledged: a restart resumes after it
				for _, id := range r.logIDs(p.Ledger) {
					if id <= *p.LastLogID && !ackedSet[id] {
						pre := ""
						if ww.staleAfterReset {
							pre = "after a stale last log id was persisted across a reset: "
						}
						vs = append(vs, Violation{prop, "persisted-state-covers-only-acknowledged-logs", fmt.Sprintf("%scommit %d: pipeline %s (ledger %s) persists last log id %d although log %d was not among the logs %s", pre, rec.Seq, p.ID[:8], p.Ledger, *p.LastLogID, id, what)})
						break
					}
				}
			}
		}
	}
	return vs
}

func checkReplicationFinal(r *runner) []Violation {
	var vs []Violation
	if r.worker == nil || r.w.harness != nil {
		return nil
	}
	// the run only means something if the first exporter and the first pipeline could be created
	for _, or := range r.results {
		if (or.Op.ID == "a0.0" || or.Op.ID == "a0.1") && or.Out.Class != "ok" {
			return nil
		}
	}
	if r.byID["a0.0"] == nil || r.byID["a0.1"] == nil {
		return nil
	}
	if missing := r.worker.missing(r); len(missing) > 0 {
		if r.worker.staleAfterReset {
			vs = append(vs, Violation{r.sc.Property, "every-log-eventually-delivered", fmt.Sprintf("after a stale last log id was persisted across a reset, the restarted pipeline resumed from it and never re-exported %v", missing)})
			return vs
		}
		what := "every log of its ledger"
		if r.worker.lastResetSeq("") > 0 {
			what = "every log of its ledger (again after a reset)"
		}
		vs = append(vs, Violation{r.sc.Property, "every-log-eventually-delivered", fmt.Sprintf("faults have stopped and %v of simulated time passed, yet an enabled pipeline did not deliver %s: missing (ledger>exporter:log) %v; parked=%v", r.w.simTime, what, missing, r.w.ParkedKeys())})
	}
	return vs
}
