package sim

// C33: replication delivers every log, in order, despite failures.

import (
	"encoding/json"
	"fmt"
	"strings"

	ledger "github.com/formancehq/ledger/internal"
)

func init() {
	register(Profile{Property: "C33", Name: "replication", Gen: func(r *RNG, seed uint64, tier string) (*Scenario, *ExploreCfg) {
		sc := &Scenario{Property: "C33", Profile: "replication", Knobs: randomKnobs(r), Checks: []string{"replication"}, Params: map[string]string{}, MaxSteps: 6000}
		// ids follow commit order only where log insertion is serialised (DESIGN.md 9/C33)
		sc.Knobs.HashLogs = "SYNC"
		// periods are pairwise "unaligned" so that two timers rarely fire at the same simulated instant (two
		// goroutines woken at the same instant are ordered by the Go runtime, not by the simulator)
		sc.Worker = &WorkerSpec{Enabled: true, PullMs: Pick(r, []int{503, 5003, 60007}), PushRetryMs: Pick(r, []int{47, 499, 4999}), PageSize: 1 + r.Intn(5),
			SyncMs: Pick(r, []int{1009, 60013}), BatchMaxItems: r.Intn(4), BatchFlushMs: Pick(r, []int{11, 53, 997})}
		g := &gen{r: r, sc: sc}
		sc.Setup = []Op{{ID: g.id("s"), Kind: KCreateLedger, Ledger: "l1"}}
		pre := r.Intn(4)
		for i := 0; i < pre; i++ {
			sc.Setup = append(sc.Setup, Op{ID: g.id("s"), Kind: KPostings, Ledger: "l1", Postings: []PostingSpec{{"world", "a", "1", "USD"}}})
		}
		batching := map[string]any{"flushInterval": fmt.Sprintf("%dms", sc.Worker.BatchFlushMs)}
		if sc.Worker.BatchMaxItems > 0 {
			batching["maxItems"] = sc.Worker.BatchMaxItems
		}
		raw := func(id, method, path, body, capture string) Op {
			return Op{ID: id, Kind: KRaw, Ledger: "l1", Capture: capture, Raw: &Request{Method: method, Path: path, Body: body, Header: map[string]string{"Content-Type": "application/json"}}}
		}
		admin := []Op{
			raw("a0.0", "POST", "/v2/_/exporters", mustJSON(map[string]any{"driver": "rec", "config": map[string]any{"name": "x1", "batching": batching}}), "exporter"),
			raw("a0.1", "POST", "/v2/l1/pipelines", `{"exporterID":"$exporter"}`, "pipeline"),
		}
		admin[0].Keep, admin[1].Keep = true, true
		stopped := false
		n := r.Intn(5)
		for i := 0; i < n; i++ {
			id := fmt.Sprintf("a0.%d", len(admin))
			switch x := r.Intn(6); {
			case x < 2 && !stopped:
				admin = append(admin, raw(id, "POST", "/v2/l1/pipelines/$pipeline/stop", "", ""))
				stopped = true
			case x < 3 && stopped:
				admin = append(admin, raw(id, "POST", "/v2/l1/pipelines/$pipeline/start", "", ""))
				stopped = false
			case x < 5:
				admin = append(admin, raw(id, "POST", "/v2/l1/pipelines/$pipeline/reset", "", "reset"))
			default:
				// let some time pass between administrative actions
				admin = append(admin, Op{ID: id, Kind: KSleep, SleepMs: Pick(r, []int{10, 200, 3000})})
			}
		}
		if stopped {
			admin = append(admin, raw(fmt.Sprintf("a0.%d", len(admin)), "POST", "/v2/l1/pipelines/$pipeline/start", "", ""))
		}
		sc.Clients = [][]Op{admin}
		nw := 1 + r.Intn(2)
		for c := 1; c <= nw; c++ {
			var ops []Op
			for i := 0; i < 1+r.Intn(4); i++ {
				ops = append(ops, Op{ID: fmt.Sprintf("c%d.%d", c, i), Kind: KPostings, Ledger: "l1", Postings: []PostingSpec{{"world", fmt.Sprintf("w:%d", c), "1", "USD"}}})
				if r.Chance(0.3) {
					ops = append(ops, Op{ID: fmt.Sprintf("c%d.%ds", c, i), Kind: KSleep, SleepMs: Pick(r, []int{20, 700, 6000})})
				}
			}
			sc.Clients = append(sc.Clients, ops)
		}
		ex := &ExploreCfg{Seed: seed, PreemptP: 0.3, DelayP: 0.05, FaultP: 0, MaxFaults: 0}
		if r.Chance(0.65) {
			// swarm: each run enables its own subset of fault kinds. A crash is admitted at almost every
			// yield, the exporter and storage faults only at the worker's own yields: runs without crash get a
			// higher rate so that those faults fire at all.
			var ks []FaultKind
			for _, k := range []FaultKind{FExporterErr, FExporterItemErr, FStorageErr, FCrash} {
				if r.Chance(0.45) {
					ks = append(ks, k)
				}
			}
			if len(ks) == 0 {
				ks = []FaultKind{Pick(r, []FaultKind{FExporterErr, FExporterItemErr, FStorageErr})}
			}
			ex.Kinds = ks
			ex.FaultP, ex.MaxFaults = 0.25, 1+r.Intn(4)
			for _, k := range ks {
				if k == FCrash {
					ex.FaultP = 0.04
				}
			}
		}
		return sc, ex
	}})
}

// replStep is called after every scheduler step: safety clauses over the new Accept calls and the new
// commits of pipeline rows.
func (ww *workerWorld) checkStep(r *runner, recs []CommitRec) []Violation {
	var vs []Violation
	prop := r.sc.Property
	ww.mu.Lock()
	accepts := append([]AcceptRec(nil), ww.accepts...)
	ww.mu.Unlock()
	for i := ww.lastSeen; i < len(accepts); i++ {
		a := accepts[i]
		for j := 1; j < len(a.IDs); j++ {
			if a.IDs[j] <= a.IDs[j-1] {
				vs = append(vs, Violation{prop, "logs-delivered-in-increasing-id-order", fmt.Sprintf("exporter %s received ids %v in one call", a.Exporter, a.IDs)})
			}
		}
		if a.Acked && len(a.IDs) > 0 {
			// no gaps: every committed log of the ledger below the first id of an acknowledged batch was
			// acknowledged before
			before := map[uint64]bool{}
			for _, b := range accepts[:i] {
				if b.Acked && b.Ledger == a.Ledger {
					for _, id := range b.IDs {
						before[id] = true
					}
				}
			}
			for k, v := range r.state {
				if k.Table == "log" && k.Ledger == a.Ledger {
					id := v.(*LogRow).ID
					if id < a.IDs[0] && !before[id] {
						tag := ""
						if ww.spec.BatchMaxItems > 0 && ww.spec.BatchMaxItems < ww.spec.PageSize {
							tag = fmt.Sprintf(" [page of %d split into batches of %d]", ww.spec.PageSize, ww.spec.BatchMaxItems)
						}
						vs = append(vs, Violation{prop, "no-gap-in-delivered-logs", fmt.Sprintf("exporter %s acknowledged %v although log %d of ledger %s was never acknowledged%s", a.Exporter, a.IDs, id, a.Ledger, tag)})
						break
					}
				}
			}
			for j := 1; j < len(a.IDs); j++ {
				for k, v := range r.state {
					if k.Table == "log" && k.Ledger == a.Ledger {
						id := v.(*LogRow).ID
						if id > a.IDs[j-1] && id < a.IDs[j] {
							vs = append(vs, Violation{prop, "no-gap-in-delivered-logs", fmt.Sprintf("exporter %s acknowledged %v, skipping committed log %d", a.Exporter, a.IDs, id)})
						}
					}
				}
			}
		}
	}
	ww.lastSeen = len(accepts)
	for _, rec := range recs {
		for _, w := range rec.Writes {
			if w.Key.Table != "pipeline" || w.After == nil {
				continue
			}
			p := w.After.(*ledger.Pipeline)
			if p.LastLogID == nil {
				continue
			}
			if old, ok := w.Before.(*ledger.Pipeline); ok && old != nil && old.LastLogID != nil && *old.LastLogID == *p.LastLogID {
				continue
			}
			var max uint64
			// the reset that precedes this commit (several commits are examined per step: a state write that
			// landed just before the reset's own update must not be judged against the reset)
			since := ww.lastResetBefore(rec.Event)
			ackedSet := map[uint64]bool{}
			for _, a := range accepts {
				if a.Acked && a.Ledger == p.Ledger && a.Seq >= since {
					for _, id := range a.IDs {
						ackedSet[id] = true
						if id > max {
							max = id
						}
					}
				}
			}
			what := "the exporter acknowledged"
			if since > 0 {
				what = "the exporter acknowledged since the pipeline was reset"
			}
			if *p.LastLogID > max {
				if since > 0 {
					ww.staleAfterReset = true
				}
				vs = append(vs, Violation{prop, "persisted-state-never-ahead-of-acknowledged", fmt.Sprintf("commit %d: pipeline %s persists last log id %d, but the highest id %s is %d", rec.Seq, p.ID[:8], *p.LastLogID, what, max)})
			} else {
				// everything up to the persisted id must have been acknowledged: a restart resumes after it
				for k, v := range r.state {
					if k.Table == "log" && k.Ledger == p.Ledger {
						if id := v.(*LogRow).ID; id <= *p.LastLogID && !ackedSet[id] {
							pre := ""
							if ww.staleAfterReset {
								pre = "after a stale last log id was persisted across a reset: "
							}
							vs = append(vs, Violation{prop, "persisted-state-covers-only-acknowledged-logs", fmt.Sprintf("%scommit %d: pipeline %s persists last log id %d although log %d was not among the logs %s", pre, rec.Seq, p.ID[:8], *p.LastLogID, id, what)})
							break
						}
					}
				}
			}
		}
	}
	return vs
}

func checkReplicationFinal(r *runner) []Violation {
	var vs []Violation
	if r.worker == nil || r.w.harness != nil {
		return nil
	}
	// the run only means something if the exporter and the pipeline could be created
	for _, or := range r.results {
		if (or.Op.ID == "a0.0" || or.Op.ID == "a0.1") && or.Out.Class != "ok" {
			return nil
		}
	}
	if r.byID["a0.0"] == nil || r.byID["a0.1"] == nil {
		return nil
	}
	if missing := r.worker.missing(r); len(missing) > 0 {
		if r.worker.staleAfterReset {
			vs = append(vs, Violation{r.sc.Property, "every-log-eventually-delivered", fmt.Sprintf("after a stale last log id was persisted across a reset, the restarted pipeline resumed from it and never re-exported %v", missing)})
			return vs
		}
		what := "every log of the ledger"
		if r.worker.lastResetSeq() > 0 {
			what = "every log of the ledger again after the reset"
		}
		vs = append(vs, Violation{r.sc.Property, "every-log-eventually-delivered", fmt.Sprintf("faults have stopped and %v of simulated time passed, yet the exporter did not receive %s: missing %v; parked=%v", r.w.simTime, what, missing, r.w.ParkedKeys())})
	}
	return vs
}

var _ = json.Marshal
var _ = strings.Join
