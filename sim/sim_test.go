package sim

import (
	"encoding/json"
	"flag"
	"fmt"
	"os"
	"path/filepath"
	"regexp"
	"sort"
	"strings"
	"sync"
	"testing"
	"time"
)

var (
	fProperty    = flag.String("sim.property", "", "property id")
	fTier        = flag.String("sim.tier", "quick", "quick|thorough")
	fSeed        = flag.Uint64("sim.seed", 1, "VERIF_SEED")
	fFrom        = flag.Int("sim.from", 0, "first run index")
	fStride      = flag.Int("sim.stride", 1, "run index stride (number of worker processes)")
	fRuns        = flag.Int("sim.runs", 100, "max runs for this process")
	fBudget      = flag.Duration("sim.budget", 30*time.Second, "wall clock budget for this process")
	fOut         = flag.String("sim.out", "", "result file")
	fReplay      = flag.String("sim.replay", "", "replay file")
	fReplays     = flag.String("sim.replaydir", "/verif/replays", "where replay files are written")
	fKnown       = flag.String("sim.known", "/verif/known_findings.json", "known findings file")
	fVerbose     = flag.Bool("sim.v", false, "print event logs")
	fLogs        = flag.String("sim.logdir", "", "write per-run event logs here (determinism self-test)")
	fCheckReplay = flag.Bool("sim.checkreplay", false, "replay every recorded plan and compare event logs")
)

type ReplayFile struct {
	Version  int       `json:"version"`
	Property string    `json:"property"`
	Profile  string    `json:"profile"`
	Seed     uint64    `json:"seed"`
	Run      int       `json:"run"`
	RunSeed  uint64    `json:"run_seed"`
	Scenario *Scenario `json:"scenario"`
	Plan     Plan      `json:"plan"`
	Clause   string    `json:"clause"`
	Detail   string    `json:"detail"`
	Digest   string    `json:"digest"`
}

type KnownFinding struct {
	Property string `json:"property"`
	Clause   string `json:"clause"`
	Match    string `json:"match"` // regexp on the violation detail
	What     string `json:"what"`
	Status   string `json:"status"` // known | fixed
}

type ProcResult struct {
	Property   string            `json:"property"`
	Tier       string            `json:"tier"`
	Seed       uint64            `json:"seed"`
	Runs       int               `json:"runs"`
	Steps      int               `json:"steps"`
	SimTimeMs  int64             `json:"sim_time_ms"`
	Commits    int               `json:"commits"`
	Crashes    int               `json:"crashes"`
	Fired      map[string]int    `json:"fired"`
	Probes     map[string]int    `json:"probes"`
	Traces     []string          `json:"traces"`            // distinct interleaving digests
	Nontrivial []string          `json:"nontrivial_traces"` // those with lock overlap / fault / preemption
	Profiles   map[string]int    `json:"profiles"`
	Violations []ReportedV       `json:"violations"`
	Known      []string          `json:"known"`
	Harness    []string          `json:"harness"`
	Samples    []json.RawMessage `json:"samples"`
	WallS      float64           `json:"wall_s"`
	Leaked     int               `json:"leaked_runs"`
	Unknown    int               `json:"porcupine_unknown"`
	OutcomeMix map[string]int    `json:"outcome_mix"`
	Sites      map[string]int    `json:"sites"`
	SiteFaults map[string]int    `json:"site_faults"`
	// real-SQL mode accounting: runs in which the storage layer's data methods ran for real over the SQL
	// interpreter, and how many of those were inconclusive because a statement was outside its grammar
	RealSQLRuns       int        `json:"real_sql_runs"`
	UnsupportedRuns   int        `json:"unsupported_sql_runs"`
	UnsupportedSample string     `json:"unsupported_sql_sample,omitempty"`
	Enum              *EnumStats `json:"enumeration,omitempty"`
}

type ReportedV struct {
	Violation
	Replay string `json:"replay"`
	Run    int    `json:"run"`
}

var knownCache struct {
	once sync.Once
	ks   []KnownFinding
}

func knownFindings() []KnownFinding {
	knownCache.once.Do(func() { knownCache.ks = loadKnown() })
	return knownCache.ks
}

func loadKnown() []KnownFinding {
	var ks []KnownFinding
	b, err := os.ReadFile(*fKnown)
	if err != nil {
		return nil
	}
	var f struct {
		Findings []KnownFinding `json:"findings"`
	}
	if json.Unmarshal(b, &f) == nil {
		ks = f.Findings
	}
	return ks
}

func matchKnown(ks []KnownFinding, v Violation) *KnownFinding {
	for i := range ks {
		k := &ks[i]
		if k.Status == "fixed" || k.Property != v.Property || k.Clause != v.Clause {
			continue
		}
		if k.Match == "" {
			return k
		}
		if re, err := regexp.Compile(k.Match); err == nil && re.MatchString(v.Detail) {
			return k
		}
	}
	return nil
}

// hasClause: a violation of that clause that is not a listed known finding (so that minimisation and replay of
// a new violation never settle on a known finding that shares its clause).
// tagOf: the trailing "[...]" of a violation's detail (the shape the oracle attributes it to), if any: one
// replay file is written per clause and shape.
func tagOf(detail string) string {
	if i := strings.LastIndex(detail, "["); i >= 0 && strings.HasSuffix(detail, "]") {
		return detail[i:]
	}
	return ""
}

func hasClause(vs []Violation, prop, clause string) *Violation {
	for i := range vs {
		if vs[i].Property == prop && vs[i].Clause == clause && matchKnown(knownFindings(), vs[i]) == nil {
			return &vs[i]
		}
	}
	return nil
}

func cloneScenario(sc *Scenario) *Scenario {
	b, _ := json.Marshal(sc)
	out := &Scenario{}
	_ = json.Unmarshal(b, out)
	return out
}

// minimise shrinks scenario and plan while the same clause of the same property still fails.
func minimise(t *testing.T, sc *Scenario, plan Plan, prop, clause string) (*Scenario, Plan, *RunResult) {
	fails := func(s *Scenario, p Plan) *RunResult {
		r := RunScenario(t, s, &p, nil)
		if r.Harness == nil && hasClause(r.Violations, prop, clause) != nil {
			return r
		}
		if os.Getenv("VERIF_DEBUG") != "" {
			fmt.Fprintf(os.Stderr, "minimise: candidate does not fail: harness=%v violations=%v\n", r.Harness, r.Violations)
			if _, err := os.Stat(os.Getenv("VERIF_DEBUG")); err != nil {
				_ = os.WriteFile(os.Getenv("VERIF_DEBUG"), []byte(strings.Join(r.Log, "\n")+"\n"), 0o644)
			}
		}
		return nil
	}
	best := fails(sc, plan)
	if best == nil {
		return sc, plan, nil
	}
	deadline := time.Now().Add(60 * time.Second)
	for changed := true; changed && time.Now().Before(deadline); {
		changed = false
		for i := 0; i < len(plan.Faults); i++ {
			p2 := Plan{Deviations: plan.Deviations, Faults: append(append([]FaultAt{}, plan.Faults[:i]...), plan.Faults[i+1:]...)}
			if r := fails(sc, p2); r != nil {
				plan, best, changed = p2, r, true
				i--
			}
		}
		for i := 0; i < len(plan.Deviations); i++ {
			p2 := Plan{Faults: plan.Faults, Deviations: append(append([]Deviation{}, plan.Deviations[:i]...), plan.Deviations[i+1:]...)}
			if r := fails(sc, p2); r != nil {
				plan, best, changed = p2, r, true
				i--
			}
		}
		// whole clients, then single ops
		for ci := 0; ci < len(sc.Clients); ci++ {
			if len(sc.Clients[ci]) == 0 || sc.Clients[ci][0].Keep {
				continue
			}
			s2 := cloneScenario(sc)
			s2.Clients[ci] = nil
			if r := fails(s2, plan); r != nil {
				sc, best, changed = s2, r, true
			}
		}
		for ci := 0; ci < len(sc.Clients); ci++ {
			for oi := 0; oi < len(sc.Clients[ci]); oi++ {
				if sc.Clients[ci][oi].Keep {
					continue
				}
				s2 := cloneScenario(sc)
				s2.Clients[ci] = append(s2.Clients[ci][:oi], s2.Clients[ci][oi+1:]...)
				if r := fails(s2, plan); r != nil {
					sc, best, changed = s2, r, true
					oi--
				}
			}
		}
		for oi := 0; oi < len(sc.Post); oi++ {
			s2 := cloneScenario(sc)
			s2.Post = append(s2.Post[:oi], s2.Post[oi+1:]...)
			if r := fails(s2, plan); r != nil {
				sc, best, changed = s2, r, true
				oi--
			}
		}
		// bulk elements
		for ci := 0; ci < len(sc.Clients); ci++ {
			for oi := 0; oi < len(sc.Clients[ci]); oi++ {
				for ei := 0; ei < len(sc.Clients[ci][oi].Elements); ei++ {
					if len(sc.Clients[ci][oi].Elements) <= 1 {
						break
					}
					s2 := cloneScenario(sc)
					els := s2.Clients[ci][oi].Elements
					s2.Clients[ci][oi].Elements = append(els[:ei], els[ei+1:]...)
					if r := fails(s2, plan); r != nil {
						sc, best, changed = s2, r, true
						ei--
					}
				}
			}
		}
	}
	return sc, plan, best
}

// profileFor spreads the profiles of a property over the run indexes independently of the worker stride.
func profileFor(ps []Profile, run int) Profile {
	return ps[int(RunSeed(0x70726f66, uint64(run))%uint64(len(ps)))]
}

// genScenario generates run `rs` of a profile. Whether the storage layer's data methods run for real over
// the SQL interpreter or are served by the contract model is decided per run from the run seed alone (2 in 3
// real), so that it needs no draw from the scenario stream; VERIF_SQL=real|model forces one mode.
func genScenario(p Profile, rs uint64, tier string) (*Scenario, *ExploreCfg) {
	sc, ex := p.Gen(NewRNG(rs).Derive(0), rs, tier)
	sc.Knobs.RealSQL = RunSeed(0x73716c, rs)%3 != 0
	switch os.Getenv("VERIF_SQL") {
	case "real":
		sc.Knobs.RealSQL = true
	case "model":
		sc.Knobs.RealSQL = false
	}
	if sc.Params["force_real_sql"] == "1" && os.Getenv("VERIF_SQL") != "model" {
		// a profile whose subject is code above the SQL that only runs in this mode
		sc.Knobs.RealSQL = true
	}
	if sc.Worker != nil {
		// the replication world: in the real-SQL runs the writers' data statements, the pipelines' log reads
		// (real storage driver + Logs().Paginate) run for real; the system store independently in half
		sc.Knobs.RealSysSQL = RunSeed(0x737973, rs)%2 == 0
		sc.Knobs.SeparateWorker = sc.Knobs.RealSQL && RunSeed(0x736570, rs)%2 == 0
		switch os.Getenv("VERIF_SQL") {
		case "real":
			sc.Knobs.RealSysSQL = true
		case "model":
			sc.Knobs.RealSysSQL = false
		}
	}
	deepen(sc, ex, rs, tier)
	return sc, ex
}

// clockJumpOK: properties whose oracles do not assume that the database clock is monotone.
var clockJumpOK = map[string]bool{"C01": true, "C03": true, "C06": true, "C07": true, "C08": true, "C09": true, "C13": true, "C14": true, "C16": true,
	"C17": true, "C18": true, "C19": true, "C25": true, "C31": true, "C32": true}

// deepen: the thorough tier explores more per run than the quick tier - requests that stall for a while
// (any profile but the replication world), more faults per run, database clock jumps (forward and backward,
// where the oracle does not assume a monotone clock). Decided from the run seed alone; VERIF_DEEP=1 applies
// it to every run of any tier (used to test the deepening itself).
func deepen(sc *Scenario, ex *ExploreCfg, rs uint64, tier string) {
	if ex == nil || sc.Worker != nil {
		return
	}
	force := os.Getenv("VERIF_DEEP") != ""
	if tier != "thorough" && !force {
		return
	}
	h := RunSeed(0x74686f72, rs)
	if (h%2 == 0 || force) && ex.StallP == 0 {
		ex.StallP = 0.03
	}
	if (h%3 == 0 || force) && len(ex.Kinds) > 0 && ex.FaultP > 0 {
		ex.MaxFaults += 2
	}
	if clockJumpOK[sc.Property] && (h%4 == 0 || force) {
		ex.Kinds = append(ex.Kinds, FClockJump)
		if ex.FaultP == 0 {
			ex.FaultP = 0.02
		}
		if ex.MaxFaults < 2 {
			ex.MaxFaults = 2
		}
	}
}

func TestSim(t *testing.T) {
	if *fReplay != "" {
		replayFile(t)
		return
	}
	if *fProperty == "" {
		t.Skip("no -sim.property")
	}
	ps := profiles[*fProperty]
	if len(ps) == 0 {
		t.Fatalf("no profile for %s", *fProperty)
	}
	known := knownFindings()
	start := time.Now()
	out := &ProcResult{Property: *fProperty, Tier: *fTier, Seed: *fSeed, Fired: map[string]int{}, Probes: map[string]int{}, Profiles: map[string]int{}, OutcomeMix: map[string]int{}, Sites: map[string]int{}, SiteFaults: map[string]int{}}
	traces := map[string]bool{}
	nontriv := map[string]bool{}
	knownSeen := map[string]bool{}
	reported := map[string]bool{}
	handle := func(pname string, run int, rs uint64, sc *Scenario, recorded Plan, res *RunResult) {
		for _, v := range res.Violations {
			if k := matchKnown(known, v); k != nil {
				line := fmt.Sprintf("KNOWN-FINDING: property=%s %s", k.Property, k.What)
				if !knownSeen[line] {
					knownSeen[line] = true
					out.Known = append(out.Known, line)
				}
				continue
			}
			key := v.Property + "|" + v.Clause
			if reported[key] {
				continue
			}
			reported[key] = true
			// minimise and write the replay file
			msc, mplan, mres := minimise(t, cloneScenario(sc), recorded, v.Property, v.Clause)
			stable := func(s *Scenario, pl Plan, digest string) *RunResult {
				var last *RunResult
				for i := 0; i < 2; i++ {
					r := RunScenario(t, cloneScenario(s), &pl, nil)
					if r.Harness != nil || r.Digest != digest || hasClause(r.Violations, v.Property, v.Clause) == nil {
						return nil
					}
					last = r
				}
				return last
			}
			if mres != nil && stable(msc, mplan, mres.Digest) == nil {
				// The minimised schedule only fails some of the time (the system under test has choices the
				// simulator does not own, e.g. select among channels that are ready at once): fall back to
				// the schedule as recorded.
				msc, mplan, mres = cloneScenario(sc), recorded, nil
				if r := RunScenario(t, cloneScenario(sc), &recorded, nil); r.Harness == nil && hasClause(r.Violations, v.Property, v.Clause) != nil && stable(sc, recorded, r.Digest) != nil {
					mres = r
				}
			}
			rf := ReplayFile{Version: 1, Property: v.Property, Profile: pname, Seed: *fSeed, Run: run, RunSeed: rs, Scenario: msc, Plan: mplan, Clause: v.Clause, Detail: v.Detail}
			if mres != nil {
				rf.Digest = mres.Digest
				if mv := hasClause(mres.Violations, v.Property, v.Clause); mv != nil {
					rf.Detail = mv.Detail
				}
			} else {
				// no recorded schedule reproduces it reliably: the replay file re-runs the exploration run
				// itself (seed and run index decide everything the simulator owns)
				_ = os.MkdirAll(*fReplays, 0o755)
				path := filepath.Join(*fReplays, fmt.Sprintf("%s-%d-%d-%s.json", v.Property, *fSeed, run, v.Clause))
				b, _ := json.MarshalIndent(map[string]any{"version": 1, "mode": "rerun", "property": v.Property, "profile": pname, "seed": *fSeed, "run": run, "tier": *fTier, "clause": v.Clause, "detail": v.Detail}, "", " ")
				_ = os.WriteFile(path, b, 0o644)
				out.Violations = append(out.Violations, ReportedV{Violation: v, Replay: path, Run: run})
				continue
			}
			_ = os.MkdirAll(*fReplays, 0o755)
			path := filepath.Join(*fReplays, fmt.Sprintf("%s-%d-%d-%s.json", v.Property, *fSeed, run, v.Clause))
			b, _ := json.MarshalIndent(rf, "", " ")
			_ = os.WriteFile(path, b, 0o644)
			out.Violations = append(out.Violations, ReportedV{Violation: Violation{v.Property, v.Clause, rf.Detail}, Replay: path, Run: run})
		}
	}

	enumerateFaults(t, *fProperty, out, handle)
	if out.Enum != nil {
		for _, d := range out.Enum.Traces {
			traces[d], nontriv[d] = true, true
		}
	}
	for n := 0; n < *fRuns && time.Since(start) < *fBudget; n++ {
		run := *fFrom + n**fStride
		rs := RunSeed(*fSeed, uint64(run))
		p := profileFor(ps, run)
		sc, ex := genScenario(p, rs, *fTier)
		if *fOut != "" {
			// a panic in a goroutine of the system under test kills the process: leave a note saying
			// which (deterministic) run was in progress, so that the driver can report it with a replay
			_ = os.WriteFile(*fOut+".inprogress", []byte(fmt.Sprintf(`{"version":1,"mode":"rerun","property":%q,"seed":%d,"run":%d,"clause":"process-crash"}`, *fProperty, *fSeed, run)), 0o644)
		}
		res := RunScenario(t, sc, nil, ex)
		out.Runs++
		if sc.Knobs.RealSQL {
			out.RealSQLRuns++
		}
		if res.Unsupported != "" {
			out.UnsupportedRuns++
			if out.UnsupportedSample == "" {
				out.UnsupportedSample = fmt.Sprintf("run %d: %s", run, res.Unsupported)
			}
		}
		out.Profiles[p.Name]++
		out.Steps += res.Stats.Steps
		out.SimTimeMs += res.Stats.SimTime.Milliseconds()
		out.Commits += res.Stats.Commits
		out.Crashes += res.Stats.Crashes
		if res.Stats.Leaked {
			out.Leaked++
		}
		out.Unknown += res.Stats.PorcupineUnknown
		for k, v := range res.Stats.Fired {
			out.Fired[string(k)] += v
		}
		for k, v := range res.Stats.Probes {
			out.Probes[k] += v
		}
		for k, v := range res.Stats.Sites {
			out.Sites[k] += v
		}
		for k, v := range res.Stats.SiteFaults {
			out.SiteFaults[k] += v
		}
		for _, or := range res.Results {
			if or.Phase == "main" {
				out.OutcomeMix[or.Op.Kind+":"+or.Out.Class+":"+or.Out.Code]++
			}
		}
		traces[res.Stats.TraceDigest] = true
		if res.Stats.Nontrivial {
			nontriv[res.Stats.TraceDigest] = true
		}
		if *fLogs != "" {
			_ = os.MkdirAll(*fLogs, 0o755)
			_ = os.WriteFile(filepath.Join(*fLogs, fmt.Sprintf("%s-%d-%d.log", *fProperty, *fSeed, run)), []byte(strings.Join(res.Log, "\n")+"\n"+fmt.Sprint(res.Violations)+"\n"), 0o644)
		}
		if *fVerbose {
			for _, l := range res.Log {
				t.Log(l)
			}
		}
		if len(out.Samples) < 3 && res.Stats.Nontrivial {
			s, _ := json.Marshal(map[string]any{"run": run, "profile": p.Name, "plan": res.Recorded, "trace_tail": tail(res.Log, 12)})
			out.Samples = append(out.Samples, s)
		}
		if *fCheckReplay && res.Harness == nil {
			// replay fidelity self-test: the recorded plan must reproduce the exploration run exactly
			rr := RunScenario(t, cloneScenario(sc), &res.Recorded, nil)
			if rr.Digest != res.Digest {
				d := "length"
				for i := range res.Log {
					if i >= len(rr.Log) || rr.Log[i] != res.Log[i] {
						o := "<end>"
						if i < len(rr.Log) {
							o = rr.Log[i]
						}
						d = fmt.Sprintf("line %d: explore %q / replay %q", i, res.Log[i], o)
						break
					}
				}
				if *fLogs != "" {
					_ = os.WriteFile(filepath.Join(*fLogs, fmt.Sprintf("%s-%d-%d.replay.log", *fProperty, *fSeed, run)), []byte(strings.Join(rr.Log, "\n")+"\n"), 0o644)
				}
				out.Harness = append(out.Harness, fmt.Sprintf("run %d: replay of the recorded plan diverges from the exploration run at %s", run, d))
			}
		}
		if res.Harness != nil {
			out.Harness = append(out.Harness, fmt.Sprintf("run %d: %v", run, res.Harness))
			if len(out.Harness) > 3 {
				break
			}
			continue
		}
		handle(p.Name, run, rs, sc, res.Recorded, res)
		if len(out.Violations) >= 12 {
			break
		}
	}
	for k := range traces {
		out.Traces = append(out.Traces, k)
	}
	for k := range nontriv {
		out.Nontrivial = append(out.Nontrivial, k)
	}
	sort.Strings(out.Traces)
	sort.Strings(out.Nontrivial)
	out.WallS = time.Since(start).Seconds()
	if *fOut != "" {
		_ = os.Remove(*fOut + ".inprogress")
		b, _ := json.Marshal(out)
		if err := os.WriteFile(*fOut, b, 0o644); err != nil {
			t.Fatal(err)
		}
	} else {
		b, _ := json.MarshalIndent(out, "", " ")
		t.Log(string(b))
	}
}

func tail(xs []string, n int) []string {
	if len(xs) > n {
		return xs[len(xs)-n:]
	}
	return xs
}

func replayFile(t *testing.T) {
	b, err := os.ReadFile(*fReplay)
	if err != nil {
		t.Fatal(err)
	}
	var rf ReplayFile
	if err := json.Unmarshal(b, &rf); err != nil {
		t.Fatal(err)
	}
	var mode struct {
		Mode string `json:"mode"`
		Run  int    `json:"run"`
	}
	_ = json.Unmarshal(b, &mode)
	if mode.Mode == "rerun" {
		// exploration is deterministic: run index + seed reproduce the run (a process crash kills us here)
		rs := RunSeed(rf.Seed, uint64(mode.Run))
		ps := profiles[rf.Property]
		p := profileFor(ps, mode.Run)
		tier := "quick"
		var m2 struct {
			Tier string `json:"tier"`
		}
		if json.Unmarshal(b, &m2) == nil && m2.Tier != "" {
			tier = m2.Tier
		}
		sc, ex := genScenario(p, rs, tier)
		res := RunScenario(t, sc, nil, ex)
		for _, l := range res.Log {
			fmt.Println(l)
		}
		if rf.Clause != "process-crash" {
			if v := hasClause(res.Violations, rf.Property, rf.Clause); v != nil {
				fmt.Printf("REPLAY-REPRODUCED %s\n", v)
				return
			}
		}
		fmt.Printf("REPLAY-NO-VIOLATION (the run completed without crashing the process; violations: %v)\n", res.Violations)
		os.Exit(3)
	}
	res := RunScenario(t, rf.Scenario, &rf.Plan, nil)
	for _, l := range res.Log {
		fmt.Println(l)
	}
	if res.Harness != nil {
		fmt.Printf("REPLAY-HARNESS-ERROR %v\n", res.Harness)
		os.Exit(2)
	}
	if res.Digest != rf.Digest {
		fmt.Printf("REPLAY-DIVERGED digest %s, recorded %s\n", res.Digest, rf.Digest)
		os.Exit(2)
	}
	if v := hasClause(res.Violations, rf.Property, rf.Clause); v != nil {
		fmt.Printf("REPLAY-REPRODUCED %s\n", v)
		return
	}
	fmt.Printf("REPLAY-NO-VIOLATION (violations now: %v)\n", res.Violations)
	os.Exit(3)
}
