package sim

// Property profiles: which scenario family, which faults, which oracles.

import (
	"fmt"
)

type Profile struct {
	Property string
	Name     string
	Gen      func(r *RNG, seed uint64, tier string) (*Scenario, *ExploreCfg)
}

var profiles = map[string][]Profile{}

func register(p Profile) { profiles[p.Property] = append(profiles[p.Property], p) }

var cleanStoreFaults = []FaultKind{FStmtErr, FConnLost, FDeadlock, FTooMany, FCommitClean, FDisconnect}

// mixedScenario: nClients concurrent clients issuing random writes of every kind on one ledger.
type mixOpts struct {
	clients    [2]int // min,max
	opsPer     [2]int
	wPostings  int
	wScript    int
	wRevert    int
	wMeta      int
	wDry       float64
	wIK        float64
	big        bool
	funds      string
	extraTx    int
	sameSource bool // concentrate spending on one user
	v1         float64
	wBulk      int     // bulks of two or three elements, atomic or not
	pristine   float64 // probability that the concurrent phase starts on a ledger without any write
	forceSync  bool    // the ledger hashes its logs synchronously whatever the knobs drew
}

func mixedScenario(r *RNG, prop, name string, o mixOpts, checks ...string) *Scenario {
	sc := &Scenario{Property: prop, Profile: name, Knobs: randomKnobs(r), Checks: checks}
	if o.forceSync {
		sc.Knobs.HashLogs = "SYNC"
	}
	g := &gen{r: r, sc: sc}
	sc.Setup = g.baseSetup("l1", o.funds, o.extraTx)
	nc := o.clients[0] + r.Intn(o.clients[1]-o.clients[0]+1)
	reverted := map[uint64]int{}
	for c := 0; c < nc; c++ {
		n := o.opsPer[0] + r.Intn(o.opsPer[1]-o.opsPer[0]+1)
		var ops []Op
		for i := 0; i < n; i++ {
			tot := o.wPostings + o.wScript + o.wRevert + o.wMeta
			x := r.Intn(tot + o.wBulk)
			var op Op
			switch {
			case x >= tot:
				op = Op{Kind: KBulk, Ledger: "l1", Atomic: r.Bool(), ContinueOnFailure: r.Chance(0.3)}
				op.Elements, _ = g.bulkElements("l1", fmt.Sprintf("b%d", c), nil, 2+r.Intn(2), false)
			case x < o.wPostings:
				op = g.postingsOp("l1", 3, true, o.big)
			case x < o.wPostings+o.wScript:
				op = g.scriptOp("l1")
			case x < o.wPostings+o.wScript+o.wRevert && g.txN > 0:
				id := 1 + uint64(r.Intn(int(g.txN)))
				reverted[id]++
				op = g.revertOp("l1", id)
			default:
				op = g.metaOp("l1")
			}
			if o.sameSource && (op.Kind == KPostings) {
				for j := range op.Postings {
					if op.Postings[j].Source != "world" {
						op.Postings[j].Source = "u:1"
						op.Postings[j].Asset = "USD"
					}
				}
			}
			if r.Chance(o.wDry) && op.Kind != KBulk {
				op.DryRun = true
			}
			if r.Chance(o.wIK) && op.Kind != KBulk {
				op.IK = "ik-" + op.ID
			}
			if r.Chance(o.v1) && (op.Kind == KPostings || op.Kind == KRevert || op.Kind == KTxMetaSet || op.Kind == KAcctMetaSet) && !op.DryRun && op.IK == "" {
				op.API = "v1"
				if op.Kind == KPostings {
					op.Force = false
				}
				if op.Kind == KRevert {
					op.AtEffectiveDate = false
					// the v1 revert route takes no metadata: its log is identified by the reverted id
					op.Sig = fmt.Sprintf("revert:%d", op.TxID)
				}
			}
			op.ID = fmt.Sprintf("c%d.%d", c, i)
			if op.Kind == KTxMetaSet || op.Kind == KAcctMetaSet {
				v := ""
				for _, vv := range op.Metadata {
					v = vv
				}
				op.Metadata = map[string]string{"m." + op.ID: v}
			}
			if op.Kind == KTxMetaDel || op.Kind == KAcctMetaDel {
				op.Key = "d." + op.ID
			}
			if op.IK != "" {
				op.IK = "ik-" + op.ID
			}
			ops = append(ops, op)
		}
		sc.Clients = append(sc.Clients, ops)
	}
	if r.Chance(o.pristine) {
		pristineStart(sc)
	}
	return sc
}

// pristineStart: the concurrent phase begins on a ledger nobody has written to (its first write goes
// through the state tracker's own transaction); operations that need an existing transaction are dropped.
func pristineStart(sc *Scenario) {
	sc.Setup = sc.Setup[:1]
	for ci := range sc.Clients {
		var keep []Op
		for _, op := range sc.Clients[ci] {
			switch op.Kind {
			case KPostings, KScript, KAcctMetaSet, KAcctMetaDel:
				keep = append(keep, op)
			case KBulk:
				var els []Op
				for _, e := range op.Elements {
					if e.Kind == KPostings || e.Kind == KScript || e.Kind == KAcctMetaSet || e.Kind == KAcctMetaDel {
						els = append(els, e)
					}
				}
				if len(els) > 0 {
					op.Elements = els
					keep = append(keep, op)
				}
			}
		}
		sc.Clients[ci] = keep
	}
}

func init() {
	register(Profile{Property: "C06", Name: "concurrent-spenders", Gen: func(r *RNG, seed uint64, tier string) (*Scenario, *ExploreCfg) {
		sc := mixedScenario(r, "C06", "concurrent-spenders", mixOpts{clients: [2]int{2, 4}, opsPer: [2]int{1, 4}, wPostings: 4, wScript: 5, wRevert: 2, wMeta: 0,
			funds: fmt.Sprint(20 + r.Intn(60)), extraTx: 2, sameSource: r.Bool(), v1: 0.1}, "overdraft", "logs-match-ops")
		ex := defaultExplore(seed, 0, 0)
		if r.Chance(0.4) {
			ex = defaultExplore(seed, 0.04, 2, FDeadlock, FStmtErr, FConnLost, FTooMany, FCommitClean)
		}
		return sc, ex
	}})
	register(Profile{Property: "C01", Name: "conservation", Gen: func(r *RNG, seed uint64, tier string) (*Scenario, *ExploreCfg) {
		sc := mixedScenario(r, "C01", "conservation", mixOpts{clients: [2]int{1, 3}, opsPer: [2]int{2, 6}, wPostings: 6, wScript: 3, wRevert: 3, wMeta: 1,
			funds: Pick(r, []string{"50", "1000", "36893488147419103232"}), extraTx: 3, big: true, v1: 0.15}, "conservation")
		ex := defaultExplore(seed, 0, 0)
		if r.Chance(0.5) {
			ex = defaultExplore(seed, 0.03, 3, FDeadlock, FStmtErr, FConnLost, FCommitClean, FCommitAmbiguous, FCrash, FDisconnect)
		}
		return sc, ex
	}})
	register(Profile{Property: "C08", Name: "journal", Gen: func(r *RNG, seed uint64, tier string) (*Scenario, *ExploreCfg) {
		sc := mixedScenario(r, "C08", "journal", mixOpts{clients: [2]int{1, 3}, opsPer: [2]int{2, 6}, wPostings: 4, wScript: 3, wRevert: 2, wMeta: 4, wDry: 0.1, wIK: 0.15,
			funds: "200", extraTx: 3, big: true, v1: 0.15}, "logs-match-ops", "replay", "log-order")
		ex := defaultExplore(seed, 0, 0)
		if r.Chance(0.5) {
			ex = defaultExplore(seed, 0.03, 3, FDeadlock, FStmtErr, FConnLost, FCommitClean, FCommitAmbiguous, FCrash, FDisconnect, FTooMany)
		}
		return sc, ex
	}})
	register(Profile{Property: "C07", Name: "failed-writes-explore", Gen: func(r *RNG, seed uint64, tier string) (*Scenario, *ExploreCfg) {
		sc := mixedScenario(r, "C07", "failed-writes-explore", mixOpts{clients: [2]int{1, 3}, opsPer: [2]int{2, 5}, wPostings: 4, wScript: 4, wRevert: 3, wMeta: 4, wDry: 0.25, wIK: 0.1,
			funds: fmt.Sprint(5 + r.Intn(40)), extraTx: 3, v1: 0.1, wBulk: 2, pristine: 0.25}, "logs-match-ops", "replay", "events", "no-leaked-locks")
		ex := defaultExplore(seed, 0.08, 4, cleanStoreFaults...)
		return sc, ex
	}})
	register(Profile{Property: "C15", Name: "reverts", Gen: func(r *RNG, seed uint64, tier string) (*Scenario, *ExploreCfg) {
		sc := mixedScenario(r, "C15", "reverts", mixOpts{clients: [2]int{2, 3}, opsPer: [2]int{1, 4}, wPostings: 2, wScript: 1, wRevert: 7, wMeta: 0, wIK: 0.1,
			funds: fmt.Sprint(5 + r.Intn(30)), extraTx: 3, v1: 0.15}, "reverts", "conservation", "logs-match-ops", "revert-answers")
		// some of the transactions to revert carry an effective date of their own, away from their insertion date
		// (wave 16, C15e: a revert at the effective date dated at the original's insertion)
		for i := range sc.Setup {
			if sc.Setup[i].Kind == KPostings && r.Chance(0.5) {
				sc.Setup[i].Timestamp = Pick(r, []string{"1999-12-31T23:59:59Z", "1999-06-01T00:00:00Z", "1990-01-01T12:00:00.123456Z", "2000-01-02T00:00:00Z"})
			}
		}
		ex := defaultExplore(seed, 0, 0)
		if r.Chance(0.4) {
			ex = defaultExplore(seed, 0.04, 2, FDeadlock, FStmtErr, FConnLost, FCommitClean, FDisconnect, FCrash)
		}
		return sc, ex
	}})
	register(Profile{Property: "C31", Name: "events-explore", Gen: func(r *RNG, seed uint64, tier string) (*Scenario, *ExploreCfg) {
		sc := mixedScenario(r, "C31", "events-explore", mixOpts{clients: [2]int{1, 3}, opsPer: [2]int{1, 4}, wPostings: 4, wScript: 2, wRevert: 2, wMeta: 4, wDry: 0.15,
			funds: fmt.Sprint(5 + r.Intn(40)), extraTx: 2, wBulk: 2, pristine: 0.5}, "events", "logs-match-ops")
		// (half of the runs: the concurrent phase starts on a pristine ledger: first write)
		ex := defaultExplore(seed, 0.06, 3, FStmtErr, FConnLost, FDeadlock, FCommitClean)
		return sc, ex
	}})
}

func (r *runner) profileChecks(views map[string]*LedgerView, commits []CommitRec) {
	if r.has("revert-answers") {
		r.addV(checkRevertAnswers(r, views)...)
	}
	if r.has("bulk") {
		r.addV(checkBulk(r, views)...)
	}
	if r.has("refused-leaves-nothing") {
		r.addV(checkRefusedLeavesNothing(r, commits)...)
	}
	if r.has("transport") {
		r.addV(checkTransport(r, views)...)
	}
	if r.has("schema") {
		r.addV(checkSchema(r, views, commits)...)
	}
	if r.has("postings-model") {
		r.addV(checkPostingsModel(r, views, commits)...)
	}
	if r.has("import-copy") {
		r.addV(checkImportCopy(r, views)...)
	}
	if r.has("post-writes") {
		r.addV(checkPostWrites(r, views)...)
	}
	if r.has("ik") {
		r.addV(checkIK(r, views)...)
		funds := int64(u64(r.sc.Params["funds"]))
		results := r.results
		prop := r.sc.Property
		r.post = append(r.post, func() ([]Violation, bool) { return checkIKLinearizable(prop, funds, results) })
	}
}

// checkRevertAnswers: per reverted transaction, exactly one caller was told success; everybody else
// got already-reverted (or a fault / not certain).
func checkRevertAnswers(r *runner, views map[string]*LedgerView) []Violation {
	var vs []Violation
	okCount := map[string]int{}
	maybe := map[string]int{}
	for _, or := range r.results {
		if or.Op.Kind != KRevert || or.Op.DryRun {
			continue
		}
		k := fmt.Sprintf("%s|%d", or.Op.Ledger, or.Op.TxID)
		switch {
		case or.Out.Class == "ok" && !or.Out.Hit:
			okCount[k]++
			if or.Out.Tx != nil && or.Out.Tx.Metadata["com.formance.spec/state/reverts"] != fmt.Sprint(or.Op.TxID) {
				vs = append(vs, Violation{r.sc.Property, "revert-carries-mark", fmt.Sprintf("%s: revert of %d answered a transaction with metadata %v", or.Op.ID, or.Op.TxID, or.Out.Tx.Metadata)})
			}
		case uncertain(or) && or.Out.Class != "client_err":
			maybe[k]++
		}
	}
	for _, k := range sortedKeys(okCount) {
		if okCount[k] > 1 {
			vs = append(vs, Violation{r.sc.Property, "second-revert-fails-already-reverted", fmt.Sprintf("%s: %d callers were told the revert succeeded", k, okCount[k])})
		}
	}
	// original + revert leave every balance unchanged: checked through conservation + exact inverse
	return vs
}
