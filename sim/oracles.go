package sim

// Oracles over the committed database states (commit-sequence invariants), the recorded client history
// and the listener callbacks. None of them reads implementation constants from /repo: they are written
// from the property statements.

import (
	"bytes"
	"encoding/json"
	"fmt"
	"math/big"
	"sort"
	"strings"
	gotime "time"

	ledger "github.com/formancehq/ledger/internal"
)

type Violation struct {
	Property string `json:"property"`
	Clause   string `json:"clause"`
	Detail   string `json:"detail"`
}

func (v Violation) String() string {
	return fmt.Sprintf("property=%s clause=%s: %s", v.Property, v.Clause, v.Detail)
}

// ---- views of the committed state ----

type LedgerView struct {
	Name    string
	Txs     map[uint64]*ledger.Transaction
	Logs    []*LogRow // by id
	Accts   map[string]*AcctRow
	Vols    map[string]*VolRow // account\x00asset
	Schemas map[string]*ledger.Schema
	State   string
	Feats   map[string]string
	Moves   []*MoveRow // only written in the real-SQL runs
}

func ViewOf(snap map[rowKey]any) map[string]*LedgerView {
	out := map[string]*LedgerView{}
	get := func(name string) *LedgerView {
		v := out[name]
		if v == nil {
			v = &LedgerView{Name: name, Txs: map[uint64]*ledger.Transaction{}, Accts: map[string]*AcctRow{}, Vols: map[string]*VolRow{}, Schemas: map[string]*ledger.Schema{}}
			out[name] = v
		}
		return v
	}
	for k, val := range snap {
		switch k.Table {
		case "ledger":
			get(k.Key).State = val.(*LedgerRow).State
			get(k.Key).Feats = val.(*LedgerRow).Features
		case "tx":
			t := val.(*ledger.Transaction)
			get(k.Ledger).Txs[*t.ID] = t
		case "log":
			v := get(k.Ledger)
			v.Logs = append(v.Logs, val.(*LogRow))
		case "acct":
			get(k.Ledger).Accts[k.Key] = val.(*AcctRow)
		case "move":
			get(k.Ledger).Moves = append(get(k.Ledger).Moves, val.(*MoveRow))
		case "vol":
			get(k.Ledger).Vols[k.Key] = val.(*VolRow)
		case "schema":
			sc, err := decodeSchema(val.([]byte))
			if err == nil {
				get(k.Ledger).Schemas[k.Key] = sc
			}
		}
	}
	for _, v := range out {
		sort.Slice(v.Logs, func(i, j int) bool { return v.Logs[i].ID < v.Logs[j].ID })
	}
	return out
}

// ---- log signatures ----

type LogInfo struct {
	ID      uint64
	Kind    string // tx | revert | txmeta | acctmeta | txmetadel | acctmetadel | schema
	Sig     string
	IK      string
	Payload ledger.LogPayload
}

func logInfo(r *LogRow) (LogInfo, error) {
	p, err := ledger.HydrateLog(r.Type, r.DataJSON)
	if err != nil {
		return LogInfo{}, err
	}
	li := LogInfo{ID: r.ID, IK: r.IK, Payload: p}
	metaSig := func(m map[string]string, prefix string) string {
		for _, k := range sortedKeys(m) {
			if strings.HasPrefix(k, prefix) {
				return k[len(prefix):]
			}
		}
		return ""
	}
	switch pl := p.(type) {
	case ledger.CreatedTransaction:
		li.Kind, li.Sig = "tx", pl.Transaction.Metadata[sigKey]
	case ledger.RevertedTransaction:
		li.Kind, li.Sig = "revert", pl.RevertTransaction.Metadata[sigKey]
		if li.Sig == "" {
			li.Sig = fmt.Sprintf("revert:%d", *pl.RevertedTransaction.ID)
		}
	case ledger.SavedMetadata:
		if pl.TargetType == ledger.MetaTargetTypeTransaction {
			li.Kind = "txmeta"
		} else {
			li.Kind = "acctmeta"
		}
		li.Sig = metaSig(pl.Metadata, "m.")
	case ledger.DeletedMetadata:
		if pl.TargetType == ledger.MetaTargetTypeTransaction {
			li.Kind = "txmetadel"
		} else {
			li.Kind = "acctmetadel"
		}
		li.Sig = strings.TrimPrefix(pl.Key, "d.")
	case ledger.InsertedSchema:
		li.Kind, li.Sig = "schema", strings.TrimPrefix(pl.Schema.Version, "s.")
	}
	return li, nil
}

// ---- per-op bookkeeping ----

type OpResult struct {
	Op      *Op
	Out     Outcome
	Faults  []FaultAt // faults that fired inside this op
	Phase   string    // setup | main | post
	Skipped bool
	Pages   []WalkPage // KWalk: the pages in the order they were fetched
}

// elemClass classifies the effect an element is entitled to: "yes" (exactly one log), "no" (none),
// "maybe" (outcome unknown to the client).
type elem struct {
	op    *Op
	owner *OpResult
	class string
	idx   int
}

func uncertain(r *OpResult) bool {
	switch r.Out.Class {
	case "crashed", "aborted":
		return true
	}
	streaming := r.Op.Kind == KImport || (r.Op.Kind == KBulk && r.Op.ContentType != "")
	for _, f := range r.Faults {
		switch f.Kind {
		case FCommitAmbiguous, FCrash, FDisconnect:
			return true
		case FBodyCut, FBodyErr, FBodyTrunc:
			// a body that is decoded as a whole before anything is applied cannot have been applied
			// when it was cut; streamed bodies may have been applied in part
			if streaming {
				return true
			}
		}
	}
	return false
}

// elements flattens op results into write elements with their entitlement.
func elements(results []*OpResult) []elem {
	var out []elem
	for _, r := range results {
		if r.Skipped {
			continue
		}
		op := r.Op
		switch {
		case op.IsWrite():
			c := "no"
			switch {
			case op.DryRun:
				c = "no"
			case uncertain(r) && r.Out.Class != "ok":
				c = "maybe"
			case r.Out.Class == "ok" && !r.Out.Hit:
				c = "yes"
			case r.Out.Class == "ok" && r.Out.Hit:
				// an idempotency hit points at a log that exists; it is the caller's own only when the
				// caller could not know its first attempt had committed (ambiguous commit)
				c = "hit"
				if uncertain(r) {
					c = "hit-maybe"
				}
			case r.Out.Class == "server_err" && len(r.Faults) == 0:
				// a 5xx with no injected fault: effect unknown (reported by the profile, not here)
				c = "maybe"
			}
			out = append(out, elem{op: op, owner: r, class: c})
		case op.Kind == KBulk:
			unc := uncertain(r)
			whole := r.Out.Class
			anyErr := false
			for _, e := range r.Out.Bulk {
				if !e.OK {
					anyErr = true
				}
			}
			for i := range op.Elements {
				el := &op.Elements[i]
				c := "no"
				switch {
				case unc:
					c = "maybe"
				case whole == "server_err" || whole == "panic":
					c = "maybe"
					if op.Atomic && len(r.Faults) > 0 {
						c = "no"
						for _, f := range r.Faults {
							if f.Kind == FCommitAmbiguous {
								c = "maybe"
							}
						}
					}
				case len(r.Out.Bulk) != len(op.Elements):
					// bulk rejected as a whole (validation) or result list malformed
					if whole == "client_err" && len(r.Out.Bulk) == 0 {
						c = "no"
					} else {
						c = "maybe"
					}
				case op.Atomic && anyErr:
					c = "no"
				default:
					eo := r.Out.Bulk[i]
					if op.Parallel {
						// results of a parallel bulk are matched by content where possible
						eo = matchParallel(op, r.Out.Bulk, i)
					}
					if eo.OK {
						c = "yes"
					}
				}
				out = append(out, elem{op: el, owner: r, class: c, idx: i})
			}
		}
	}
	return out
}

func matchParallel(op *Op, res []ElemOutcome, i int) ElemOutcome {
	el := &op.Elements[i]
	for _, e := range res {
		if e.Tx != nil && e.Tx.Metadata[sigKey] == el.sig() {
			return e
		}
	}
	// non transaction elements: no content to match on; an element counts as applied if as many
	// results of its type succeeded as there are elements of that type (conservative: use index)
	return res[i]
}

// ---- O1: logs <-> acknowledged writes (C07, C08 clause 1, C13 effect part, C32 effect part) ----

func CheckLogsMatchOps(prop string, views map[string]*LedgerView, results []*OpResult) []Violation {
	var vs []Violation
	type cnt struct{ yes, maybe, logs, hits int }
	counts := map[string]*cnt{} // ledger|sig
	get := func(k string) *cnt {
		if counts[k] == nil {
			counts[k] = &cnt{}
		}
		return counts[k]
	}
	for _, e := range elements(results) {
		ledgerName := e.op.Ledger
		if ledgerName == "" {
			ledgerName = e.owner.Op.Ledger
		}
		c := get(ledgerName + "|" + e.op.sig())
		switch e.class {
		case "yes":
			c.yes++
		case "maybe":
			c.maybe++
		case "hit":
			c.hits++
		case "hit-maybe":
			c.hits++
			c.maybe++
		default:
			// "no": mention the signature so that a stray log is attributed
			_ = c
		}
	}
	for name, v := range views {
		for _, r := range v.Logs {
			li, err := logInfo(r)
			if err != nil {
				vs = append(vs, Violation{prop, "log-decodes", fmt.Sprintf("ledger %s log %d does not decode: %v", name, r.ID, err)})
				continue
			}
			k := name + "|" + li.Sig
			if counts[k] == nil && importedFrom(results, name, li.Sig) {
				continue // brought by an import: judged by the import oracles
			}
			if counts[k] == nil && li.Sig == "" && truncatedScriptStream(results) {
				// the script-stream format accepts a last script without its end tag: a body that ends
				// early but cleanly runs the part of the script that arrived (its signature line is missing)
				continue
			}
			if counts[k] == nil {
				vs = append(vs, Violation{prop, "log-explained-by-a-write", fmt.Sprintf("ledger %s log %d (%s sig=%q) corresponds to no write of the history", name, r.ID, li.Kind, li.Sig)})
				continue
			}
			counts[k].logs++
		}
	}
	for _, k := range sortedKeys(counts) {
		c := counts[k]
		if c.logs < c.yes {
			vs = append(vs, Violation{prop, "acknowledged-write-has-log", fmt.Sprintf("%s: %d acknowledged non-dry-run write(s) but %d log(s)", k, c.yes, c.logs)})
		}
		if c.hits > 0 && c.logs == 0 {
			vs = append(vs, Violation{prop, "idempotency-hit-points-at-a-committed-write", fmt.Sprintf("%s: %d caller(s) were answered an idempotency hit but no log exists", k, c.hits)})
		}
		if c.logs > c.yes+c.maybe {
			vs = append(vs, Violation{prop, "failed-or-dry-run-write-leaves-no-log", fmt.Sprintf("%s: %d log(s) but only %d acknowledged (+%d unknown) write(s)", k, c.logs, c.yes, c.maybe)})
		}
	}
	return vs
}

// ---- O2: the log payloads alone determine the state (C08 clause 2; with O1 it gives C07) ----

type replayState struct {
	txs   map[uint64]*replayTx
	accts map[string]map[string]string
	vols  map[string][2]*big.Int
	schem map[string]bool
}

type replayTx struct {
	postings []ledger.Posting
	metadata map[string]string
	ts       string
	ref      string
	reverted bool
	// revertedAt: the date the REVERTED_TRANSACTION log records for the revert (nil when the payload has none)
	revertedAt *gotime.Time
}

func addVol(vols map[string][2]*big.Int, account, asset string, in, out *big.Int) {
	k := account + "\x00" + asset
	v, ok := vols[k]
	if !ok {
		v = [2]*big.Int{new(big.Int), new(big.Int)}
		vols[k] = v
	}
	if in != nil {
		v[0].Add(v[0], in)
	}
	if out != nil {
		v[1].Add(v[1], out)
	}
}

func ReplayLogs(v *LedgerView) (*replayState, error) {
	st := &replayState{txs: map[uint64]*replayTx{}, accts: map[string]map[string]string{}, vols: map[string][2]*big.Int{}, schem: map[string]bool{}}
	touch := func(a string) {
		if st.accts[a] == nil {
			st.accts[a] = map[string]string{}
		}
	}
	addTx := func(t ledger.Transaction) {
		rt := &replayTx{postings: t.Postings, metadata: copyMeta(t.Metadata), ts: t.Timestamp.Format("2006-01-02T15:04:05.000000Z"), ref: t.Reference}
		st.txs[*t.ID] = rt
		for _, p := range t.Postings {
			touch(p.Source)
			touch(p.Destination)
			addVol(st.vols, p.Source, p.Asset, nil, p.Amount)
			addVol(st.vols, p.Destination, p.Asset, p.Amount, nil)
		}
	}
	for _, r := range v.Logs {
		p, err := ledger.HydrateLog(r.Type, r.DataJSON)
		if err != nil {
			return nil, err
		}
		switch pl := p.(type) {
		case ledger.CreatedTransaction:
			addTx(pl.Transaction)
			for a, md := range pl.AccountMetadata {
				touch(a)
				for k, val := range md {
					st.accts[a][k] = val
				}
			}
		case ledger.RevertedTransaction:
			if t := st.txs[*pl.RevertedTransaction.ID]; t != nil {
				t.reverted = true
				if ra := pl.RevertedTransaction.RevertedAt; ra != nil && !ra.IsZero() {
					at := ra.Time
					t.revertedAt = &at
				}
			} else {
				return nil, fmt.Errorf("log %d reverts unknown transaction %d", r.ID, *pl.RevertedTransaction.ID)
			}
			addTx(pl.RevertTransaction)
		case ledger.SavedMetadata:
			switch id := pl.TargetID.(type) {
			case string:
				touch(id)
				for k, val := range pl.Metadata {
					st.accts[id][k] = val
				}
			case uint64:
				t := st.txs[id]
				if t == nil {
					return nil, fmt.Errorf("log %d sets metadata on unknown transaction %d", r.ID, id)
				}
				for k, val := range pl.Metadata {
					t.metadata[k] = val
				}
			}
		case ledger.DeletedMetadata:
			switch id := pl.TargetID.(type) {
			case string:
				if st.accts[id] != nil {
					delete(st.accts[id], pl.Key)
				}
			case uint64:
				if t := st.txs[id]; t != nil {
					delete(t.metadata, pl.Key)
				}
			}
		case ledger.InsertedSchema:
			st.schem[pl.Schema.Version] = true
		}
	}
	return st, nil
}

func metaEq(a, b map[string]string) bool {
	if len(a) != len(b) {
		return false
	}
	for k, v := range a {
		if w, ok := b[k]; !ok || w != v {
			return false
		}
	}
	return true
}

// CheckReplay compares the state obtained by replaying the log payloads with the stored tables.
// withDefaults: account metadata may contain chart defaults not present in payloads (schema runs);
// then stored metadata must be a superset of the replayed one.
func CheckReplay(prop string, views map[string]*LedgerView, withDefaults bool) []Violation {
	var vs []Violation
	for _, name := range sortedKeys(views) {
		v := views[name]
		st, err := ReplayLogs(v)
		if err != nil {
			vs = append(vs, Violation{prop, "logs-replay", fmt.Sprintf("ledger %s: %v", name, err)})
			continue
		}
		// transactions
		for id, t := range v.Txs {
			rt := st.txs[id]
			if rt == nil {
				vs = append(vs, Violation{prop, "state-has-no-unlogged-effect", fmt.Sprintf("ledger %s: transaction %d is stored but no log creates it", name, id)})
				continue
			}
			if len(rt.postings) != len(t.Postings) {
				vs = append(vs, Violation{prop, "replay-equals-state", fmt.Sprintf("ledger %s tx %d: postings differ", name, id)})
			} else {
				for i := range t.Postings {
					a, b := t.Postings[i], rt.postings[i]
					if a.Source != b.Source || a.Destination != b.Destination || a.Asset != b.Asset || a.Amount.Cmp(b.Amount) != 0 {
						vs = append(vs, Violation{prop, "replay-equals-state", fmt.Sprintf("ledger %s tx %d posting %d: stored %v, log %v", name, id, i, a, b)})
					}
				}
			}
			if !metaEq(rt.metadata, t.Metadata) {
				vs = append(vs, Violation{prop, "replay-equals-state", fmt.Sprintf("ledger %s tx %d: stored metadata %v, replayed %v", name, id, t.Metadata, rt.metadata)})
			}
			if rt.reverted && t.RevertedAt != nil && rt.revertedAt != nil && !rt.revertedAt.Equal(t.RevertedAt.Time) {
				vs = append(vs, Violation{prop, "replay-equals-state", fmt.Sprintf("ledger %s tx %d: stored as reverted at %s, the log that reverts it says %s", name, id, t.RevertedAt.Time.UTC().Format(gotime.RFC3339Nano), rt.revertedAt.UTC().Format(gotime.RFC3339Nano))})
			}
			if rt.reverted != (t.RevertedAt != nil) {
				vs = append(vs, Violation{prop, "replay-equals-state", fmt.Sprintf("ledger %s tx %d: stored reverted=%v, replayed %v", name, id, t.RevertedAt != nil, rt.reverted)})
			}
			if rt.ref != t.Reference {
				vs = append(vs, Violation{prop, "replay-equals-state", fmt.Sprintf("ledger %s tx %d: stored reference %q, replayed %q", name, id, t.Reference, rt.ref)})
			}
			if ts := t.Timestamp.Format("2006-01-02T15:04:05.000000Z"); ts != rt.ts {
				vs = append(vs, Violation{prop, "replay-equals-state", fmt.Sprintf("ledger %s tx %d: stored timestamp %s, replayed %s", name, id, ts, rt.ts)})
			}
		}
		for id := range st.txs {
			if v.Txs[id] == nil {
				vs = append(vs, Violation{prop, "replay-equals-state", fmt.Sprintf("ledger %s: log creates transaction %d which is not stored", name, id)})
			}
		}
		// accounts
		for a, row := range v.Accts {
			md, ok := st.accts[a]
			if !ok {
				vs = append(vs, Violation{prop, "state-has-no-unlogged-effect", fmt.Sprintf("ledger %s: account %s is stored but no log involves it", name, a)})
				continue
			}
			if withDefaults {
				for k, val := range md {
					if row.Metadata[k] != val {
						vs = append(vs, Violation{prop, "replay-equals-state", fmt.Sprintf("ledger %s account %s: stored metadata %v lacks replayed %s=%s", name, a, row.Metadata, k, val)})
					}
				}
			} else if !metaEq(md, row.Metadata) {
				vs = append(vs, Violation{prop, "replay-equals-state", fmt.Sprintf("ledger %s account %s: stored metadata %v, replayed %v", name, a, row.Metadata, md)})
			}
		}
		for a := range st.accts {
			if v.Accts[a] == nil {
				vs = append(vs, Violation{prop, "replay-equals-state", fmt.Sprintf("ledger %s: logs involve account %s which is not stored", name, a)})
			}
		}
		// volumes
		zero := new(big.Int)
		for k, row := range v.Vols {
			rv, ok := st.vols[k]
			if !ok {
				if row.Input.Cmp(zero) != 0 || row.Output.Cmp(zero) != 0 {
					vs = append(vs, Violation{prop, "state-has-no-unlogged-effect", fmt.Sprintf("ledger %s: volumes of %q are %s/%s but no log moves them", name, k, row.Input, row.Output)})
				}
				continue
			}
			if rv[0].Cmp(row.Input) != 0 || rv[1].Cmp(row.Output) != 0 {
				vs = append(vs, Violation{prop, "replay-equals-state", fmt.Sprintf("ledger %s: volumes of %q stored %s/%s, replayed %s/%s", name, strings.ReplaceAll(k, "\x00", "/"), row.Input, row.Output, rv[0], rv[1])})
			}
		}
		for k, rv := range st.vols {
			if v.Vols[k] == nil && (rv[0].Sign() != 0 || rv[1].Sign() != 0) {
				vs = append(vs, Violation{prop, "replay-equals-state", fmt.Sprintf("ledger %s: logs move %q but no volumes are stored", name, strings.ReplaceAll(k, "\x00", "/"))})
			}
		}
		for ver := range v.Schemas {
			if !st.schem[ver] {
				vs = append(vs, Violation{prop, "state-has-no-unlogged-effect", fmt.Sprintf("ledger %s: schema %s stored but not logged", name, ver)})
			}
		}
		for ver := range st.schem {
			if v.Schemas[ver] == nil {
				vs = append(vs, Violation{prop, "replay-equals-state", fmt.Sprintf("ledger %s: schema %s logged but not stored", name, ver)})
			}
		}
	}
	return vs
}

// ---- O3: conservation (C01) over any committed state ----

func CheckConservation(prop string, views map[string]*LedgerView, when string) []Violation {
	var vs []Violation
	for _, name := range sortedKeys(views) {
		v := views[name]
		in, out := map[string]*big.Int{}, map[string]*big.Int{}
		for k, row := range v.Vols {
			asset := k[strings.IndexByte(k, 0)+1:]
			if in[asset] == nil {
				in[asset], out[asset] = new(big.Int), new(big.Int)
			}
			in[asset].Add(in[asset], row.Input)
			out[asset].Add(out[asset], row.Output)
		}
		for _, a := range sortedKeys(in) {
			if in[a].Cmp(out[a]) != 0 {
				vs = append(vs, Violation{prop, "sum-of-balances-is-zero", fmt.Sprintf("%s: ledger %s asset %s: total input %s != total output %s", when, name, a, in[a], out[a])})
			}
		}
		// conservation at any point in time: at every instant (effective date, and insertion date) the moves
		// recorded up to that instant credit as much as they debit, per asset - i.e. what is taken from sources
		// at an instant is what destinations receive at that same instant
		for _, mode := range []string{"effective", "insertion"} {
			net := map[string]*big.Int{}
			for _, m := range v.Moves {
				d := m.EffectiveDate
				if mode == "insertion" {
					d = m.InsertionDate
				}
				k := m.Asset + " at " + d.Time.UTC().Format("2006-01-02T15:04:05.999999Z")
				if net[k] == nil {
					net[k] = new(big.Int)
				}
				if m.IsSource {
					net[k].Sub(net[k], m.Amount)
				} else {
					net[k].Add(net[k], m.Amount)
				}
			}
			for _, k := range sortedKeys(net) {
				if net[k].Sign() != 0 {
					vs = append(vs, Violation{prop, "sum-of-balances-is-zero-at-any-point-in-time", fmt.Sprintf("%s: ledger %s asset %s (%s date): the moves dated that instant credit %s more than they debit, so volumes read at a point in time around it do not sum to zero", when, name, k, mode, net[k])})
					break
				}
			}
		}
		// independent fold of the committed transactions' postings
		fold := map[string][2]*big.Int{}
		for _, t := range v.Txs {
			for _, p := range t.Postings {
				addVol(fold, p.Source, p.Asset, nil, p.Amount)
				addVol(fold, p.Destination, p.Asset, p.Amount, nil)
			}
		}
		for k, row := range v.Vols {
			f, ok := fold[k]
			if !ok {
				f = [2]*big.Int{new(big.Int), new(big.Int)}
			}
			if f[0].Cmp(row.Input) != 0 || f[1].Cmp(row.Output) != 0 {
				vs = append(vs, Violation{prop, "volumes-equal-fold-of-postings", fmt.Sprintf("%s: ledger %s %s: volumes %s/%s, fold of postings %s/%s", when, name, strings.ReplaceAll(k, "\x00", "/"), row.Input, row.Output, f[0], f[1])})
			}
		}
		for k, f := range fold {
			if v.Vols[k] == nil && (f[0].Sign() != 0 || f[1].Sign() != 0) {
				vs = append(vs, Violation{prop, "volumes-equal-fold-of-postings", fmt.Sprintf("%s: ledger %s %s: postings move it but no volumes row", when, name, strings.ReplaceAll(k, "\x00", "/"))})
			}
		}
	}
	return vs
}

// ---- O4: overdraft bound at every commit (C06) ----

type allowance struct {
	unbounded bool
	bound     *big.Int // >= 0
}

// allowancesOf returns, for a write element, the allowance of each non-world source (account\x00asset).
func allowancesOf(op *Op) map[string]allowance {
	out := map[string]allowance{}
	switch op.Kind {
	case KPostings:
		for _, p := range op.Postings {
			if p.Source == "world" {
				continue
			}
			k := p.Source + "\x00" + p.Asset
			if op.Force {
				out[k] = allowance{unbounded: true}
			} else if _, ok := out[k]; !ok {
				out[k] = allowance{bound: new(big.Int)}
			}
		}
	case KScript:
		if op.Sem == nil {
			return nil
		}
		for _, s := range op.Sem.Sources {
			if s.Account == "world" {
				continue
			}
			k := s.Account + "\x00" + op.Sem.Asset
			switch s.Overdraft {
			case "":
				out[k] = allowance{bound: new(big.Int)}
			case "unbounded":
				out[k] = allowance{unbounded: true}
			default:
				b, _ := new(big.Int).SetString(s.Overdraft, 10)
				out[k] = allowance{bound: b}
			}
		}
	}
	return out
}

func balanceOf(v any) *big.Int {
	if r, ok := v.(*VolRow); ok && r != nil {
		return new(big.Int).Sub(r.Input, r.Output)
	}
	return new(big.Int)
}

// CheckOverdraftAtCommit examines one commit record.
func CheckOverdraftAtCommit(prop string, rec CommitRec, bySig map[string]*Op) []Violation {
	var vs []Violation
	before, after := map[string]*big.Int{}, map[string]*big.Int{}
	for _, w := range rec.Writes {
		if w.Key.Table == "vol" {
			k := w.Key.Ledger + "\x00" + w.Key.Key
			before[k], after[k] = balanceOf(w.Before), balanceOf(w.After)
		}
	}
	for _, w := range rec.Writes {
		if w.Key.Table != "tx" || w.Before != nil || w.After == nil {
			continue
		}
		t := w.After.(*ledger.Transaction)
		sig := t.Metadata[sigKey]
		op := bySig[w.Key.Ledger+"|"+sig]
		_, isRevert := t.Metadata["com.formance.spec/state/reverts"]
		if isRevert {
			forced := op != nil && op.Force
			if op == nil || forced {
				continue
			}
			for _, p := range t.Postings {
				for _, acc := range []string{p.Source, p.Destination} {
					if acc == "world" {
						continue
					}
					k := w.Key.Ledger + "\x00" + acc + "\x00" + p.Asset
					a, b := after[k], before[k]
					if a == nil {
						continue
					}
					if a.Sign() < 0 && a.Cmp(b) < 0 {
						vs = append(vs, Violation{prop, "non-forced-revert-leaves-no-account-negative", fmt.Sprintf("commit %d: revert tx %d leaves %s/%s at %s (was %s)", rec.Seq, *t.ID, acc, p.Asset, a, b)})
					}
				}
			}
			continue
		}
		if op == nil {
			continue
		}
		for k, al := range allowancesOf(op) {
			if al.unbounded {
				continue
			}
			kk := w.Key.Ledger + "\x00" + k
			a, b := after[kk], before[kk]
			if a == nil {
				continue
			}
			floor := new(big.Int).Neg(al.bound)
			if b.Cmp(floor) < 0 {
				floor = b
			}
			if a.Cmp(floor) < 0 {
				vs = append(vs, Violation{prop, "balance-never-below-allowance-at-commit", fmt.Sprintf("commit %d (task %s): tx %d takes %s from %s (balance before this commit) to %s; allowance %s", rec.Seq, rec.Task, *t.ID, strings.ReplaceAll(k, "\x00", "/"), b, a, al.bound)})
			}
		}
	}
	return vs
}

// ---- O5: events exactly for committed writes, after commit (C31) ----

// eventKeyOfLog gives the (kind,key) the listener callback for a log must carry.
func eventKeyOfLog(li LogInfo) (string, string) {
	switch pl := li.Payload.(type) {
	case ledger.CreatedTransaction:
		return "COMMITTED_TRANSACTIONS", fmt.Sprint(*pl.Transaction.ID)
	case ledger.RevertedTransaction:
		return "REVERTED_TRANSACTION", fmt.Sprint(*pl.RevertedTransaction.ID)
	case ledger.SavedMetadata:
		return "SAVED_METADATA", fmt.Sprintf("%s:%v", pl.TargetType, pl.TargetID)
	case ledger.DeletedMetadata:
		return "DELETED_METADATA", fmt.Sprintf("%s:%v#%s", pl.TargetType, pl.TargetID, pl.Key)
	case ledger.InsertedSchema:
		return "INSERTED_SCHEMA", pl.Schema.Version
	}
	return "?", "?"
}

// CheckEvents: every committed log has exactly one event with a sequence number greater than that of
// the commit that made it durable; no other events exist. lenient: writes whose op outcome is unknown
// to the client because the process crashed may lack their event (the process died before publishing).
func CheckEvents(prop string, commits []CommitRec, events []EventRec, crashedTasks map[string]bool) []Violation {
	var vs []Violation
	type need struct {
		commitEvent uint64
		logID       uint64
		task        string
		n           int
	}
	needs := map[string]*need{}
	for _, c := range commits {
		for _, w := range c.Writes {
			if w.Key.Table != "log" || w.Before != nil || w.After == nil {
				continue
			}
			li, err := logInfo(w.After.(*LogRow))
			if err != nil {
				continue
			}
			if strings.HasPrefix(li.Sig, "import:") {
				continue
			}
			kind, key := eventKeyOfLog(li)
			k := w.Key.Ledger + "|" + kind + "|" + key
			if needs[k] == nil {
				needs[k] = &need{commitEvent: c.Event, logID: li.ID, task: c.Task}
			}
			needs[k].n++
		}
	}
	got := map[string][]EventRec{}
	for _, e := range events {
		k := e.Ledger + "|" + e.Kind + "|" + e.Key
		got[k] = append(got[k], e)
	}
	for _, k := range sortedKeys(got) {
		es := got[k]
		nd := needs[k]
		if nd == nil {
			vs = append(vs, Violation{prop, "no-event-without-committed-write", fmt.Sprintf("event %s (seq %d, task %s) but no committed write corresponds to it", k, es[0].Seq, es[0].Task)})
			continue
		}
		if len(es) > nd.n {
			vs = append(vs, Violation{prop, "exactly-one-event-per-write", fmt.Sprintf("%d events %s for %d committed write(s)", len(es), k, nd.n)})
		}
		for _, e := range es {
			if e.Seq < nd.commitEvent {
				vs = append(vs, Violation{prop, "event-after-commit", fmt.Sprintf("event %s emitted at seq %d, before the commit (seq %d) that made the write durable", k, e.Seq, nd.commitEvent)})
			}
		}
	}
	for _, k := range sortedKeys(needs) {
		nd := needs[k]
		if len(got[k]) < nd.n {
			if crashedTasks[opIDOf(nd.task)] {
				continue
			}
			vs = append(vs, Violation{prop, "exactly-one-event-per-write", fmt.Sprintf("committed write %s (log %d, task %s) has %d event(s), want %d", k, nd.logID, nd.task, len(got[k]), nd.n)})
		}
	}
	return vs
}

// ---- O6: reverts (C15) ----

func CheckReverts(prop string, views map[string]*LedgerView) []Violation {
	var vs []Violation
	for _, name := range sortedKeys(views) {
		v := views[name]
		revertsOf := map[uint64][]*ledger.Transaction{}
		for _, t := range v.Txs {
			if s, ok := t.Metadata["com.formance.spec/state/reverts"]; ok {
				revertsOf[u64(s)] = append(revertsOf[u64(s)], t)
			}
		}
		for id, t := range v.Txs {
			rs := revertsOf[id]
			if t.RevertedAt != nil && len(rs) != 1 {
				vs = append(vs, Violation{prop, "exactly-one-revert-transaction", fmt.Sprintf("ledger %s: tx %d is marked reverted and has %d revert transactions", name, id, len(rs))})
			}
			if t.RevertedAt == nil && len(rs) != 0 {
				vs = append(vs, Violation{prop, "reverted-mark-set", fmt.Sprintf("ledger %s: tx %d has %d revert transaction(s) but is not marked reverted", name, id, len(rs))})
			}
			for _, r := range rs {
				if len(r.Postings) != len(t.Postings) {
					vs = append(vs, Violation{prop, "revert-is-exact-inverse", fmt.Sprintf("ledger %s: revert %d of %d has %d postings, original %d", name, *r.ID, id, len(r.Postings), len(t.Postings))})
					continue
				}
				n := len(t.Postings)
				for i := range t.Postings {
					o, q := t.Postings[n-1-i], r.Postings[i]
					if q.Source != o.Destination || q.Destination != o.Source || q.Asset != o.Asset || q.Amount.Cmp(o.Amount) != 0 {
						vs = append(vs, Violation{prop, "revert-is-exact-inverse", fmt.Sprintf("ledger %s: revert %d posting %d is %v, want inverse of original posting %d %v", name, *r.ID, i, q, n-1-i, o)})
					}
				}
			}
		}
		for id := range revertsOf {
			if v.Txs[id] == nil {
				vs = append(vs, Violation{prop, "revert-targets-existing-transaction", fmt.Sprintf("ledger %s: a transaction reverts unknown tx %d", name, id)})
			}
		}
	}
	return vs
}

// checkRevertDates: "the revert's timestamp is T's timestamp when reverting at the effective date" - judged from the
// request (found through the signature the revert transaction carries), against the stored rows of both transactions.
func checkRevertDates(r *runner, views map[string]*LedgerView) []Violation {
	var vs []Violation
	for _, name := range sortedKeys(views) {
		v := views[name]
		var ids []uint64
		for id := range v.Txs {
			ids = append(ids, id)
		}
		sort.Slice(ids, func(i, j int) bool { return ids[i] < ids[j] })
		for _, id := range ids {
			rt := v.Txs[id]
			s, ok := rt.Metadata["com.formance.spec/state/reverts"]
			if !ok {
				continue
			}
			t := v.Txs[u64(s)]
			op := r.bySig[name+"|"+rt.Metadata[sigKey]]
			if t == nil || op == nil || op.Kind != KRevert || op.API == "v1" || !op.AtEffectiveDate {
				continue
			}
			r.w.probe("revert_at_effective_date_judged")
			if !rt.Timestamp.Time.Equal(t.Timestamp.Time) {
				vs = append(vs, Violation{r.sc.Property, "revert-at-effective-date-takes-the-original-timestamp", fmt.Sprintf("ledger %s: transaction %d reverts %d at its effective date (request %s) and is dated %s; transaction %d is dated %s (inserted %s)", name, id, *t.ID, op.ID,
					rt.Timestamp.Time.Format("2006-01-02T15:04:05.999999Z"), *t.ID, t.Timestamp.Time.Format("2006-01-02T15:04:05.999999Z"), t.InsertedAt.Time.Format("2006-01-02T15:04:05.999999Z"))})
			}
		}
	}
	return vs
}

func jsonEq(a, b []byte) bool {
	var x, y any
	if json.Unmarshal(a, &x) != nil || json.Unmarshal(b, &y) != nil {
		return bytes.Equal(a, b)
	}
	ab, _ := json.Marshal(x)
	bb, _ := json.Marshal(y)
	return bytes.Equal(ab, bb)
}

// importedFrom: is sig the signature of a write of another ledger that some import op fed into ledgerName?
func importedFrom(results []*OpResult, ledgerName, sig string) bool {
	for _, r := range results {
		if r.Op.Kind != KImport || r.Op.Ledger != ledgerName {
			continue
		}
		for _, o := range results {
			if o.Op.Ledger == r.Op.From {
				if o.Op.sig() == sig {
					return true
				}
				for i := range o.Op.Elements {
					if o.Op.Elements[i].sig() == sig {
						return true
					}
				}
			}
		}
	}
	return false
}

func truncatedScriptStream(results []*OpResult) bool {
	for _, r := range results {
		if r.Op.Kind == KBulk && r.Op.ContentType == "script-stream" {
			for _, f := range r.Faults {
				if f.Kind == FBodyTrunc {
					return true
				}
			}
		}
	}
	return false
}
