package sim

// C29: schema enforcement and chart semantics.

import (
	"encoding/json"
	"fmt"
	"regexp"
	"sort"
	"strings"

	ledger "github.com/formancehq/ledger/internal"
)

// chartNode is the generator's own representation of a chart of accounts (independent of /repo's).
type chartNode struct {
	Account  bool                  `json:"account,omitempty"` // an account ends here
	Defaults map[string]string     `json:"defaults,omitempty"`
	Fixed    map[string]*chartNode `json:"fixed,omitempty"`
	VarLabel string                `json:"var_label,omitempty"`
	VarPat   string                `json:"var_pat,omitempty"`
	Var      *chartNode            `json:"var,omitempty"`
}

type schemaSpec struct {
	Version   string                `json:"version"`
	Chart     map[string]*chartNode `json:"chart"`
	Templates map[string]string     `json:"templates,omitempty"` // name -> destination variable script
}

func (n *chartNode) render() map[string]any {
	out := map[string]any{}
	hasKids := len(n.Fixed) > 0 || n.Var != nil
	for k, c := range n.Fixed {
		out[k] = c.render()
	}
	if n.Var != nil {
		v := n.Var.render()
		if n.VarPat != "" {
			v[".pattern"] = n.VarPat
		}
		out["$"+n.VarLabel] = v
	}
	if n.Account && hasKids {
		out[".self"] = map[string]any{}
	}
	if len(n.Defaults) > 0 {
		md := map[string]any{}
		for k, v := range n.Defaults {
			md[k] = map[string]any{"default": v}
		}
		out[".metadata"] = md
	}
	return out
}

func (s *schemaSpec) renderJSON() json.RawMessage {
	chart := map[string]any{}
	for k, n := range s.Chart {
		chart[k] = n.render()
	}
	body := map[string]any{"chart": chart}
	if len(s.Templates) > 0 {
		ts := map[string]any{}
		for name, script := range s.Templates {
			ts[name] = map[string]any{"description": name, "script": script}
		}
		body["transactions"] = ts
	}
	return json.RawMessage(mustJSON(body))
}

// lookup: does the chart declare address as an account, and with which defaults? Written from the
// documented meaning: segments are matched left to right, a fixed segment name takes precedence over the
// variable segment of the same level, a variable segment matches when its pattern (if any) matches, and the
// address is an account only if the node it ends on is one (a leaf, or a node marked .self).
func (s *schemaSpec) lookup(address string) (bool, map[string]string) {
	segs := strings.Split(address, ":")
	fixed := s.Chart
	var varNode *chartNode
	var varPat string
	for i, seg := range segs {
		var next *chartNode
		if f, ok := fixed[seg]; ok {
			next = f
		} else if varNode != nil {
			ok := true
			if varPat != "" {
				ok, _ = regexp.MatchString(varPat, seg)
			}
			if ok {
				next = varNode
			}
		}
		if next == nil {
			return false, nil
		}
		if i == len(segs)-1 {
			isAccount := next.Account || (len(next.Fixed) == 0 && next.Var == nil)
			if !isAccount {
				return false, nil
			}
			return true, next.Defaults
		}
		fixed, varNode, varPat = next.Fixed, next.Var, next.VarPat
	}
	return false, nil
}

var schemaAddresses = []string{"world", "bank", "users:1", "users:42", "users:abc", "users:treasury", "users:treasury:fees", "users:1:main",
	"users:1:other", "orders:7", "orders:7:pending", "orders:x:done", "unknown", "bank:sub", "users"}

func genChart(r *RNG) map[string]*chartNode {
	leaf := func() *chartNode { return &chartNode{} }
	chart := map[string]*chartNode{"world": leaf(), "bank": leaf()}
	users := &chartNode{Fixed: map[string]*chartNode{}}
	uv := &chartNode{Account: true}
	if r.Chance(0.6) {
		uv.Defaults = map[string]string{"tier": Pick(r, []string{"basic", "gold"})}
	}
	if r.Chance(0.5) {
		uv.Fixed = map[string]*chartNode{"main": leaf()}
	}
	users.Var, users.VarLabel = uv, "id"
	users.VarPat = Pick(r, []string{"^[0-9]+$", "", "^[a-z0-9]+$"})
	if r.Chance(0.6) {
		// a fixed pure branch next to the variable segment
		users.Fixed["treasury"] = &chartNode{Fixed: map[string]*chartNode{"fees": leaf()}}
	}
	if r.Chance(0.3) {
		users.Account = true
	}
	chart["users"] = users
	if r.Chance(0.6) {
		ov := &chartNode{Fixed: map[string]*chartNode{"pending": leaf(), "done": leaf()}}
		chart["orders"] = &chartNode{Var: ov, VarLabel: "oid", VarPat: Pick(r, []string{"^[0-9]+$", ""})}
	}
	return chart
}

func init() {
	register(Profile{Property: "C29", Name: "schema", Gen: func(r *RNG, seed uint64, tier string) (*Scenario, *ExploreCfg) {
		sc := &Scenario{Property: "C29", Profile: "schema", Knobs: randomKnobs(r), Checks: []string{"schema", "logs-match-ops", "replay", "schema-defaults"}, Params: map[string]string{}}
		sc.Knobs.Strict = r.Chance(0.65)
		g := &gen{r: r, sc: sc}
		sc.Setup = []Op{{ID: g.id("s"), Kind: KCreateLedger, Ledger: "l1", Feats: ledgerFeatures(sc.Knobs)}}
		// some accounts exist before any schema (their metadata must never be overwritten by defaults)
		if r.Chance(0.6) {
			op := Op{ID: g.id("s"), Kind: KAcctMetaSet, Ledger: "l1", Address: "users:42"}
			op.Metadata = map[string]string{"m." + op.ID: "x", "tier": "custom"}
			sc.Setup = append(sc.Setup, op)
		}
		nSchemas := r.Intn(3)
		var specs []schemaSpec
		mkSchema := func(i int) (Op, schemaSpec) {
			spec := schemaSpec{Version: fmt.Sprintf("s.v%d", i), Chart: genChart(r)}
			if r.Chance(0.3) {
				spec.Templates = map[string]string{"pay": "vars {\n  account $dest\n}\nsend [USD 5] (\n  source = @world\n  destination = $dest\n)\n"}
			}
			return Op{ID: g.id("s"), Kind: KSchema, Ledger: "l1", SchemaVersion: spec.Version, Sig: fmt.Sprintf("v%d", i), Schema: spec.renderJSON()}, spec
		}
		for i := 0; i < nSchemas; i++ {
			op, spec := mkSchema(i)
			sc.Setup = append(sc.Setup, op)
			specs = append(specs, spec)
		}
		nc := 1 + r.Intn(2)
		var late *schemaSpec
		for c := 0; c < nc; c++ {
			n := 2 + r.Intn(4)
			var ops []Op
			for i := 0; i < n; i++ {
				var op Op
				switch x := r.Intn(10); {
				case x < 5:
					src, dst := Pick(r, []string{"world", "world", "bank", "users:1"}), Pick(r, schemaAddresses)
					op = Op{Kind: KPostings, Postings: []PostingSpec{{src, dst, fmt.Sprint(1 + r.Intn(9)), "USD"}}, Force: true}
					if r.Chance(0.3) {
						op.AccountMetadata = map[string]map[string]string{dst: {"explicit": "e"}}
						if r.Chance(0.3) {
							op.AccountMetadata[dst]["tier"] = "explicit"
						}
					}
				case x < 7:
					op = Op{Kind: KScript, Template: "pay", Vars: map[string]any{"dest": Pick(r, schemaAddresses)}}
					if r.Chance(0.2) {
						op.Template = "nope"
					}
				case x < 9:
					op = Op{Kind: KAcctMetaSet, Address: Pick(r, schemaAddresses)}
				default:
					if late == nil && c == 0 {
						so, spec := mkSchema(len(specs))
						late = &spec
						op = so
					} else {
						op = Op{Kind: KAcctMetaSet, Address: "bank"}
					}
				}
				id := fmt.Sprintf("c%d.%d", c, i)
				if op.Kind != KSchema {
					op.ID = id
					op.Ledger = "l1"
					// which version does the request name?
					switch y := r.Intn(10); {
					case y < 6 && len(specs) > 0:
						op.SchemaVersion = Pick(r, specs).Version
					case y < 7:
						op.SchemaVersion = "s.missing"
					}
					if op.Kind == KAcctMetaSet {
						op.Metadata = map[string]string{"m." + op.ID: "v"}
					}
				} else {
					op.ID = id
				}
				ops = append(ops, op)
			}
			sc.Clients = append(sc.Clients, ops)
		}
		if late != nil {
			specs = append(specs, *late)
		}
		b, _ := json.Marshal(specs)
		sc.Params["schemas"] = string(b)
		ex := defaultExplore(seed, 0, 0)
		if r.Chance(0.25) {
			ex = defaultExplore(seed, 0.03, 2, FStmtErr, FConnLost, FDeadlock, FCommitClean)
		}
		return sc, ex
	}})
}

// expectedSchemaCodes: acceptable answers to a write given the set of schema versions visible.
func expectedSchemaCodes(op *Op, strict bool, specs map[string]*schemaSpec, visible map[string]bool) map[string]bool {
	out := map[string]bool{}
	anyVisible := false
	for v := range visible {
		if visible[v] {
			anyVisible = true
		}
	}
	postingsOK := func(s *schemaSpec, ps []PostingSpec) bool {
		for _, p := range ps {
			if ok, _ := s.lookup(p.Source); !ok {
				return false
			}
			if ok, _ := s.lookup(p.Destination); !ok {
				return false
			}
		}
		return true
	}
	isTx := op.Kind == KPostings || op.Kind == KScript
	if op.SchemaVersion != "" {
		if !visible[op.SchemaVersion] {
			out["NOT_FOUND"] = true
			return out
		}
		s := specs[op.SchemaVersion]
		if !isTx {
			out["ok"] = true
			return out
		}
		ps := op.Postings
		if len(s.Templates) > 0 {
			if op.Template == "" {
				if strict {
					out["VALIDATION"] = true
					return out
				}
				// audit mode accepts the violation: the request is executed as submitted
			} else if _, ok := s.Templates[op.Template]; !ok {
				out["VALIDATION"] = true
				return out
			} else {
				dest, _ := op.Vars["dest"].(string)
				ps = []PostingSpec{{"world", dest, "5", "USD"}}
			}
		} else if op.Template != "" {
			out["VALIDATION"] = true
			return out
		}
		if op.Template == "" && op.Kind == KScript {
			out["VALIDATION"] = true // a template call without template name cannot happen in this generator
			return out
		}
		if !strict || postingsOK(s, ps) {
			out["ok"] = true
		} else {
			out["VALIDATION"] = true
		}
		return out
	}
	// no version named
	if anyVisible && strict {
		out["SCHEMA_NOT_SPECIFIED"] = true
		return out
	}
	if op.Template != "" {
		out["VALIDATION"] = true
		return out
	}
	out["ok"] = true
	return out
}

func checkSchema(r *runner, views map[string]*LedgerView, commits []CommitRec) []Violation {
	var vs []Violation
	prop := r.sc.Property
	var list []schemaSpec
	_ = json.Unmarshal([]byte(r.sc.Params["schemas"]), &list)
	specs := map[string]*schemaSpec{}
	for i := range list {
		specs[list[i].Version] = &list[i]
	}
	// when did each schema version become visible (commit event)?
	visibleAt := map[string]uint64{}
	for _, c := range commits {
		for _, w := range c.Writes {
			if w.Key.Table == "schema" && w.Before == nil {
				visibleAt[w.Key.Key] = c.Event
			}
		}
	}
	strict := r.sc.Knobs.Strict
	for _, or := range r.results {
		op := or.Op
		if or.Phase != "main" || !op.IsWrite() || op.Kind == KSchema || uncertain(or) || len(or.Faults) > 0 {
			continue
		}
		got := or.Out.Code
		if or.Out.Class == "ok" {
			got = "ok"
		}
		// the schema set at invocation and at return (a schema inserted concurrently may or may not be seen)
		accept := map[string]bool{}
		for _, at := range []uint64{or.Out.Invoke, or.Out.Return} {
			vis := map[string]bool{}
			for v, ev := range visibleAt {
				if ev <= at {
					vis[v] = true
				}
			}
			for c := range expectedSchemaCodes(op, strict, specs, vis) {
				accept[c] = true
			}
		}
		if !accept[got] {
			mode := "audit"
			if strict {
				mode = "strict"
			}
			vs = append(vs, Violation{prop, "enforcement-answer", fmt.Sprintf("%s (%s, schemaVersion=%q, template=%q, mode=%s) answered %s %s; expected one of %v", op.ID, opBrief(op), op.SchemaVersion, op.Template, mode, got, or.Out.Msg, sortedKeys(accept))})
		}
	}
	// default metadata: replay the committed logs with the generator's own chart matcher
	v := views["l1"]
	if v == nil {
		return vs
	}
	want := map[string]map[string]string{}
	exists := map[string]bool{}
	for _, lr := range v.Logs {
		p, err := ledger.HydrateLog(lr.Type, lr.DataJSON)
		if err != nil {
			continue
		}
		var spec *schemaSpec
		if lr.SchemaVersion != "" {
			spec = specs[lr.SchemaVersion]
		}
		create := func(a string, explicit map[string]string) {
			if !exists[a] {
				exists[a] = true
				want[a] = map[string]string{}
				if spec != nil {
					if ok, d := spec.lookup(a); ok {
						for k, val := range d {
							want[a][k] = val
						}
					}
				}
			}
			for k, val := range explicit {
				want[a][k] = val
			}
		}
		switch pl := p.(type) {
		case ledger.CreatedTransaction:
			involved := map[string]bool{}
			for _, po := range pl.Transaction.Postings {
				involved[po.Source], involved[po.Destination] = true, true
			}
			for a := range pl.AccountMetadata {
				involved[a] = true
			}
			accts := make([]string, 0, len(involved))
			for a := range involved {
				accts = append(accts, a)
			}
			sort.Strings(accts)
			for _, a := range accts {
				create(a, pl.AccountMetadata[a])
			}
		case ledger.RevertedTransaction:
			for _, po := range pl.RevertTransaction.Postings {
				create(po.Source, nil)
				create(po.Destination, nil)
			}
		case ledger.SavedMetadata:
			if a, ok := pl.TargetID.(string); ok {
				create(a, pl.Metadata)
			}
		case ledger.DeletedMetadata:
			if a, ok := pl.TargetID.(string); ok && want[a] != nil {
				delete(want[a], pl.Key)
			}
		}
	}
	for _, a := range sortedKeys(want) {
		row := v.Accts[a]
		if row == nil {
			continue // reported by the replay oracle
		}
		if !metaEq(want[a], row.Metadata) {
			vs = append(vs, Violation{prop, "chart-defaults-on-first-creation-only", fmt.Sprintf("account %s: stored metadata %v, expected %v (chart defaults apply when the account is first created and never overwrite existing values)", a, row.Metadata, want[a])})
		}
	}
	return vs
}

func opBrief(op *Op) string {
	switch op.Kind {
	case KPostings:
		return fmt.Sprintf("postings %v", op.Postings)
	case KScript:
		return fmt.Sprintf("template call vars=%v", op.Vars)
	case KAcctMetaSet:
		return "account metadata on " + op.Address
	}
	return op.Kind
}
