package sim

// sqlmini: statement execution over simpg rows.
//
// Execution model (the store contract of DESIGN.md section 4, now driven by the statement text):
//   - one statement = one simpg statement (Session.stmt). Writes are buffered in an overlay and flushed
//     only when the whole statement has finished, so a statement that has to wait for a lock is simply
//     re-executed from scratch when the lock is free (READ COMMITTED: it then sees the latest committed
//     version of the rows it waited for). Row locks already taken are kept while waiting.
//   - INSERT locks the primary key and every applicable unique key of each new row (a concurrent inserter
//     of the same key waits for the first one's outcome), then applies ON CONFLICT or fails with 23505 and
//     the constraint name of the migrations.
//   - UPDATE and SELECT ... FOR UPDATE lock the rows their WHERE selects; plain SELECT locks nothing.
//   - sequences are non-transactional; a value drawn by a statement that waits is kept for its re-execution.
//   - data-modifying CTEs run in order before the main statement, which sees their effects (the one place
//     where PostgreSQL is subtler - see the note after S14 in DESIGN.md - is decided as the contract says).

import (
	"database/sql/driver"
	"errors"
	"fmt"
	"sort"
	"strings"
)

type relRow struct {
	vals []Val
	src  *rowKey // base table row this row comes from (for locking), nil for derived rows
}

type relation struct {
	name  string // alias / table name used for qualification
	table string
	cols  []string
	rows  []relRow
	def   *tableDef
}

// stmtState survives re-executions of one statement (lock waits).
type stmtState struct {
	seqVals []int64
	// the ledger the statement is executed for ("" = unknown: system statements), its task and text
	ledger, task, query string
	foreignSeen         map[string]bool
}

// auditRows: every base-table row a statement matched must belong to the ledger it is executed for.
func (x *sqlExec) auditRows(keys []*rowKey) {
	st := x.st
	if st == nil || st.ledger == "" {
		return
	}
	for _, k := range keys {
		if k == nil || k.Ledger == "" || k.Ledger == st.ledger {
			continue
		}
		id := k.Table + "\x00" + k.Ledger
		if st.foreignSeen[id] {
			continue
		}
		if st.foreignSeen == nil {
			st.foreignSeen = map[string]bool{}
		}
		st.foreignSeen[id] = true
		q := st.query
		if len(q) > 600 {
			q = q[:600] + "..."
		}
		f := ForeignRow{Task: st.task, Ledger: st.ledger, RowLedger: k.Ledger, Table: k.Table, Key: k.Key, SQL: q}
		x.w.mu.Lock()
		x.w.foreign = append(x.w.foreign, f)
		x.w.mu.Unlock()
	}
}

type sqlExec struct {
	w       *World
	sess    *Session
	schema  string
	overlay map[rowKey]any
	ctes    map[string]*relation
	st      *stmtState
	// pending: the rows of the INSERT being executed that were built (BEFORE triggers run) but are not stored yet.
	// PostgreSQL inserts row by row, so a BEFORE ROW trigger sees the rows of the same statement processed before
	// it; the interpreter builds all rows first, and lets triggers look here for those earlier rows.
	pending [][]Val
	seqUsed int
	probes  []string
	taint   string
}

func (x *sqlExec) get(k rowKey) any {
	if v, ok := x.overlay[k]; ok {
		if _, del := v.(tombstone); del {
			return nil
		}
		return v
	}
	return x.sess.get(k)
}

func (x *sqlExec) put(k rowKey, v any) { x.overlay[k] = v }

func (x *sqlExec) flush() {
	keys := make([]rowKey, 0, len(x.overlay))
	for k := range x.overlay {
		keys = append(keys, k)
	}
	sort.Slice(keys, func(i, j int) bool { return keys[i].String() < keys[j].String() })
	for _, k := range keys {
		x.sess.put(k, x.overlay[k])
	}
}

func (x *sqlExec) nextval(name string) (Val, error) {
	if x.seqUsed < len(x.st.seqVals) {
		v := x.st.seqVals[x.seqUsed]
		x.seqUsed++
		return bigFromInt(v), nil
	}
	if _, ok := x.sess.db.seqs[name]; !ok {
		return nil, pgErr("42P01", "relation "+name+" does not exist", "")
	}
	v := x.sess.db.nextvalLocked(name)
	x.st.seqVals = append(x.st.seqVals, v)
	x.seqUsed++
	return bigFromInt(v), nil
}

// ledgersOfSchema: names of the ledgers living in bucket (schema) name, sorted.
func (x *sqlExec) ledgersOfSchema(schema string) []string {
	var out []string
	for _, k := range x.sess.scan("ledger", "") {
		if r, ok := x.sess.get(k).(*LedgerRow); ok && r.Bucket == schema {
			out = append(out, r.Name)
		}
	}
	sort.Strings(out)
	return out
}

func (x *sqlExec) ledgerRow(name string) *LedgerRow {
	r, _ := x.sess.get(rowKey{"ledger", "", name}).(*LedgerRow)
	return r
}

// scanTable returns every visible row of a bucket table, all ledgers of the bucket, sorted by key.
func (x *sqlExec) scanTable(def *tableDef, schema string) []rowKey {
	set := map[rowKey]bool{}
	if def.system {
		for _, k := range x.sess.scan(def.simTable, "") {
			set[k] = true
		}
	}
	for _, l := range x.ledgersOfSchema(schema) {
		if def.system {
			break
		}
		for _, k := range x.sess.scan(def.simTable, l) {
			set[k] = true
		}
	}
	for k, v := range x.overlay {
		if k.Table != def.simTable {
			continue
		}
		if _, del := v.(tombstone); del {
			delete(set, k)
		} else if def.system {
			set[k] = true
		} else if lr := x.ledgerRow(k.Ledger); lr != nil && lr.Bucket == schema {
			set[k] = true
		}
	}
	out := make([]rowKey, 0, len(set))
	for k := range set {
		out = append(out, k)
	}
	sort.Slice(out, func(i, j int) bool { return out[i].String() < out[j].String() })
	return out
}

func (x *sqlExec) baseRelation(ref *tableRef) (*relation, error) {
	def := tableDefs[ref.name]
	if def == nil || def.system != (ref.schema == "_system") {
		return nil, unsupported("table %q.%q", ref.schema, ref.name)
	}
	schema := ref.schema
	if schema == "" {
		return nil, unsupported("unqualified table %q", ref.name)
	}
	if !def.system && len(x.ledgersOfSchema(schema)) == 0 {
		return nil, pgErr("42P01", fmt.Sprintf("relation %q.%s does not exist", schema, ref.name), "")
	}
	if x.schema == "" {
		x.schema = schema
	}
	rel := &relation{name: ref.name, table: ref.name, cols: def.colNames(), def: def}
	if ref.alias != "" {
		rel.name = ref.alias
	}
	for _, k := range x.scanTable(def, schema) {
		kk := k
		vals, err := def.toVals(k, x.get(k))
		if err != nil {
			return nil, err
		}
		rel.rows = append(rel.rows, relRow{vals: vals, src: &kk})
	}
	return rel, nil
}

func (x *sqlExec) relationOf(ref *tableRef, outer *scope) (*relation, error) {
	if ref.sub != nil {
		r, err := x.runSelect(ref.sub, outer)
		if err != nil {
			return nil, err
		}
		cp := *r
		cp.name = ref.alias
		cp.table = ref.alias
		return &cp, nil
	}
	if ref.schema == "" {
		if c, ok := x.ctes[ref.name]; ok {
			cp := *c
			cp.name = ref.name
			cp.table = ref.name
			if ref.alias != "" {
				cp.name = ref.alias
			}
			return &cp, nil
		}
	}
	return x.baseRelation(ref)
}

func bindingOf(rel *relation, row relRow) *binding {
	return &binding{alias: rel.name, table: rel.table, cols: rel.cols, vals: row.vals}
}

// ---------- statements ----------

func (x *sqlExec) runStatement(stmt any, outer *scope) (*relation, int64, error) {
	var with []cteDef
	switch s := stmt.(type) {
	case *selectStmt:
		with = s.with
	case *insertStmt:
		with = s.with
	case *updateStmt:
		with = s.with
	case *deleteStmt:
		with = s.with
	}
	for _, c := range with {
		r, _, err := x.runStatement(c.stmt, outer)
		if err != nil {
			return nil, 0, err
		}
		if r == nil {
			r = &relation{}
		}
		cp := *r
		if len(c.cols) > 0 {
			if len(c.cols) != len(cp.cols) {
				return nil, 0, pgErr("42P10", "WITH query has a different number of columns than its column list", "")
			}
			cp.cols = c.cols
		}
		cp.name, cp.table, cp.def = c.name, c.name, nil
		// rows of a CTE are derived rows: no base row to lock
		rows := make([]relRow, len(cp.rows))
		for i, rr := range cp.rows {
			rows[i] = relRow{vals: rr.vals}
		}
		cp.rows = rows
		x.ctes[c.name] = &cp
	}
	switch s := stmt.(type) {
	case *selectStmt:
		r, err := x.runSelectNoWith(s, outer)
		if err != nil {
			return nil, 0, err
		}
		return r, int64(len(r.rows)), nil
	case *insertStmt:
		return x.runInsert(s, outer)
	case *updateStmt:
		return x.runUpdate(s, outer)
	case *deleteStmt:
		return x.runDelete(s, outer)
	}
	return nil, 0, unsupported("statement %T", stmt)
}

func (x *sqlExec) runSelect(s *selectStmt, outer *scope) (*relation, error) {
	if len(s.with) > 0 {
		r, _, err := x.runStatement(s, outer)
		return r, err
	}
	return x.runSelectNoWith(s, outer)
}

func (x *sqlExec) runSelectNoWith(s *selectStmt, outer *scope) (*relation, error) {
	first, err := x.runSelectCore(s, outer)
	if err != nil {
		return nil, err
	}
	for _, u := range s.unionAll {
		r, err := x.runSelect(u, outer)
		if err != nil {
			return nil, err
		}
		if len(r.cols) != len(first.cols) {
			return nil, pgErr("42601", "each UNION query must have the same number of columns", "")
		}
		for _, row := range r.rows {
			first.rows = append(first.rows, relRow{vals: row.vals})
		}
	}
	return first, nil
}

type joinedRow struct {
	binds []*binding
	srcs  []*rowKey
	win   map[*eWindow]Val // window-function values of the select list for this row
}

// computeWindows evaluates the window functions of the select list over the filtered rows (before DISTINCT ON,
// ORDER BY and LIMIT, as SQL does): first_value(arg) over (partition by ... order by ...).
func (x *sqlExec) computeWindows(s *selectStmt, rows []joinedRow, outer *scope) error {
	var wins []*eWindow
	for _, it := range s.cols {
		windowsOf(it.e, &wins)
	}
	if len(wins) == 0 {
		return nil
	}
	for i := range rows {
		rows[i].win = map[*eWindow]Val{}
	}
	for _, w := range wins {
		parts := map[string][]int{}
		var order []string
		for i, r := range rows {
			var key []string
			for _, e := range w.partition {
				v, err := x.eval(e, &scope{binds: r.binds, outer: outer})
				if err != nil {
					return err
				}
				key = append(key, fmt.Sprintf("%T:%v", v, driverValue(v)))
			}
			k := strings.Join(key, "\x00")
			if _, ok := parts[k]; !ok {
				order = append(order, k)
			}
			parts[k] = append(parts[k], i)
		}
		for _, k := range order {
			idx := parts[k]
			keys := make([][]Val, len(idx))
			for j, i := range idx {
				for _, o := range w.order {
					v, err := x.eval(o.e, &scope{binds: rows[i].binds, outer: outer})
					if err != nil {
						return err
					}
					keys[j] = append(keys[j], v)
				}
			}
			best := 0
			var cmpErr error
			less := func(a, b int) bool { // is position a before position b in the window order
				for oi, o := range w.order {
					va, vb := keys[a][oi], keys[b][oi]
					var c int
					switch {
					case va == nil && vb == nil:
						c = 0
					case va == nil:
						c = 1
					case vb == nil:
						c = -1
					default:
						var err error
						c, err = compareVals(va, vb)
						if err != nil {
							cmpErr = err
						}
					}
					if o.desc {
						c = -c
					}
					if c != 0 {
						return c < 0
					}
				}
				return false
			}
			for j := 1; j < len(idx); j++ {
				if less(j, best) {
					best = j
				}
			}
			if cmpErr != nil {
				return cmpErr
			}
			v, err := x.eval(w.arg, &scope{binds: rows[idx[best]].binds, outer: outer})
			if err != nil {
				return err
			}
			for _, i := range idx {
				rows[i].win[w] = v
			}
		}
	}
	return nil
}

func (x *sqlExec) runSelectCore(s *selectStmt, outer *scope) (*relation, error) {
	if s.values != nil {
		out := &relation{}
		for i, row := range s.values {
			var vals []Val
			for _, e := range row {
				v, err := x.eval(e, outer)
				if err != nil {
					return nil, err
				}
				vals = append(vals, v)
			}
			if i == 0 {
				for j := range vals {
					out.cols = append(out.cols, fmt.Sprintf("column%d", j+1))
				}
			} else if len(vals) != len(out.cols) {
				return nil, pgErr("42601", "VALUES lists must all be the same length", "")
			}
			out.rows = append(out.rows, relRow{vals: vals})
		}
		return out, nil
	}
	var rows []joinedRow
	if s.from == nil {
		rows = []joinedRow{{}}
	} else {
		rel, err := x.relationOf(s.from, outer)
		if err != nil {
			return nil, err
		}
		for _, r := range rel.rows {
			rows = append(rows, joinedRow{binds: []*binding{bindingOf(rel, r)}, srcs: []*rowKey{r.src}})
		}
		for _, j := range s.joins {
			jr, err := x.relationOf(j.ref, outer)
			if err != nil {
				return nil, err
			}
			var next []joinedRow
			for _, l := range rows {
				matched := false
				for _, r := range jr.rows {
					cand := joinedRow{binds: append(append([]*binding{}, l.binds...), bindingOf(jr, r)), srcs: append(append([]*rowKey{}, l.srcs...), r.src)}
					ok, err := x.eval(j.on, &scope{binds: cand.binds, outer: outer})
					if err != nil {
						return nil, err
					}
					if isTrue(ok) {
						next = append(next, cand)
						matched = true
					}
				}
				if j.left && !matched {
					// LEFT JOIN: the left row survives with NULLs on the right
					nulls := &binding{alias: jr.name, table: jr.table, cols: jr.cols, vals: make([]Val, len(jr.cols))}
					next = append(next, joinedRow{binds: append(append([]*binding{}, l.binds...), nulls), srcs: append(append([]*rowKey{}, l.srcs...), nil)})
				}
			}
			rows = next
		}
	}
	if s.where != nil {
		var kept []joinedRow
		for _, r := range rows {
			ok, err := x.eval(s.where, &scope{binds: r.binds, outer: outer})
			if err != nil {
				return nil, err
			}
			if isTrue(ok) {
				kept = append(kept, r)
			}
		}
		rows = kept
	}
	for _, r := range rows {
		x.auditRows(r.srcs)
	}
	if err := x.computeWindows(s, rows, outer); err != nil {
		return nil, err
	}
	grouped := len(s.groupBy) > 0
	if !grouped {
		for _, it := range s.cols {
			if _, star := it.e.(*eStar); !star && hasAggregate(it.e) {
				grouped = true
			}
		}
	}
	if grouped {
		return x.runGrouped(s, rows, outer)
	}
	if len(s.order) > 0 {
		type keyed struct {
			r    joinedRow
			keys []Val
		}
		ks := make([]keyed, len(rows))
		for i, r := range rows {
			ks[i].r = r
			for _, o := range s.order {
				v, err := x.eval(o.e, &scope{binds: r.binds, outer: outer})
				if err != nil {
					return nil, err
				}
				ks[i].keys = append(ks[i].keys, v)
			}
		}
		var sortErr error
		sort.SliceStable(ks, func(a, b int) bool {
			for i, o := range s.order {
				va, vb := ks[a].keys[i], ks[b].keys[i]
				var c int
				switch {
				case va == nil && vb == nil:
					c = 0
				case va == nil:
					c = 1 // NULLS LAST for ASC (PostgreSQL default)
				case vb == nil:
					c = -1
				default:
					var err error
					c, err = compareVals(va, vb)
					if err != nil {
						sortErr = err
					}
				}
				if o.desc {
					c = -c
				}
				if c != 0 {
					return c < 0
				}
			}
			return false
		})
		if sortErr != nil {
			return nil, sortErr
		}
		for i := range ks {
			rows[i] = ks[i].r
		}
	}
	if len(s.distinctOn) > 0 {
		// DISTINCT ON (...): the first row of each set of rows equal on the expressions, in the ORDER BY order
		seen := map[string]bool{}
		var kept []joinedRow
		for _, r := range rows {
			var key []string
			for _, e := range s.distinctOn {
				v, err := x.eval(e, &scope{binds: r.binds, outer: outer})
				if err != nil {
					return nil, err
				}
				key = append(key, fmt.Sprintf("%T:%v", v, driverValue(v)))
			}
			k := strings.Join(key, "\x00")
			if !seen[k] {
				seen[k] = true
				kept = append(kept, r)
			}
		}
		rows = kept
	}
	if s.offset > 0 {
		if s.offset >= len(rows) {
			rows = nil
		} else {
			rows = rows[s.offset:]
		}
	}
	if s.limit != nil && len(rows) > *s.limit {
		rows = rows[:*s.limit]
	}
	if s.forUpdate {
		var keys []rowKey
		for _, r := range rows {
			for _, k := range r.srcs {
				if k != nil {
					keys = append(keys, *k)
				}
			}
		}
		if err := x.lockAll(keys); err != nil {
			return nil, err
		}
	}
	// the one aggregate supported: SELECT count(*) FROM ... [WHERE ...]
	if len(s.cols) == 1 {
		if f, ok := s.cols[0].e.(*eFunc); ok && f.name == "count" && len(f.args) == 1 {
			if _, star := f.args[0].(*eStar); star {
				name := "count"
				if s.cols[0].alias != "" {
					name = s.cols[0].alias
				}
				return &relation{cols: []string{name}, rows: []relRow{{vals: []Val{bigFromInt(int64(len(rows)))}}}}, nil
			}
		}
		// SELECT bool_or(<expr>) / bool_and(<expr>) FROM ... : one row, NULL over no (non-null) input
		if f, ok := s.cols[0].e.(*eFunc); ok && (f.name == "bool_or" || f.name == "bool_and") && len(f.args) == 1 {
			var acc Val
			for _, r := range rows {
				v, err := x.eval(f.args[0], &scope{binds: r.binds, outer: outer})
				if err != nil {
					return nil, err
				}
				b, isBool := v.(bool)
				if v == nil {
					continue
				}
				if !isBool {
					return nil, unsupported("bool aggregate over a non-boolean")
				}
				if acc == nil {
					acc = b
				} else if f.name == "bool_or" {
					acc = acc.(bool) || b
				} else {
					acc = acc.(bool) && b
				}
			}
			name := f.name
			if s.cols[0].alias != "" {
				name = s.cols[0].alias
			}
			return &relation{cols: []string{name}, rows: []relRow{{vals: []Val{acc}}}}, nil
		}
	}
	// projection
	out := &relation{}
	for ri, r := range rows {
		var vals []Val
		var cols []string
		sc := &scope{binds: r.binds, outer: outer, win: r.win}
		if sc.win == nil {
			sc.win = map[*eWindow]Val{}
		}
		for _, it := range s.cols {
			if st, ok := it.e.(*eStar); ok {
				matched := false
				for _, b := range r.binds {
					if st.qual != "" && b.alias != st.qual && b.table != st.qual {
						continue
					}
					matched = true
					cols = append(cols, b.cols...)
					vals = append(vals, b.vals...)
				}
				if !matched && st.qual != "" {
					return nil, pgErr("42P01", "missing FROM-clause entry for table "+st.qual, "")
				}
				continue
			}
			v, err := x.eval(it.e, sc)
			if err != nil {
				return nil, err
			}
			vals = append(vals, v)
			cols = append(cols, outputName(it))
		}
		if ri == 0 {
			out.cols = cols
		}
		var src *rowKey
		if len(r.srcs) == 1 {
			src = r.srcs[0]
		}
		out.rows = append(out.rows, relRow{vals: vals, src: src})
	}
	if len(rows) == 0 {
		// column names of an empty result
		cols, err := x.staticCols(s, outer)
		if err != nil {
			return nil, err
		}
		out.cols = cols
	}
	return out, nil
}

func outputName(it selItem) string {
	if it.alias != "" {
		return it.alias
	}
	switch e := it.e.(type) {
	case *eCol:
		return e.name
	case *eFunc:
		return e.name
	case *eCast:
		return outputName(selItem{e: e.x})
	case *eCase:
		return "case"
	}
	return "?column?"
}

// staticCols computes the output column names of a select that returned no row.
func (x *sqlExec) staticCols(s *selectStmt, outer *scope) ([]string, error) {
	var binds []*binding
	if s.from != nil {
		rel, err := x.relationOf(s.from, outer)
		if err != nil {
			return nil, err
		}
		binds = append(binds, &binding{alias: rel.name, table: rel.table, cols: rel.cols})
		for _, j := range s.joins {
			jr, err := x.relationOf(j.ref, outer)
			if err != nil {
				return nil, err
			}
			binds = append(binds, &binding{alias: jr.name, table: jr.table, cols: jr.cols})
		}
	}
	var cols []string
	for _, it := range s.cols {
		if st, ok := it.e.(*eStar); ok {
			for _, b := range binds {
				if st.qual != "" && b.alias != st.qual && b.table != st.qual {
					continue
				}
				cols = append(cols, b.cols...)
			}
			continue
		}
		cols = append(cols, outputName(it))
	}
	return cols, nil
}

func (x *sqlExec) lockAll(keys []rowKey) error {
	sort.Slice(keys, func(i, j int) bool { return keys[i].String() < keys[j].String() })
	for _, k := range keys {
		if err := x.sess.lockRow(k); err != nil {
			if wb, ok := err.(*wouldBlock); ok && wb.row != nil {
				x.probes = append(x.probes, "sql_wait:"+wb.row.Table)
			}
			return err
		}
	}
	return nil
}

func (x *sqlExec) project(items []selItem, sc *scope, target *binding) ([]string, []Val, error) {
	var cols []string
	var vals []Val
	for _, it := range items {
		if st, ok := it.e.(*eStar); ok {
			if st.qual == "" || st.qual == target.alias || st.qual == target.table {
				cols = append(cols, target.cols...)
				vals = append(vals, target.vals...)
				continue
			}
			return nil, nil, unsupported("RETURNING %s.*", st.qual)
		}
		v, err := x.eval(it.e, sc)
		if err != nil {
			return nil, nil, err
		}
		cols = append(cols, outputName(it))
		vals = append(vals, v)
	}
	return cols, vals, nil
}

func (x *sqlExec) returningCols(items []selItem, def *tableDef) []string {
	var cols []string
	for _, it := range items {
		if _, ok := it.e.(*eStar); ok {
			cols = append(cols, def.colNames()...)
			continue
		}
		cols = append(cols, outputName(it))
	}
	return cols
}

// ---------- INSERT ----------

func (x *sqlExec) runInsert(s *insertStmt, outer *scope) (*relation, int64, error) {
	def := tableDefs[s.table.name]
	if def == nil || def.system != (s.table.schema == "_system") {
		return nil, 0, unsupported("table %q.%q", s.table.schema, s.table.name)
	}
	if s.table.schema == "" {
		return nil, 0, unsupported("unqualified table %q", s.table.name)
	}
	if !def.system && len(x.ledgersOfSchema(s.table.schema)) == 0 {
		return nil, 0, pgErr("42P01", fmt.Sprintf("relation %q.%s does not exist", s.table.schema, s.table.name), "")
	}
	if x.schema == "" {
		x.schema = s.table.schema
	}
	for _, c := range s.cols {
		if def.col(c) == nil {
			return nil, 0, pgErr("42703", fmt.Sprintf("column %q of relation %q does not exist", c, s.table.name), "")
		}
	}
	// source rows
	var src [][]Val // nil entry = DEFAULT
	type defMark struct{}
	if s.sel != nil {
		r, err := x.runSelect(s.sel, outer)
		if err != nil {
			return nil, 0, err
		}
		if len(r.cols) != len(s.cols) {
			return nil, 0, pgErr("42601", "INSERT has more target columns than expressions", "")
		}
		for _, row := range r.rows {
			src = append(src, row.vals)
		}
	} else {
		for _, row := range s.values {
			if len(row) != len(s.cols) {
				return nil, 0, pgErr("42601", "INSERT has more target columns than expressions", "")
			}
			vals := make([]Val, len(row))
			for i, e := range row {
				if _, isDef := e.(*eDefault); isDef {
					vals[i] = defMark{}
					continue
				}
				v, err := x.eval(e, outer)
				if err != nil {
					return nil, 0, err
				}
				vals[i] = v
			}
			src = append(src, vals)
		}
	}
	// build full rows (defaults, coercion)
	type newRow struct {
		vals []Val
		key  rowKey
		uniq []uniqKey
	}
	var rows []newRow
	names := def.colNames()
	x.pending = nil
	defer func() { x.pending = nil }()
	for _, sv := range src {
		given := map[string]Val{}
		for i, c := range s.cols {
			given[c] = sv[i]
		}
		vals := make([]Val, len(names))
		for i, c := range def.cols {
			v, ok := given[c.name]
			if _, isDef := v.(defMark); !ok || isDef {
				if c.def != nil {
					dv, err := c.def(x)
					if err != nil {
						return nil, 0, err
					}
					v = dv
				} else {
					v = nil
				}
			}
			cv, err := coerce(v, c.typ)
			if err != nil {
				return nil, 0, err
			}
			vals[i] = cv
		}
		nr := newRow{vals: vals}
		if def.beforeInsert != nil {
			if err := def.beforeInsert(x, def, nr.vals); err != nil {
				return nil, 0, err
			}
		}
		for i, c := range def.cols {
			if c.notNull && nr.vals[i] == nil {
				return nil, 0, pgErr("23502", fmt.Sprintf("null value in column %q of relation %q violates not-null constraint", c.name, s.table.name), "")
			}
		}
		k, err := def.keyOf(nr.vals)
		if err != nil {
			return nil, 0, err
		}
		if lr := x.ledgerRow(k.Ledger); !def.system && (lr == nil || lr.Bucket != s.table.schema) {
			// a row for a ledger that does not live in this bucket: the real table would accept it; the
			// simulation has no place to keep it
			return nil, 0, unsupported("insert of a row of ledger %q into bucket %q", k.Ledger, s.table.schema)
		}
		nr.key = k
		nr.uniq = def.uniqKeys(nr.vals, k)
		rows = append(rows, nr)
		x.pending = append(x.pending, nr.vals)
	}
	// ON CONFLICT target must name a unique constraint
	var arbiter *uniqDef
	if s.conflict != nil && len(s.conflict.target) > 0 {
		arbiter = def.uniqByCols(s.conflict.target)
		if arbiter == nil {
			return nil, 0, pgErr("42P10", "there is no unique or exclusion constraint matching the ON CONFLICT specification", "")
		}
	}
	// lock phase, row by row in the order of the VALUES list / the SELECT: PostgreSQL inserts (and, on a
	// conflict under DO UPDATE, locks the existing row of) one proposed row after the other. Taking the free
	// keys of the whole statement first made two writers that sort their rows the same way - as the repository
	// does, precisely to stay deadlock-free - close a wait-for cycle no server would see (false alarm of the
	// thorough tier, C25 seed 18: DESIGN 15.24).
	for _, r := range rows {
		if x.get(r.key) != nil && s.conflict != nil && !s.conflict.doNothing {
			if err := x.sess.lockRow(r.key); err != nil {
				return nil, 0, err
			}
		}
		lockKeys := []rowKey{r.key}
		for _, u := range r.uniq {
			if u.aux != r.key {
				lockKeys = append(lockKeys, u.aux)
			}
		}
		if err := x.lockAllInsert(lockKeys, def); err != nil {
			return nil, 0, err
		}
	}
	// apply phase
	out := &relation{cols: x.returningCols(s.returning, def)}
	tname := s.table.name
	if s.table.alias != "" {
		tname = s.table.alias
	}
	var affected int64
	for _, r := range rows {
		// which constraint conflicts?
		var conflict *uniqKey
		for i := range r.uniq {
			u := &r.uniq[i]
			if x.get(u.aux) != nil {
				conflict = u
				break
			}
		}
		var final []Val
		if conflict != nil {
			x.probes = append(x.probes, "sql_conflict:"+conflict.def.name)
			if s.conflict == nil || (arbiter != nil && arbiter != conflict.def) {
				return nil, 0, pgErr("23505", fmt.Sprintf("duplicate key value violates unique constraint %q", conflict.def.name), conflict.def.name)
			}
			if s.conflict.doNothing {
				continue
			}
			// DO UPDATE on the existing row
			exKey := conflict.rowKeyOf(x)
			if exKey == nil {
				return nil, 0, unsupported("conflicting row not found through %s", conflict.def.name)
			}
			if err := x.sess.lockRow(*exKey); err != nil {
				return nil, 0, err
			}
			exVals, err := def.toVals(*exKey, x.get(*exKey))
			if err != nil {
				return nil, 0, err
			}
			target := &binding{alias: tname, table: s.table.name, cols: names, vals: exVals}
			excl := &binding{alias: "excluded", table: "excluded", cols: names, vals: r.vals}
			sc := &scope{binds: []*binding{target, excl}, outer: outer}
			if s.conflict.where != nil {
				ok, err := x.eval(s.conflict.where, sc)
				if err != nil {
					return nil, 0, err
				}
				if !isTrue(ok) {
					continue
				}
			}
			nv := append([]Val{}, exVals...)
			for _, a := range s.conflict.set {
				ci := def.colIndex(a.col)
				if ci < 0 {
					return nil, 0, pgErr("42703", fmt.Sprintf("column %q of relation %q does not exist", a.col, s.table.name), "")
				}
				v, err := x.eval(a.e, sc)
				if err != nil {
					return nil, 0, err
				}
				cv, err := coerce(v, def.cols[ci].typ)
				if err != nil {
					return nil, 0, err
				}
				nv[ci] = cv
			}
			if err := x.storeRow(def, *exKey, exVals, nv); err != nil {
				return nil, 0, err
			}
			if def.afterUpdate != nil {
				if err := def.afterUpdate(x, def, exVals, nv); err != nil {
					return nil, 0, err
				}
			}
			final = nv
		} else {
			if err := x.storeRow(def, r.key, nil, r.vals); err != nil {
				return nil, 0, err
			}
			if def.afterInsert != nil {
				if err := def.afterInsert(x, def, r.vals); err != nil {
					return nil, 0, err
				}
			}
			final = r.vals
		}
		affected++
		if s.returning != nil {
			target := &binding{alias: tname, table: s.table.name, cols: names, vals: final}
			_, vals, err := x.project(s.returning, &scope{binds: []*binding{target}, outer: outer}, target)
			if err != nil {
				return nil, 0, err
			}
			out.rows = append(out.rows, relRow{vals: vals})
		}
	}
	if s.returning == nil {
		return nil, affected, nil
	}
	return out, affected, nil
}

func (x *sqlExec) lockAllInsert(keys []rowKey, def *tableDef) error {
	for _, k := range keys {
		if x.get(k) != nil {
			// the key already exists (committed, or written by this transaction): the conflict is dealt with
			// in the apply phase; an INSERT does not lock an existing row (ON CONFLICT DO UPDATE locks it there)
			continue
		}
		// free key: take it; key held by a concurrent, uncommitted inserter: wait for its outcome
		if err := x.sess.lockRow(k); err != nil {
			if _, ok := err.(*wouldBlock); ok {
				x.probes = append(x.probes, "sql_uniq_wait:"+k.Table)
			}
			return err
		}
	}
	return nil
}

// storeRow writes a row (and maintains the auxiliary unique-key entries).
func (x *sqlExec) storeRow(def *tableDef, k rowKey, oldVals, newVals []Val) error {
	nk, err := def.keyOf(newVals)
	if err != nil {
		return err
	}
	if nk != k {
		return unsupported("update of a key column of %s", def.name)
	}
	row, err := def.fromVals(k, newVals, x.get(k))
	if err != nil {
		var ur *errUnrepresentable
		if errors.As(err, &ur) {
			// PostgreSQL stores the row; simpg cannot. The statement goes on with the values it computed (the
			// caller sees them through RETURNING exactly as it would), the typed row is left as it was, and the
			// transaction is tainted: should it commit, the run is inconclusive.
			x.taint = ur.msg + " in " + def.name
			return nil
		}
		return err
	}
	if oldVals != nil {
		for _, u := range def.uniqKeys(oldVals, k) {
			if u.aux != k {
				x.put(u.aux, tombstone{})
			}
		}
	}
	x.put(k, row)
	for _, u := range def.uniqKeys(newVals, k) {
		if u.aux != k {
			x.put(u.aux, k.Key)
		}
	}
	return nil
}

// ---------- UPDATE ----------

func (x *sqlExec) runUpdate(s *updateStmt, outer *scope) (*relation, int64, error) {
	rel, err := x.baseRelation(&s.table)
	if err != nil {
		return nil, 0, err
	}
	def := rel.def
	var from *relation
	if s.from != nil {
		from, err = x.relationOf(s.from, outer)
		if err != nil {
			return nil, 0, err
		}
	}
	type match struct {
		row  relRow
		from *binding
	}
	var matches []match
	for _, r := range rel.rows {
		tb := bindingOf(rel, r)
		if from == nil {
			ok := Val(true)
			if s.where != nil {
				ok, err = x.eval(s.where, &scope{binds: []*binding{tb}, outer: outer})
				if err != nil {
					return nil, 0, err
				}
			}
			if isTrue(ok) {
				matches = append(matches, match{row: r})
			}
			continue
		}
		for _, fr := range from.rows {
			fb := bindingOf(from, fr)
			ok := Val(true)
			if s.where != nil {
				ok, err = x.eval(s.where, &scope{binds: []*binding{tb, fb}, outer: outer})
				if err != nil {
					return nil, 0, err
				}
			}
			if isTrue(ok) {
				matches = append(matches, match{row: r, from: fb})
				break // a target row is updated at most once
			}
		}
	}
	var keys []rowKey
	for _, m := range matches {
		keys = append(keys, *m.row.src)
		x.auditRows([]*rowKey{m.row.src})
	}
	if err := x.lockAll(keys); err != nil {
		return nil, 0, err
	}
	out := &relation{cols: x.returningCols(s.returning, def)}
	var affected int64
	for _, m := range matches {
		tb := bindingOf(rel, m.row)
		binds := []*binding{tb}
		if m.from != nil {
			binds = append(binds, m.from)
		}
		sc := &scope{binds: binds, outer: outer}
		nv := append([]Val{}, m.row.vals...)
		for _, a := range s.set {
			ci := def.colIndex(a.col)
			if ci < 0 {
				return nil, 0, pgErr("42703", fmt.Sprintf("column %q of relation %q does not exist", a.col, s.table.name), "")
			}
			v, err := x.eval(a.e, sc)
			if err != nil {
				return nil, 0, err
			}
			cv, err := coerce(v, def.cols[ci].typ)
			if err != nil {
				return nil, 0, err
			}
			nv[ci] = cv
		}
		for i, c := range def.cols {
			if c.notNull && nv[i] == nil {
				return nil, 0, pgErr("23502", fmt.Sprintf("null value in column %q of relation %q violates not-null constraint", c.name, s.table.name), "")
			}
		}
		// unique keys that change must be free
		oldU, newU := def.uniqKeys(m.row.vals, *m.row.src), def.uniqKeys(nv, *m.row.src)
		for _, nu := range newU {
			same := false
			for _, ou := range oldU {
				if ou.aux == nu.aux {
					same = true
				}
			}
			if same || nu.aux == *m.row.src {
				continue
			}
			if err := x.sess.lockRow(nu.aux); err != nil {
				return nil, 0, err
			}
			if x.get(nu.aux) != nil {
				return nil, 0, pgErr("23505", fmt.Sprintf("duplicate key value violates unique constraint %q", nu.def.name), nu.def.name)
			}
		}
		if err := x.storeRow(def, *m.row.src, m.row.vals, nv); err != nil {
			return nil, 0, err
		}
		if def.afterUpdate != nil {
			if err := def.afterUpdate(x, def, m.row.vals, nv); err != nil {
				return nil, 0, err
			}
		}
		affected++
		if s.returning != nil {
			ntb := &binding{alias: tb.alias, table: tb.table, cols: tb.cols, vals: nv}
			rb := []*binding{ntb}
			if m.from != nil {
				rb = append(rb, m.from)
			}
			_, vals, err := x.project(s.returning, &scope{binds: rb, outer: outer}, ntb)
			if err != nil {
				return nil, 0, err
			}
			out.rows = append(out.rows, relRow{vals: vals})
		}
	}
	if s.returning == nil {
		return nil, affected, nil
	}
	return out, affected, nil
}

// ---------- DELETE ----------

func (x *sqlExec) runDelete(s *deleteStmt, outer *scope) (*relation, int64, error) {
	rel, err := x.baseRelation(&s.table)
	if err != nil {
		return nil, 0, err
	}
	def := rel.def
	var matches []relRow
	for _, r := range rel.rows {
		ok := Val(true)
		if s.where != nil {
			ok, err = x.eval(s.where, &scope{binds: []*binding{bindingOf(rel, r)}, outer: outer})
			if err != nil {
				return nil, 0, err
			}
		}
		if isTrue(ok) {
			matches = append(matches, r)
		}
	}
	var keys []rowKey
	for _, m := range matches {
		keys = append(keys, *m.src)
		x.auditRows([]*rowKey{m.src})
	}
	if err := x.lockAll(keys); err != nil {
		return nil, 0, err
	}
	out := &relation{cols: x.returningCols(s.returning, def)}
	for _, m := range matches {
		for _, u := range def.uniqKeys(m.vals, *m.src) {
			if u.aux != *m.src {
				x.put(u.aux, tombstone{})
			}
		}
		x.put(*m.src, tombstone{})
		if def.afterDelete != nil {
			if err := def.afterDelete(x, def, m.vals); err != nil {
				return nil, 0, err
			}
		}
		if s.returning != nil {
			tb := bindingOf(rel, m)
			_, vals, err := x.project(s.returning, &scope{binds: []*binding{tb}, outer: outer}, tb)
			if err != nil {
				return nil, 0, err
			}
			out.rows = append(out.rows, relRow{vals: vals})
		}
	}
	if s.returning == nil {
		return nil, int64(len(matches)), nil
	}
	return out, int64(len(matches)), nil
}

// ---------- entry point from the driver ----------

type sqlResult struct {
	rel      *relation
	affected int64
}

// execSQL runs one parsed statement as one simpg statement on the connection's session.
func (c *conn) execParsed(task string, stmt any, st *stmtState) (*sqlResult, error) {
	var res *sqlResult
	var probes []string
	err := c.sess.stmt(task, func() error {
		x := &sqlExec{w: c.w, sess: c.sess, overlay: map[rowKey]any{}, ctes: map[string]*relation{}, st: st}
		rel, n, err := x.runStatement(stmt, nil)
		probes = x.probes
		if err != nil {
			return err
		}
		x.flush()
		if x.taint != "" && c.sess.inTx() {
			c.sess.top().taint = x.taint
		}
		res = &sqlResult{rel: rel, affected: n}
		return nil
	})
	for _, p := range probes {
		c.w.probe(p)
	}
	return res, err
}

func (r *sqlResult) rows() driver.Rows {
	out := &simRows{}
	if r == nil || r.rel == nil {
		return out
	}
	out.cols = r.rel.cols
	for _, row := range r.rel.rows {
		vals := make([]driver.Value, len(row.vals))
		for i, v := range row.vals {
			vals[i] = driverValue(v)
		}
		out.data = append(out.data, vals)
	}
	return out
}

// describeStmt: a short, order-independent description of a statement for the event log.
func describeStmt(stmt any) (verb, table string) {
	switch s := stmt.(type) {
	case *selectStmt:
		for _, c := range s.with {
			if v, t := describeStmt(c.stmt); v != "select" {
				return v + "+select", t
			}
		}
		if s.from != nil && s.from.sub == nil {
			if s.forUpdate {
				return "select-for-update", s.from.name
			}
			return "select", s.from.name
		}
		if s.from != nil && s.from.sub != nil {
			_, t := describeStmt(s.from.sub)
			return "select", t
		}
		return "select", ""
	case *insertStmt:
		return "insert", s.table.name
	case *updateStmt:
		return "update", s.table.name
	case *deleteStmt:
		return "delete", s.table.name
	}
	return "?", ""
}

func stmtTakesLocks(stmt any) bool {
	switch s := stmt.(type) {
	case *selectStmt:
		if s.forUpdate {
			return true
		}
		for _, c := range s.with {
			if stmtTakesLocks(c.stmt) {
				return true
			}
		}
		return false
	}
	return true
}

var _ = strings.ToLower

// runGrouped evaluates a select with GROUP BY and / or aggregates in its select list: the rows (already joined and
// filtered) are partitioned on the GROUP BY expressions - one single group without GROUP BY, present even when
// there is no row - and the select list, then ORDER BY, are evaluated once per group.
func (x *sqlExec) runGrouped(s *selectStmt, rows []joinedRow, outer *scope) (*relation, error) {
	if s.forUpdate || len(s.distinctOn) > 0 {
		return nil, unsupported("FOR UPDATE / DISTINCT ON with aggregation")
	}
	type group struct {
		rows []joinedRow
	}
	var groups []*group
	if len(s.groupBy) == 0 {
		groups = []*group{{rows: rows}}
	} else {
		idx := map[string]*group{}
		for _, r := range rows {
			var key []string
			for _, e := range s.groupBy {
				v, err := x.eval(e, &scope{binds: r.binds, outer: outer})
				if err != nil {
					return nil, err
				}
				key = append(key, fmt.Sprintf("%T:%v", v, driverValue(v)))
			}
			k := strings.Join(key, "\x00")
			g := idx[k]
			if g == nil {
				g = &group{}
				idx[k] = g
				groups = append(groups, g)
			}
			g.rows = append(g.rows, r)
		}
	}
	type outRow struct {
		vals []Val
		keys []Val
	}
	var outs []outRow
	out := &relation{}
	for gi, g := range groups {
		sc := &scope{outer: outer, group: g.rows}
		if g.rows == nil {
			sc.group = []joinedRow{}
		}
		if len(g.rows) > 0 {
			sc.binds = g.rows[0].binds
		}
		var vals []Val
		var cols []string
		for _, it := range s.cols {
			if _, star := it.e.(*eStar); star {
				return nil, unsupported("* in a grouped select list")
			}
			v, err := x.eval(it.e, sc)
			if err != nil {
				return nil, err
			}
			vals = append(vals, v)
			cols = append(cols, outputName(it))
		}
		if gi == 0 {
			out.cols = cols
		}
		o := outRow{vals: vals}
		for _, oi := range s.order {
			// ORDER BY may name an output column
			var v Val
			var err error
			if c, ok := oi.e.(*eCol); ok && c.qual == "" {
				found := false
				for i, name := range cols {
					if name == c.name {
						v, found = vals[i], true
						break
					}
				}
				if !found {
					v, err = x.eval(oi.e, sc)
				}
			} else {
				v, err = x.eval(oi.e, sc)
			}
			if err != nil {
				return nil, err
			}
			o.keys = append(o.keys, v)
		}
		outs = append(outs, o)
	}
	if len(groups) == 0 {
		for _, it := range s.cols {
			out.cols = append(out.cols, outputName(it))
		}
	}
	if len(s.order) > 0 {
		var sortErr error
		sort.SliceStable(outs, func(a, b int) bool {
			for i, o := range s.order {
				va, vb := outs[a].keys[i], outs[b].keys[i]
				var c int
				switch {
				case va == nil && vb == nil:
					c = 0
				case va == nil:
					c = 1
				case vb == nil:
					c = -1
				default:
					var err error
					c, err = compareVals(va, vb)
					if err != nil {
						sortErr = err
					}
				}
				if o.desc {
					c = -c
				}
				if c != 0 {
					return c < 0
				}
			}
			return false
		})
		if sortErr != nil {
			return nil, sortErr
		}
	}
	if s.offset > 0 {
		if s.offset >= len(outs) {
			outs = nil
		} else {
			outs = outs[s.offset:]
		}
	}
	if s.limit != nil && len(outs) > *s.limit {
		outs = outs[:*s.limit]
	}
	for _, o := range outs {
		out.rows = append(out.rows, relRow{vals: o.vals})
	}
	return out, nil
}
