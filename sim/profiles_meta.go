package sim

// C17, first sentence only (current metadata): concurrent saves and deletes of the SAME keys on the same
// accounts and transactions, metadata set by scripts and at creation. The current metadata of every account
// and transaction must equal the saves applied in COMMIT order (last write wins per key) minus the deleted
// keys. The history / point-in-time sentences of C17 are read SQL and metadata-history triggers: not decided.

import (
	"encoding/json"
	"fmt"
	"regexp"
	"sort"
	"strings"
	gotime "time"

	ledger "github.com/formancehq/ledger/internal"
)

func init() {
	register(Profile{Property: "C17", Name: "current-metadata", Gen: func(r *RNG, seed uint64, tier string) (*Scenario, *ExploreCfg) {
		sc := &Scenario{Property: "C17", Profile: "current-metadata", Knobs: randomKnobs(r), Checks: []string{"current-metadata", "replay", "metadata-history-rows"}}
		g := &gen{r: r, sc: sc}
		sc.Setup = []Op{{ID: g.id("s"), Kind: KCreateLedger, Ledger: "l1", Feats: featureMix(r, sc.Knobs.HashLogs)}}
		for i := 0; i < 2; i++ {
			sc.Setup = append(sc.Setup, Op{ID: g.id("s"), Kind: KPostings, Ledger: "l1", Postings: []PostingSpec{{"world", users[i], "50", "USD"}},
				Metadata: map[string]string{"k0": "initial-" + fmt.Sprint(i)}})
		}
		keys := []string{"k0", "k1"}
		nc := 2 + r.Intn(2)
		n := 0
		for c := 0; c < nc; c++ {
			var ops []Op
			for i := 0; i < 2+r.Intn(4); i++ {
				n++
				val := fmt.Sprintf("v%d", n) // every written value is unique
				var op Op
				switch x := r.Intn(10); {
				case x < 3:
					op = Op{Kind: KTxMetaSet, TxID: 1 + uint64(r.Intn(2)), Metadata: map[string]string{Pick(r, keys): val}}
					if r.Chance(0.3) {
						op.Metadata[Pick(r, keys)] = val + "b"
					}
				case x < 4:
					op = Op{Kind: KTxMetaDel, TxID: 1 + uint64(r.Intn(2)), Key: Pick(r, keys)}
				case x < 7:
					op = Op{Kind: KAcctMetaSet, Address: Pick(r, users[:2]), Metadata: map[string]string{Pick(r, keys): val}}
				case x < 8:
					op = Op{Kind: KAcctMetaDel, Address: Pick(r, users[:2]), Key: Pick(r, keys)}
				case x < 9:
					op = Op{Kind: KScript, Script: fmt.Sprintf("send [USD 1] (\n  source = @world\n  destination = @%s\n)\nset_account_meta(@%s, \"%s\", \"%s\")\nset_tx_meta(\"%s\", \"%s\")\n",
						Pick(r, users[:2]), Pick(r, users[:2]), Pick(r, keys), val, Pick(r, keys), val)}
				default:
					op = Op{Kind: KPostings, Postings: []PostingSpec{{"world", Pick(r, users[:2]), "1", "USD"}}, Metadata: map[string]string{Pick(r, keys): val}}
					if r.Chance(0.4) {
						// one request writing the metadata of one account from both sides: the script sets a key, the
						// request's accountMetadata another (wave 15, C17d: the request's map replaced the script's)
						a := Pick(r, users[:2])
						op = Op{Kind: KScript, Script: fmt.Sprintf("send [USD 1] (\n  source = @world\n  destination = @%s\n)\nset_account_meta(@%s, \"k2\", \"%s\")\n", a, a, val),
							AccountMetadata: map[string]map[string]string{a: {Pick(r, keys): val + "r"}}}
					}
				}
				op.Ledger = "l1"
				op.ID = fmt.Sprintf("c%d.%d", c, i)
				ops = append(ops, op)
			}
			sc.Clients = append(sc.Clients, ops)
		}
		ex := storageFaults(r, seed, 0.3)
		ex.PreemptP = 0.5
		return sc, ex
	}})
}

var reSetAccountMeta = regexp.MustCompile(`set_account_meta\(@([^,]+), "([^"]+)", "([^"]+)"\)`)

// checkMetadataWritesSurvive judges the current account metadata against the REQUESTS (checkCurrentMetadata
// judges it against the logs, which a fault upstream of the log corrupts together with the rows): every value is
// unique to the request that wrote it; the value of an acknowledged, fault-free request is still there at the end
// unless another request of the history wrote or deleted the same key of the same account.
func checkMetadataWritesSurvive(r *runner, views map[string]*LedgerView) []Violation {
	var vs []Violation
	type slot struct{ ledger, addr, key string }
	type write struct {
		op  *OpResult
		val string
	}
	writes := map[slot][]write{}
	touch := map[slot]map[string]bool{}
	note := func(or *OpResult, sl slot, val string, set bool) {
		if touch[sl] == nil {
			touch[sl] = map[string]bool{}
		}
		if or.Out.Class != "client_err" {
			touch[sl][or.Op.ID] = true
		}
		if set {
			writes[sl] = append(writes[sl], write{or, val})
		}
	}
	for _, or := range r.results {
		op := or.Op
		switch op.Kind {
		case KAcctMetaSet:
			for k, v := range op.Metadata {
				note(or, slot{op.Ledger, op.Address, k}, v, true)
			}
		case KAcctMetaDel:
			note(or, slot{op.Ledger, op.Address, op.Key}, "", false)
		case KScript, KPostings:
			for _, m := range reSetAccountMeta.FindAllStringSubmatch(op.Script, -1) {
				note(or, slot{op.Ledger, m[1], m[2]}, m[3], true)
			}
			for a, md := range op.AccountMetadata {
				for k, v := range md {
					note(or, slot{op.Ledger, a, k}, v, true)
				}
			}
		}
	}
	for sl, ws := range writes {
		for _, w := range ws {
			if w.op.Phase != "main" || w.op.Out.Class != "ok" || len(w.op.Faults) > 0 || w.op.Op.DryRun {
				continue
			}
			others := 0
			for id := range touch[sl] {
				if id != w.op.Op.ID {
					others++
				}
			}
			if others > 0 {
				continue
			}
			got := ""
			if v := views[sl.ledger]; v != nil && v.Accts[sl.addr] != nil {
				got = v.Accts[sl.addr].Metadata[sl.key]
			}
			if got != w.val {
				vs = append(vs, Violation{r.sc.Property, "an-acknowledged-metadata-write-is-in-the-current-metadata", fmt.Sprintf("%s (%s) was acknowledged and wrote %s=%q on account %s of %s; no other request of the history touches that key, and the account now holds %q", w.op.Op.ID, w.op.Op.Kind, sl.key, w.val, sl.addr, sl.ledger, got)})
			}
		}
	}
	sort.Slice(vs, func(i, j int) bool { return vs[i].Detail < vs[j].Detail })
	return vs
}

// checkCurrentMetadata folds the metadata writes of the committed logs in commit order (within one commit:
// in log id order) and compares with the metadata columns of the transactions and accounts tables.
func checkCurrentMetadata(r *runner, views map[string]*LedgerView) []Violation {
	var vs []Violation
	prop := r.sc.Property
	type target struct{ ledger, kind, id string }
	want := map[target]map[string]string{}
	get := func(t target) map[string]string {
		if want[t] == nil {
			want[t] = map[string]string{}
		}
		return want[t]
	}
	for _, rec := range r.w.db.CommitsSince(0) {
		var rows []*LogRow
		ledgerOf := map[*LogRow]string{}
		for _, wr := range rec.Writes {
			if wr.Key.Table == "log" && wr.Before == nil && wr.After != nil {
				row := wr.After.(*LogRow)
				rows = append(rows, row)
				ledgerOf[row] = wr.Key.Ledger
			}
		}
		sort.Slice(rows, func(i, j int) bool { return rows[i].ID < rows[j].ID })
		for _, row := range rows {
			l := ledgerOf[row]
			p, err := ledger.HydrateLog(row.Type, row.DataJSON)
			if err != nil {
				continue
			}
			switch pl := p.(type) {
			case ledger.CreatedTransaction:
				m := get(target{l, "tx", fmt.Sprint(*pl.Transaction.ID)})
				for k, v := range pl.Transaction.Metadata {
					m[k] = v
				}
				for a, am := range pl.AccountMetadata {
					m := get(target{l, "acct", a})
					for k, v := range am {
						m[k] = v
					}
				}
			case ledger.RevertedTransaction:
				m := get(target{l, "tx", fmt.Sprint(*pl.RevertTransaction.ID)})
				for k, v := range pl.RevertTransaction.Metadata {
					m[k] = v
				}
			case ledger.SavedMetadata:
				kind := "acct"
				if pl.TargetType == ledger.MetaTargetTypeTransaction {
					kind = "tx"
				}
				m := get(target{l, kind, fmt.Sprint(pl.TargetID)})
				for k, v := range pl.Metadata {
					m[k] = v
				}
			case ledger.DeletedMetadata:
				kind := "acct"
				if pl.TargetType == ledger.MetaTargetTypeTransaction {
					kind = "tx"
				}
				delete(get(target{l, kind, fmt.Sprint(pl.TargetID)}), pl.Key)
			}
		}
	}
	var ts []target
	for t := range want {
		ts = append(ts, t)
	}
	sort.Slice(ts, func(i, j int) bool { return fmt.Sprint(ts[i]) < fmt.Sprint(ts[j]) })
	for _, t := range ts {
		v := views[t.ledger]
		if v == nil {
			continue
		}
		var have map[string]string
		switch t.kind {
		case "tx":
			for id, tx := range v.Txs {
				if fmt.Sprint(id) == t.id {
					have = tx.Metadata
				}
			}
		default:
			if a := v.Accts[t.id]; a != nil {
				have = a.Metadata
			}
		}
		if have == nil && len(want[t]) == 0 {
			continue
		}
		if !metaEq(have, want[t]) {
			vs = append(vs, Violation{prop, "current-metadata-is-last-write-wins-in-commit-order", fmt.Sprintf("ledger %s %s %s holds metadata %v; the saves and deletes of the committed logs, applied in commit order, give %v", t.ledger, t.kind, t.id, sortedMeta(have), sortedMeta(want[t]))})
		}
	}
	return vs
}

// checkMetadataHistoryRows (C17 history, write side; C35): what the metadata-history triggers wrote, judged in
// the real-SQL runs (the triggers fire as the real AddLedger installed them, sqlmini_tables.go:metaHistory):
//   - a ledger whose *_METADATA_HISTORY is not SYNC has no history row at all;
//   - with SYNC, every account / transaction has revisions 1..n without a gap, the last one carries the row's
//     current metadata, and every metadata state a commit left behind appears among the revisions, in order.
func checkMetadataHistoryRows(r *runner) []Violation {
	if !r.sc.Knobs.RealSQL {
		return nil
	}
	var vs []Violation
	prop := r.sc.Property
	snap := r.w.db.CommittedSnapshot()
	type hk struct{ table, ledger, id string }
	revs := map[hk][]*MetaRev{}
	for k, v := range snap {
		if m, ok := v.(*MetaRev); ok {
			revs[hk{k.Table, k.Ledger, m.ID}] = append(revs[hk{k.Table, k.Ledger, m.ID}], m)
		}
	}
	for k := range revs {
		sort.Slice(revs[k], func(a, b int) bool { return revs[k][a].Revision < revs[k][b].Revision })
	}
	// committed states per entity, in commit order
	states := map[hk][]map[string]string{}
	for _, rec := range r.w.db.CommitsSince(0) {
		for _, wr := range rec.Writes {
			switch row := wr.After.(type) {
			case *AcctRow:
				k := hk{"acctmeta", wr.Key.Ledger, row.Address}
				states[k] = append(states[k], row.Metadata)
			case *ledger.Transaction:
				if wr.Key.Table == "tx" && row.ID != nil {
					k := hk{"txmeta", wr.Key.Ledger, fmt.Sprint(*row.ID)}
					states[k] = append(states[k], map[string]string(row.Metadata))
				}
			}
		}
	}
	feature := map[string]string{"acctmeta": "ACCOUNT_METADATA_HISTORY", "txmeta": "TRANSACTION_METADATA_HISTORY"}
	for k, rs := range revs {
		if val := r.featuresOf(k.ledger)[feature[k.table]]; val != "" && val != "SYNC" {
			vs = append(vs, Violation{prop, "no-metadata-history-is-written-without-the-feature", fmt.Sprintf("ledger %s has %s=%s, yet %d revision(s) of the metadata of %s were written to the history", k.ledger, feature[k.table], val, len(rs), k.id)})
		}
	}
	keys := make([]hk, 0, len(states))
	for k := range states {
		keys = append(keys, k)
	}
	sort.Slice(keys, func(a, b int) bool { return fmt.Sprint(keys[a]) < fmt.Sprint(keys[b]) })
	for _, k := range keys {
		if val := r.featuresOf(k.ledger)[feature[k.table]]; val != "" && val != "SYNC" {
			continue
		}
		if _, isLedger := snap[rowKey{"ledger", "", k.ledger}]; !isLedger {
			continue
		}
		rs, sts := revs[k], states[k]
		what := fmt.Sprintf("ledger %s %s %s", k.ledger, map[string]string{"acctmeta": "account", "txmeta": "transaction"}[k.table], k.id)
		if len(rs) == 0 {
			vs = append(vs, Violation{prop, "metadata-history-follows-every-change", fmt.Sprintf("%s: %s is SYNC and the history holds no revision (committed states: %v)", what, feature[k.table], sts)})
			continue
		}
		for i, m := range rs {
			if m.Revision != i+1 {
				vs = append(vs, Violation{prop, "metadata-history-follows-every-change", fmt.Sprintf("%s: revisions are not 1..n: position %d holds revision %d", what, i, m.Revision)})
				break
			}
		}
		if cur := sts[len(sts)-1]; !sameMeta(rs[len(rs)-1].Metadata, cur) {
			vs = append(vs, Violation{prop, "metadata-history-follows-every-change", fmt.Sprintf("%s: the last revision (%d) carries %v, the current metadata is %v", what, rs[len(rs)-1].Revision, rs[len(rs)-1].Metadata, cur)})
			continue
		}
		// every committed state appears among the revisions, in order
		pos := 0
		for _, st := range sts {
			found := false
			for pos < len(rs) {
				if sameMeta(rs[pos].Metadata, st) {
					found = true
					break
				}
				pos++
			}
			if !found {
				vs = append(vs, Violation{prop, "metadata-history-follows-every-change", fmt.Sprintf("%s: the state %v, committed, is not among the revisions (in order) %v", what, st, revMetas(rs))})
				break
			}
		}
	}
	return vs
}

func sameMeta(a, b map[string]string) bool {
	if len(a) != len(b) {
		return false
	}
	for k, v := range a {
		if w, ok := b[k]; !ok || w != v {
			return false
		}
	}
	return true
}

func revMetas(rs []*MetaRev) []map[string]string {
	var out []map[string]string
	for _, m := range rs {
		out = append(out, m.Metadata)
	}
	return out
}

// checkMetadataAtPIT (C17, second and third sentence, by value): a read of accounts or transactions at a point in
// time t, answered through the real handlers and executed by the interpreter over the history rows the triggers
// wrote, reports for every entity it lists the metadata as it was at t when the ledger keeps the history - the
// state left by the last change dated at or before t (creation: the transaction's timestamp / the account's
// insertion date; a change: its updated_at), nothing before the first - and the current metadata when it does not.
// The reference is built from the committed row versions, not from the history table.
func checkMetadataAtPIT(r *runner) []Violation {
	if !r.sc.Knobs.RealSQL {
		return nil
	}
	r.w.mu.Lock()
	jumped := r.w.fired[FClockJump] > 0
	r.w.mu.Unlock()
	if jumped {
		// the database clock was moved during this run (thorough tier): the dates of the history are then not in
		// the order of the writes, and "as it was at t" has no reading to compare with
		return nil
	}
	var vs []Violation
	prop := r.sc.Property
	// a version of a row: the metadata it carries and the instants between which it was written (creation: the
	// date the property names - the transaction's timestamp / the account's insertion date; a change: the
	// database clock between the begin and the commit of the SQL transaction that made it)
	type ver struct {
		from, to gotime.Time
		meta     map[string]string
	}
	type ek struct{ table, ledger, id string }
	versions := map[ek][]ver{}
	for _, rec := range r.w.db.CommitsSince(0) {
		for _, wr := range rec.Writes {
			switch row := wr.After.(type) {
			case *AcctRow:
				k := ek{"accounts", wr.Key.Ledger, row.Address}
				v := ver{rec.Begin, rec.At, row.Metadata}
				if wr.Before == nil {
					v.from, v.to = row.InsertionDate.Time, row.InsertionDate.Time
				}
				versions[k] = append(versions[k], v)
			case *ledger.Transaction:
				if wr.Key.Table != "tx" || row.ID == nil {
					continue
				}
				k := ek{"transactions", wr.Key.Ledger, fmt.Sprint(*row.ID)}
				v := ver{rec.Begin, rec.At, map[string]string(row.Metadata)}
				if wr.Before == nil {
					v.from, v.to = row.Timestamp.Time, row.Timestamp.Time
				}
				versions[k] = append(versions[k], v)
			}
		}
	}
	feature := map[string]string{"accounts": "ACCOUNT_METADATA_HISTORY", "transactions": "TRANSACTION_METADATA_HISTORY"}
	for _, or := range r.results {
		if or.Op.Kind != KRaw || or.Op.Raw == nil || or.Op.Raw.Method != "GET" || or.Out.Class != "ok" || len(or.Faults) > 0 {
			continue
		}
		path, query, _ := strings.Cut(or.Op.Raw.Path, "?")
		parts := strings.Split(strings.Trim(path, "/"), "/")
		if len(parts) < 3 || parts[0] != "v2" || (parts[2] != "accounts" && parts[2] != "transactions") {
			continue
		}
		var pit gotime.Time
		for _, kv := range strings.Split(query, "&") {
			if v, ok := strings.CutPrefix(kv, "pit="); ok {
				pit, _ = gotime.Parse(gotime.RFC3339Nano, v)
			}
		}
		if pit.IsZero() {
			continue
		}
		r.w.mu.Lock()
		tabs := r.w.readTables[or.Op.ID]
		r.w.mu.Unlock()
		if !tabs[parts[2]] {
			continue // not answered through the real statements (model fallback)
		}
		ledgerName, resource := parts[1], parts[2]
		type item struct {
			ID       json.Number       `json:"id"`
			Address  string            `json:"address"`
			Metadata map[string]string `json:"metadata"`
		}
		var items []item
		if len(parts) == 4 {
			var env struct {
				Data item `json:"data"`
			}
			if json.Unmarshal(or.Out.Body, &env) != nil {
				continue
			}
			items = []item{env.Data}
		} else {
			var env struct {
				Cursor struct {
					Data []item `json:"data"`
				} `json:"cursor"`
			}
			if json.Unmarshal(or.Out.Body, &env) != nil {
				continue
			}
			items = env.Cursor.Data
		}
		val := r.featuresOf(ledgerName)[feature[resource]]
		kept := val == "" || val == "SYNC"
		for _, it := range items {
			id := it.Address
			if resource == "transactions" {
				id = it.ID.String()
			}
			vers := versions[ek{resource, ledgerName, id}]
			if len(vers) == 0 {
				continue
			}
			want := map[string]string{}
			ambiguous := false
			if kept {
				for _, v := range vers {
					switch {
					case !v.to.After(pit):
						want = v.meta
					case !v.from.After(pit):
						ambiguous = true // t falls inside the transaction that wrote this version
					}
				}
			} else {
				want = vers[len(vers)-1].meta
			}
			if ambiguous {
				continue
			}
			if !sameMeta(it.Metadata, want) {
				r.w.probe("pit_metadata_read_judged")
				how := "the metadata at that time"
				if !kept {
					how = "the current metadata (no history is kept)"
				}
				var hist []string
				for _, v := range vers {
					hist = append(hist, fmt.Sprintf("%s:%v", v.to.UTC().Format("2006-01-02T15:04:05.000"), v.meta))
				}
				vs = append(vs, Violation{prop, "a-read-at-time-t-returns-the-metadata-as-it-was-at-t", fmt.Sprintf("%s GET %s on ledger %s (%s=%s): %s %s carries %v; %s is %v (its versions: %v)", or.Op.ID, or.Op.Raw.Path, ledgerName, feature[resource], val, resource, id, it.Metadata, how, want, hist)})
			} else {
				r.w.probe("pit_metadata_read_matches")
			}
		}
	}
	return vs
}
