package sim

// sqlmini: the DDL that internal/storage/bucket/default_bucket.go:AddLedger sends when a ledger is added to a
// bucket (real-SQL runs): per-ledger sequences and per-feature triggers. The scripts are the repository's own
// templates, rendered by the real AddLedger; they are recognised statement by statement:
//
//   create sequence "<bucket>"."<name>" owned by ...
//   select setval('"<bucket>"."<name>"', coalesce((select max(id) + 1 from "<bucket>"."<table>" where ledger = '<l>'), 1)::bigint, false)
//   create trigger "<name>" before|after insert|update on "<bucket>"."<table>" for each row [when ( new.ledger = '<l>' )]
//       execute procedure "<bucket>".<proc>()
//
// A trigger is stored as a (transactional) row; when sqlmini inserts into a table it fires the registered
// triggers whose condition holds, running the Go re-implementation of the named procedure (set_log_hash,
// set_effective_volumes, update_effective_volumes; the metadata-history procedures are no-ops here). So which
// ledgers get hashed logs or effective volumes is decided by what AddLedger installed, not by the harness.

import (
	"context"
	"regexp"
	"strconv"
	"strings"
)

type TriggerRow struct {
	Name   string
	Schema string
	Table  string
	Timing string // before | after
	Event  string // insert | update
	Ledger string // "" = fires for every row of the table
	Proc   string
}

var (
	reComment   = regexp.MustCompile(`--[^\n]*`)
	reCreateSeq = regexp.MustCompile(`(?is)^create sequence ("[^"]+"\."[^"]+")( owned by .*)?$`)
	reSetvalDDL = regexp.MustCompile(`(?is)^select setval\(\s*'("[^"]+"\."[^"]+")'\s*,\s*coalesce\(\(\s*select max\(id\) \+ 1 from "([^"]+)"\."?(\w+)"? where ledger = '([^']*)'\s*\),\s*1\)::bigint\s*,\s*false\s*\)$`)
	reCreateTrg = regexp.MustCompile(`(?is)^create trigger "([^"]+)" (before|after) (insert|update)( of \w+)? on "([^"]+)"\."?(\w+)"? for each row( when \(\s*new\.ledger = '([^']*)'\s*\))? execute procedure "([^"]+)"\.(\w+)\(\)$`)
)

func looksLikeDDL(q string) bool {
	l := strings.ToLower(strings.TrimSpace(reComment.ReplaceAllString(q, "")))
	return strings.HasPrefix(l, "create sequence") || strings.HasPrefix(l, "create trigger") || strings.HasPrefix(l, "create ")
}

func triggerKey(schema, name string) rowKey { return rowKey{"trigger", "", schema + "." + name} }

// execDDL runs a (possibly multi-statement) AddLedger script on the connection's session.
func (c *conn) execDDL(ctx context.Context, script string) error {
	clean := reComment.ReplaceAllString(script, "")
	task := taskKeyOf(ctx)
	for _, raw := range strings.Split(clean, ";") {
		st := normSQL(raw)
		if st == "" {
			continue
		}
		if err := c.driverYield(ctx, "sql:ddl", "", []FaultKind{FStmtErr, FConnLost, FCrash}); err != nil {
			return err
		}
		var stmtErr error
		switch {
		case reCreateSeq.MatchString(st):
			m := reCreateSeq.FindStringSubmatch(st)
			stmtErr = c.sess.stmt(task, func() error {
				if _, exists := c.sess.db.seqs[m[1]]; exists {
					return pgErr("42P07", "relation "+m[1]+" already exists", "")
				}
				c.sess.db.seqs[m[1]] = 0
				return nil
			})
		case reSetvalDDL.MatchString(st):
			m := reSetvalDDL.FindStringSubmatch(st)
			seq, table, ledgerName := m[1], m[3], m[4]
			stmtErr = c.sess.stmt(task, func() error {
				var tbl string
				switch table {
				case "transactions":
					tbl = "tx"
				case "logs":
					tbl = "log"
				default:
					return pgErr("42P01", "relation does not exist: "+table, "")
				}
				if _, ok := c.sess.db.seqs[seq]; !ok {
					return pgErr("42P01", "relation does not exist: "+seq, "")
				}
				var next int64 = 1
				for _, k := range c.sess.scan(tbl, ledgerName) {
					if id, err := strconv.ParseInt(k.Key, 10, 64); err == nil && id+1 > next {
						next = id + 1
					}
				}
				// setval(seq, v, false): the next nextval returns v
				c.sess.db.setvalLocked(seq, next-1)
				return nil
			})
		case reCreateTrg.MatchString(st):
			m := reCreateTrg.FindStringSubmatch(st)
			tr := &TriggerRow{Name: m[1], Timing: strings.ToLower(m[2]), Event: strings.ToLower(m[3]), Schema: m[5], Table: strings.ToLower(m[6]), Ledger: m[8], Proc: strings.ToLower(m[10])}
			if m[7] == "" {
				tr.Ledger = ""
			}
			stmtErr = c.sess.stmt(task, func() error {
				k := triggerKey(tr.Schema, tr.Name)
				if err := c.sess.lockRow(k); err != nil {
					return err
				}
				if c.sess.get(k) != nil {
					return pgErr("42710", "trigger \""+tr.Name+"\" already exists", "")
				}
				c.sess.put(k, tr)
				return nil
			})
		default:
			return c.w.unsupportedSQL(ctx, unsupported("DDL statement"), st)
		}
		if stmtErr != nil {
			return stmtErr
		}
	}
	return nil
}

// triggersFor lists the registered triggers of a table that fire for a row of ledgerName, in name order.
func (x *sqlExec) triggersFor(schema, table, timing, event, ledgerName string) []*TriggerRow {
	var out []*TriggerRow
	for _, k := range x.sess.scan("trigger", "") {
		tr, ok := x.get(k).(*TriggerRow)
		if !ok || tr.Schema != schema || tr.Table != table || tr.Timing != timing || tr.Event != event {
			continue
		}
		if tr.Ledger != "" && tr.Ledger != ledgerName {
			continue
		}
		out = append(out, tr)
	}
	return out
}

// ddlTriggers: are triggers registered at all for this world (real AddLedger ran)? When not (ledgers created by
// the harness itself), the per-feature behaviour is keyed on the ledger's features as before.
func (x *sqlExec) ddlTriggers() bool {
	return len(x.sess.scan("trigger", "")) > 0 || x.w.ddlSeen
}

func (x *sqlExec) firesProc(schema, table, timing, event, ledgerName, proc string) bool {
	for _, tr := range x.triggersFor(schema, table, timing, event, ledgerName) {
		if tr.Proc == proc {
			return true
		}
	}
	return false
}
