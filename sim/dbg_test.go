package sim

import (
	"encoding/base64"
	"testing"
	"testing/synctest"
)

func TestDbgReads(t *testing.T) {
	b := func(x string) string { return base64.RawURLEncoding.EncodeToString([]byte(x)) }
	synctest.Test(t, func(t *testing.T) {
		w := NewWorld()
		w.realSQL = true
		w.lenientReads = true
		k := Knobs{HashLogs: "SYNC", BulkParallelism: 2, RealSQL: true}
		lis, _ := w.NewListener(k)
		inc := w.NewIncarnation(k, lis, nil)
		do := func(id string, r Request) Response {
			resp := w.Do(inc, id, r)
			bd := string(resp.Body)
			if len(bd) > 200 {
				bd = bd[:200]
			}
			t.Logf("%s %s %s %s -> %d %s PANIC=%q", id, r.Method, r.Path, r.Body, resp.Status, bd, resp.Panic)
			return resp
		}
		do("s1", Request{Method: "POST", Path: "/v2/l1", Body: `{}`})
		do("s2", Request{Method: "POST", Path: "/v2/l1/transactions", Body: `{"postings":[{"source":"world","destination":"alice","amount":100,"asset":"USD"},{"source":"world","destination":"alice","amount":100,"asset":"EUR"}]}`})
		hdr := map[string]string{"Content-Type": "application/json"}
		for i, rq := range []Request{
			{Method: "GET", Path: "/v2/l1/logs?cursor=" + b(`{"offset":0,"pageSize":2,"column":"account","order":0}`)},
			{Method: "GET", Path: "/v2/l1/logs?cursor=" + b(`{"column":"id","paginationID":0,"order":1,"pageSize":2}`)},
			{Method: "GET", Path: "/v2/l1/logs?cursor=" + b(`{"offset":1,"pageSize":0,"column":"address","order":0}`)},
			{Method: "GET", Path: "/v2/l1/accounts?cursor=" + b(`{"column":"address","order":0,"pageSize":2}`)},
			{Method: "GET", Path: "/v2/l1/transactions?cursor=" + b(`{"column":"id","order":2,"pageSize":2}`)},
			{Method: "GET", Path: "/v2/l1/transactions?sort=reverted_at"},
			{Method: "GET", Path: "/v2/l1/logs", Body: `{"$in":{"type":["NEW_TRANSACTION"]}}`},
			{Method: "GET", Path: "/v2/l1/accounts", Body: `{"$exists":{"balance":1}}`},
			{Method: "GET", Path: "/v2/l1/transactions", Body: `{"$in":{"source":["u:"]}}`},
			{Method: "GET", Path: "/v2/l1/accounts", Body: `{"$match":{"metadata[balance[USD]]":1}}`},
			{Method: "GET", Path: "/v2/l1/transactions?cursor=" + b(`{"column":"id","paginationID":1,"bottom":5,"order":1,"pageSize":1,"reverse":true}`)},
			{Method: "GET", Path: "/v2/l1/transactions?cursor=" + b(`{"column":"timestamp","paginationID":"2000-01-01T00:00:00Z","order":1,"pageSize":2}`)},
			{Method: "GET", Path: "/v2/l1/transactions?cursor=" + b(`{"column":"nope","order":1,"pageSize":2}`)},
			{Method: "GET", Path: "/v2/l1/transactions?cursor=" + b(`{"column":"reference","order":0,"pageSize":2}`)},
		} {
			rq.Header = hdr
			do("r"+string(rune('a'+i)), rq)
		}
		t.Logf("harness: %v", w.harness)
		w.Shutdown()
	})
}
