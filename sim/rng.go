package sim

// Seeded PRNG streams. One integer (VERIF_SEED) decides everything: per-run seeds are derived
// with splitmix64, and each run owns three independent streams (scenario, schedule, faults).

type RNG struct{ s uint64 }

func splitmix(x *uint64) uint64 {
	*x += 0x9E3779B97F4A7C15
	z := *x
	z = (z ^ (z >> 30)) * 0xBF58476D1CE4E5B9
	z = (z ^ (z >> 27)) * 0x94D049BB133111EB
	return z ^ (z >> 31)
}

func NewRNG(seed uint64) *RNG {
	r := &RNG{s: seed}
	splitmix(&r.s)
	return r
}

// Derive returns an independent stream labelled by n.
func (r *RNG) Derive(n uint64) *RNG {
	s := r.s ^ (n+1)*0xD1342543DE82EF95
	x := splitmix(&s)
	return &RNG{s: x}
}

func (r *RNG) Uint64() uint64 { return splitmix(&r.s) }

func (r *RNG) Intn(n int) int {
	if n <= 0 {
		return 0
	}
	return int(r.Uint64() % uint64(n))
}

func (r *RNG) Float() float64 { return float64(r.Uint64()>>11) / float64(1<<53) }

func (r *RNG) Chance(p float64) bool { return r.Float() < p }

func (r *RNG) Bool() bool { return r.Uint64()&1 == 1 }

func Pick[T any](r *RNG, xs []T) T { return xs[r.Intn(len(xs))] }

// Read implements io.Reader (used to seed uuid generation deterministically).
func (r *RNG) Read(p []byte) (int, error) {
	for i := range p {
		p[i] = byte(r.Uint64())
	}
	return len(p), nil
}

func RunSeed(verifSeed uint64, run uint64) uint64 {
	s := verifSeed*0x9E3779B97F4A7C15 ^ (run+1)*0xC2B2AE3D27D4EB4F
	return splitmix(&s)
}
