package sim

// C05: point-in-time and window reads equal the fold of the history. Everything the property names now executes:
// the handlers' statements (sum over moves between two dates, first_value(post_commit_[effective_]volumes) windows,
// the first_usage / timestamp / reverted_at masks) are built by the real resource handlers and run by the interpreter
// over the moves the real write path inserted and the effective volumes the (re-implemented) triggers maintain.
//
// Scenario: a history written one request after the other (back-dated, future-dated and undated transactions on
// shared accounts and several assets, reverts at the effective date or now, metadata-only accounts), then 1-3
// concurrent readers asking for instants before, between, after and exactly on recorded dates, in both date modes -
// while one more client appends transactions dated 2030 (they change no answer for an instant before 2030 in
// effective-date mode; insertion-date instants are taken inside the written history).
//
// Reference: the committed transaction rows (timestamp = effective date, inserted_at = insertion date, reverted_at)
// and account rows (first_usage), folded by date - never the moves or volume rows the reads go through.

import (
	"encoding/json"
	"fmt"
	"math/big"
	"sort"
	"strings"
	gotime "time"

	ledger "github.com/formancehq/ledger/internal"
)

var pitInstants = []string{"1990-01-01T12:00:00.123456Z", "1999-06-01T00:00:00Z", "1999-07-01T00:00:00Z", "1999-12-31T23:59:59Z", "2000-01-01T00:00:00Z",
	"2000-01-01T00:00:00.008Z", "2000-01-01T00:00:00.02Z", "2000-01-01T00:00:00.045Z", "2000-01-01T12:00:00Z", "2000-01-02T00:00:00Z", "2029-12-31T00:00:00Z"}

func init() {
	register(Profile{Property: "C05", Name: "point-in-time", Gen: func(r *RNG, seed uint64, tier string) (*Scenario, *ExploreCfg) {
		sc := &Scenario{Property: "C05", Profile: "point-in-time", Knobs: randomKnobs(r), Checks: []string{"pit-reads", "conservation"},
			Params: map[string]string{"lenient_reads": "1", "force_real_sql": "1"}}
		g := &gen{r: r, sc: sc}
		sc.Setup = []Op{{ID: g.id("s"), Kind: KCreateLedger, Ledger: "l1"}}
		if r.Chance(0.4) {
			sc.Setup = append(sc.Setup, Op{ID: g.id("s"), Kind: KCreateLedger, Ledger: "l2"},
				Op{ID: g.id("s"), Kind: KPostings, Ledger: "l2", Timestamp: "1999-06-01T00:00:00Z", Postings: []PostingSpec{{"world", "u:1", "7777", "USD"}}})
		}
		txN := uint64(0)
		reverted := map[uint64]bool{}
		for i := 0; i < 4+r.Intn(7); i++ {
			var op Op
			switch x := r.Intn(10); {
			case x < 7 || txN == 0:
				op = Op{Kind: KPostings, Ledger: "l1", Postings: []PostingSpec{{"world", Pick(r, users), fmt.Sprint(10 + r.Intn(90)), Pick(r, assets)}}}
				if r.Chance(0.5) {
					op.Postings = append(op.Postings, PostingSpec{op.Postings[0].Destination, Pick(r, users), fmt.Sprint(1 + r.Intn(9)), op.Postings[0].Asset})
				}
				if r.Chance(0.6) {
					op.Timestamp = Pick(r, []string{"1999-12-31T23:59:59Z", "1999-06-01T00:00:00Z", "1999-06-01T00:00:00Z", "1990-01-01T12:00:00.123456Z", "2000-01-02T00:00:00Z", "2000-01-01T12:00:00Z"})
				}
				txN++
			case x < 9:
				id := 1 + uint64(r.Intn(int(txN)))
				if reverted[id] {
					continue
				}
				reverted[id] = true
				op = Op{Kind: KRevert, Ledger: "l1", TxID: id, Force: true, AtEffectiveDate: r.Bool()}
				txN++
				reverted[txN] = true // a revert is not reverted again here
			default:
				id := g.id("s")
				sc.Setup = append(sc.Setup, Op{ID: id, Kind: KAcctMetaSet, Ledger: "l1", Address: "meta:only", Metadata: map[string]string{"m." + id: "v"}})
				continue
			}
			op.ID = g.id("s")
			sc.Setup = append(sc.Setup, op)
		}
		copyLedger := r.Chance(0.4)
		if copyLedger {
			// an imported copy: what it answers at a point in time is what the source answers (same ids, same dates)
			sc.Setup = append(sc.Setup, Op{ID: g.id("s"), Kind: KExport, Ledger: "l1"}, Op{ID: g.id("s"), Kind: KCreateLedger, Ledger: "lc", Bucket: "copies"},
				Op{ID: g.id("s"), Kind: KImport, Ledger: "lc", From: "l1", Chunked: 1 << 20})
		}
		hdr := map[string]string{"Content-Type": "application/json"}
		for c := 0; c < 1+r.Intn(3); c++ {
			var ops []Op
			for i := 0; i < 3+r.Intn(5); i++ {
				t := Pick(r, pitInstants)
				op := Op{ID: fmt.Sprintf("r%d.%d", c, i), Kind: KRaw, Ledger: "l1"}
				switch r.Intn(8) {
				case 0:
					q := "endTime=" + t
					if r.Chance(0.4) {
						s := Pick(r, pitInstants)
						q += "&startTime=" + s
					}
					if r.Chance(0.5) {
						q += "&insertionDate=true"
					}
					op.Raw = &Request{Method: "GET", Path: "/v2/l1/volumes?pageSize=100&" + q}
				case 1:
					q := "startTime=" + t
					if r.Chance(0.5) {
						q += "&insertionDate=true"
					}
					op.Raw = &Request{Method: "GET", Path: "/v2/l1/volumes?pageSize=100&" + q}
				case 2:
					op.Raw = &Request{Method: "GET", Path: "/v2/l1/accounts/" + Pick(r, append(append([]string{}, users...), "world")) + "?pit=" + t + "&expand=" + Pick(r, []string{"volumes", "effectiveVolumes"})}
				case 3:
					op.Raw = &Request{Method: "GET", Path: "/v2/l1/accounts?pageSize=100&pit=" + t + Pick(r, []string{"", "&expand=volumes", "&expand=effectiveVolumes"})}
				case 4:
					q := "pit=" + t
					if r.Chance(0.5) {
						q += "&useInsertionDate=true"
					}
					op.Raw = &Request{Method: "GET", Path: "/v2/l1/aggregate/balances?" + q}
					if r.Chance(0.7) {
						op.Address = Pick(r, append(append([]string{}, users...), "world"))
						op.Raw.Body, op.Raw.Header = `{"$match":{"address":"`+op.Address+`"}}`, hdr
					}
				case 5:
					l := "l1"
					if copyLedger && r.Bool() {
						l = "lc"
					}
					op.Raw = &Request{Method: "GET", Path: "/v2/" + l + "/transactions?pageSize=100&pit=" + t}
				case 6:
					l := "l1"
					if copyLedger && r.Bool() {
						l = "lc"
					}
					op.Raw = &Request{Method: "GET", Path: fmt.Sprintf("/v2/%s/transactions/%d?pit=%s", l, 1+r.Intn(int(txN)), t)}
				default:
					op.Raw = &Request{Method: "GET", Path: "/v2/l1/accounts/meta:only?pit=" + t}
				}
				ops = append(ops, op)
			}
			sc.Clients = append(sc.Clients, ops)
		}
		if r.Chance(0.6) {
			// a writer racing the readers: transactions between existing accounts, dated 2030
			var ops []Op
			for i := 0; i < 1+r.Intn(3); i++ {
				ops = append(ops, Op{ID: fmt.Sprintf("w0.%d", i), Kind: KPostings, Ledger: "l1", Timestamp: "2030-01-01T00:00:00Z", Postings: []PostingSpec{{"world", Pick(r, users), "5", "USD"}}})
			}
			sc.Clients = append(sc.Clients, ops)
		}
		ex := defaultExplore(seed, 0, 0)
		if r.Chance(0.3) {
			// statement errors, lost connections and deadlock errors inside the reads (and the racing writer)
			ex = defaultExplore(seed, 0.04, 3, FStmtErr, FConnLost, FDeadlock)
		}
		ex.PreemptP = 0.5
		return sc, ex
	}})
}

type pitTx struct {
	id         uint64
	eff, ins   gotime.Time
	revertedAt *gotime.Time
	postings   ledger.Postings
	event      uint64
}

// pitHistory: the committed transactions of a ledger (final row versions) and its accounts' first usages.
func (r *runner) pitHistory(ledgerName string) ([]pitTx, map[string]gotime.Time) {
	txs := map[uint64]*pitTx{}
	first := map[string]gotime.Time{}
	for _, rec := range r.w.db.CommitsSince(0) {
		for _, wr := range rec.Writes {
			if wr.Key.Ledger != ledgerName {
				continue
			}
			switch row := wr.After.(type) {
			case *ledger.Transaction:
				if wr.Key.Table != "tx" || row.ID == nil {
					continue
				}
				t := txs[*row.ID]
				if t == nil {
					t = &pitTx{id: *row.ID, eff: row.Timestamp.Time, ins: row.InsertedAt.Time, postings: row.Postings, event: rec.Event}
					txs[*row.ID] = t
				}
				if row.RevertedAt != nil && !row.RevertedAt.IsZero() {
					ra := row.RevertedAt.Time
					t.revertedAt = &ra
				}
			case *AcctRow:
				first[row.Address] = row.FirstUsage.Time
			}
		}
	}
	var out []pitTx
	for _, t := range txs {
		out = append(out, *t)
	}
	sort.Slice(out, func(a, b int) bool { return out[a].id < out[b].id })
	return out, first
}

func checkPITReads(r *runner) []Violation {
	var vs []Violation
	prop := r.sc.Property
	hist := map[string][]pitTx{}
	firsts := map[string]map[string]gotime.Time{}
	param := func(query, name string) string {
		for _, kv := range strings.Split(query, "&") {
			if v, ok := strings.CutPrefix(kv, name+"="); ok {
				return v
			}
		}
		return ""
	}
	for _, or := range r.results {
		if or.Op.Kind != KRaw || or.Op.Raw == nil || or.Op.Raw.Method != "GET" || or.Out.Class != "ok" {
			continue // (an answered read is judged even if a fault struck it: a fault may cost an answer, not falsify it)
		}
		path, query, _ := strings.Cut(or.Op.Raw.Path, "?")
		parts := strings.Split(strings.Trim(path, "/"), "/")
		if len(parts) < 3 || parts[0] != "v2" {
			continue
		}
		ledgerName, resource := parts[1], parts[2]
		if _, ok := hist[ledgerName]; !ok {
			hist[ledgerName], firsts[ledgerName] = r.pitHistory(ledgerName)
			if ledgerName == "lc" {
				// the copy holds the transactions of its source, with the source's dates and revert dates: the
				// reference is the source's rows (for the ids the copy holds), not what the import wrote
				src, _ := r.pitHistory("l1")
				byID := map[uint64]pitTx{}
				for _, t := range src {
					byID[t.id] = t
				}
				var ref []pitTx
				for _, t := range hist[ledgerName] {
					if s, ok := byID[t.id]; ok {
						s.event = t.event
						ref = append(ref, s)
					}
				}
				hist[ledgerName] = ref
			}
		}
		txs, first := hist[ledgerName], firsts[ledgerName]
		parse := func(s string) *gotime.Time {
			if s == "" {
				return nil
			}
			t, err := gotime.Parse(gotime.RFC3339Nano, s)
			if err != nil {
				return nil
			}
			return &t
		}
		pit, oot := parse(param(query, "pit")), parse(param(query, "oot"))
		if pit == nil {
			pit = parse(param(query, "endTime"))
		}
		if oot == nil {
			oot = parse(param(query, "startTime"))
		}
		if pit == nil && oot == nil {
			continue
		}
		// the transactions the racing writer adds are dated 2030 and inserted after the history: an instant at or
		// after 2030 (effective) or a window open to the right would see them or not depending on the race
		racy := func(byInsertion bool) bool {
			if pit == nil {
				return true
			}
			if byInsertion {
				// insertion instants are chosen inside the written history: anything later is racy
				for _, t := range txs {
					if t.event > or.Out.Invoke && !t.ins.After(*pit) {
						return true
					}
				}
				return false
			}
			return !pit.Before(gotime.Date(2030, 1, 1, 0, 0, 0, 0, gotime.UTC))
		}
		fold := func(byInsertion bool, only string) map[string][2]*big.Int {
			out := map[string][2]*big.Int{}
			add := func(account, asset string, in, o *big.Int) {
				if only != "" && account != only {
					return
				}
				k := account + " " + asset
				v, ok := out[k]
				if !ok {
					v = [2]*big.Int{new(big.Int), new(big.Int)}
				}
				out[k] = [2]*big.Int{new(big.Int).Add(v[0], in), new(big.Int).Add(v[1], o)}
			}
			for _, t := range txs {
				d := t.eff
				if byInsertion {
					d = t.ins
				}
				if (pit != nil && d.After(*pit)) || (oot != nil && d.Before(*oot)) {
					continue
				}
				for _, p := range t.postings {
					add(p.Source, p.Asset, new(big.Int), p.Amount)
					add(p.Destination, p.Asset, p.Amount, new(big.Int))
				}
			}
			return out
		}
		lines := func(m map[string][2]*big.Int) []string {
			var out []string
			for k, v := range m {
				if v[0].Sign() == 0 && v[1].Sign() == 0 {
					continue
				}
				out = append(out, fmt.Sprintf("%s in=%s out=%s", k, v[0], v[1]))
			}
			sort.Strings(out)
			return out
		}
		dec := func(into any) bool {
			d := json.NewDecoder(strings.NewReader(string(or.Out.Body)))
			d.UseNumber()
			return d.Decode(into) == nil
		}
		gotVol := func(account string, m map[string]volJSON, into map[string][2]*big.Int) bool {
			for as, v := range m {
				in, o, b := bigNum(v.Input), bigNum(v.Output), bigNum(v.Balance)
				if in == nil || o == nil || b == nil || new(big.Int).Sub(in, o).Cmp(b) != 0 {
					return false
				}
				into[account+" "+as] = [2]*big.Int{in, o}
			}
			return true
		}
		report := func(clause, what string, got, want []string) {
			r.w.probe("pit_read_judged")
			if strings.Join(got, "; ") != strings.Join(want, "; ") {
				vs = append(vs, Violation{prop, clause, fmt.Sprintf("%s GET %s %s reported %s {%s}; the fold of the history gives {%s}", or.Op.ID, or.Op.Raw.Path, or.Op.Raw.Body, what, strings.Join(got, "; "), strings.Join(want, "; "))})
			} else {
				r.w.probe("pit_read_matches")
			}
		}
		switch {
		case resource == "volumes":
			byIns := param(query, "insertionDate") == "true"
			if racy(byIns) {
				continue
			}
			var env struct {
				Cursor struct {
					HasMore bool `json:"hasMore"`
					Data    []struct {
						Account string `json:"account"`
						Asset   string `json:"asset"`
						volJSON
					} `json:"data"`
				} `json:"cursor"`
			}
			if !dec(&env) || env.Cursor.HasMore {
				continue
			}
			got := map[string][2]*big.Int{}
			ok := true
			for _, v := range env.Cursor.Data {
				ok = gotVol(v.Account, map[string]volJSON{v.Asset: v.volJSON}, got) && ok
			}
			if !ok {
				vs = append(vs, Violation{prop, "window-volumes-equal-the-fold", fmt.Sprintf("%s GET %s: a balance is not input - output: %s", or.Op.ID, or.Op.Raw.Path, or.Out.Body)})
				continue
			}
			report("window-volumes-equal-the-fold", "volumes", lines(got), lines(fold(byIns, "")))
		case resource == "accounts" && len(parts) == 4 && param(query, "expand") != "":
			byIns := param(query, "expand") == "volumes"
			if racy(byIns) {
				continue
			}
			var env struct {
				Data struct {
					Volumes          map[string]volJSON `json:"volumes"`
					EffectiveVolumes map[string]volJSON `json:"effectiveVolumes"`
				} `json:"data"`
			}
			if !dec(&env) {
				continue
			}
			m := env.Data.EffectiveVolumes
			if byIns {
				m = env.Data.Volumes
			}
			got := map[string][2]*big.Int{}
			if !gotVol(parts[3], m, got) {
				vs = append(vs, Violation{prop, "volumes-at-a-point-in-time-equal-the-fold", fmt.Sprintf("%s GET %s: a balance is not input - output: %s", or.Op.ID, or.Op.Raw.Path, or.Out.Body)})
				continue
			}
			report("volumes-at-a-point-in-time-equal-the-fold", param(query, "expand"), lines(got), lines(fold(byIns, parts[3])))
		case resource == "accounts" && len(parts) == 3:
			var env struct {
				Cursor struct {
					HasMore bool `json:"hasMore"`
					Data    []struct {
						Address          string             `json:"address"`
						Volumes          map[string]volJSON `json:"volumes"`
						EffectiveVolumes map[string]volJSON `json:"effectiveVolumes"`
					} `json:"data"`
				} `json:"cursor"`
			}
			if !dec(&env) || env.Cursor.HasMore {
				continue
			}
			var got, want []string
			for _, a := range env.Cursor.Data {
				got = append(got, a.Address)
			}
			for a, fu := range first {
				if !fu.After(*pit) {
					want = append(want, a)
				}
			}
			sort.Strings(got)
			sort.Strings(want)
			report("accounts-appear-from-their-first-usage", "accounts", got, want)
			if exp := param(query, "expand"); exp != "" && !racy(exp == "volumes") {
				gv := map[string][2]*big.Int{}
				ok := true
				for _, a := range env.Cursor.Data {
					m := a.EffectiveVolumes
					if exp == "volumes" {
						m = a.Volumes
					}
					ok = gotVol(a.Address, m, gv) && ok
				}
				if ok {
					// (an account is listed from its first usage - an effective date - on, whatever the date mode of
					// the volumes: compare the volumes of the accounts that are listed)
					listed := map[string]bool{}
					for _, a := range env.Cursor.Data {
						listed[a.Address] = true
					}
					wantV := map[string][2]*big.Int{}
					for k, v := range fold(exp == "volumes", "") {
						if listed[k[:strings.Index(k, " ")]] {
							wantV[k] = v
						}
					}
					report("volumes-at-a-point-in-time-equal-the-fold", exp+" of the listed accounts", lines(gv), lines(wantV))
				}
			}
		case resource == "accounts" && len(parts) == 4:
			// (a single account read without expansion: nothing dated to judge but its presence, answered 200)
			if fu, ok := first[parts[3]]; ok && fu.After(*pit) {
				vs = append(vs, Violation{prop, "accounts-appear-from-their-first-usage", fmt.Sprintf("%s GET %s answered 200; the first usage of %s is %s", or.Op.ID, or.Op.Raw.Path, parts[3], fu.UTC().Format(gotime.RFC3339Nano))})
			}
		case resource == "aggregate":
			byIns := param(query, "useInsertionDate") == "true"
			if racy(byIns) {
				continue
			}
			var env struct {
				Data map[string]json.Number `json:"data"`
			}
			if !dec(&env) {
				continue
			}
			var got, want []string
			for as, b := range env.Data {
				if b.String() != "0" {
					got = append(got, fmt.Sprintf("%s balance=%s", as, b))
				}
			}
			agg := map[string]*big.Int{}
			for k, v := range fold(byIns, or.Op.Address) {
				as := k[strings.LastIndex(k, " ")+1:]
				if agg[as] == nil {
					agg[as] = new(big.Int)
				}
				agg[as].Add(agg[as], new(big.Int).Sub(v[0], v[1]))
			}
			for as, b := range agg {
				if b.Sign() != 0 {
					want = append(want, fmt.Sprintf("%s balance=%s", as, b))
				}
			}
			sort.Strings(got)
			sort.Strings(want)
			report("balances-at-a-point-in-time-equal-the-fold", "balances", got, want)
		case resource == "transactions":
			type txItem struct {
				ID       uint64 `json:"id"`
				Reverted bool   `json:"reverted"`
			}
			var items []txItem
			if len(parts) == 4 {
				var env struct {
					Data txItem `json:"data"`
				}
				if !dec(&env) {
					continue
				}
				items = []txItem{env.Data}
			} else {
				var env struct {
					Cursor struct {
						HasMore bool     `json:"hasMore"`
						Data    []txItem `json:"data"`
					} `json:"cursor"`
				}
				if !dec(&env) || env.Cursor.HasMore {
					continue
				}
				items = env.Cursor.Data
			}
			byID := map[uint64]pitTx{}
			for _, t := range txs {
				byID[t.id] = t
			}
			var got, want []string
			for _, it := range items {
				got = append(got, fmt.Sprintf("%d reverted=%v", it.ID, it.Reverted))
			}
			if len(parts) == 4 {
				for _, it := range items {
					if t, ok := byID[it.ID]; ok {
						want = append(want, fmt.Sprintf("%d reverted=%v", t.id, t.revertedAt != nil && !t.revertedAt.After(*pit)))
						if t.eff.After(*pit) {
							want = []string{fmt.Sprintf("(transaction %d is dated %s: not found)", t.id, t.eff.UTC().Format(gotime.RFC3339Nano))}
						}
					}
				}
			} else {
				for _, t := range txs {
					if t.event > or.Out.Invoke {
						continue // appended while the readers ran (dated 2030)
					}
					if !t.eff.After(*pit) {
						want = append(want, fmt.Sprintf("%d reverted=%v", t.id, t.revertedAt != nil && !t.revertedAt.After(*pit)))
					}
				}
				// a transaction appended during the read and dated 2030 may only show for an instant in 2030 or later
				var kept []string
				for _, gl := range got {
					var id uint64
					fmt.Sscanf(gl, "%d", &id)
					if t, ok := byID[id]; ok && t.event > or.Out.Invoke && !t.eff.After(*pit) {
						continue
					}
					kept = append(kept, gl)
				}
				got = kept
			}
			sort.Strings(got)
			sort.Strings(want)
			report("transactions-appear-from-their-timestamp-with-the-revert-of-that-time", "transactions", got, want)
		}
	}
	return vs
}
