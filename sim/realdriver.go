package sim

// Stage 2b (real-SQL runs only): the REAL internal/storage/driver.Driver (OpenLedger / CreateLedger, with the
// alone-in-bucket refresh) and the REAL ledgerstore.Factory build the ledger stores, over a fake bucket
// (migrations are not simulated: a bucket is always initialised and up to date, AddLedger creates the two
// per-ledger sequences) and a fake system store (the _system.ledgers rows of simpg). The simple reads the
// service performs itself - log listing (export, import's last-log check), transaction / account / schema
// look-ups - then go through the real resource repositories, the real column paginator and the real
// newScopedSelect, their SQL interpreted by sqlmini; any read whose SQL is outside the interpreter's grammar
// (filters, expansions, point in time, counts) is served by the contract model instead, silently: reads
// have no effect, so the fallback is safe.

import (
	"context"
	"database/sql"
	"errors"
	"fmt"
	"os"
	"regexp"
	"strings"
	gotime "time"

	"github.com/jackc/pgx/v5/pgconn"
	"github.com/uptrace/bun"
	nooptrace "go.opentelemetry.io/otel/trace/noop"

	"github.com/formancehq/go-libs/v5/pkg/storage/bun/paginate"
	"github.com/formancehq/go-libs/v5/pkg/storage/migrations"
	"github.com/formancehq/go-libs/v5/pkg/storage/postgres"
	"github.com/formancehq/go-libs/v5/pkg/types/metadata"
	"github.com/formancehq/go-libs/v5/pkg/types/time"

	ledger "github.com/formancehq/ledger/internal"
	"github.com/formancehq/ledger/internal/storage/bucket"
	"github.com/formancehq/ledger/internal/storage/common"
	storagedriver "github.com/formancehq/ledger/internal/storage/driver"
	ledgerstore "github.com/formancehq/ledger/internal/storage/ledger"
	systemstore "github.com/formancehq/ledger/internal/storage/system"
	"github.com/formancehq/ledger/pkg/features"
)

// ---- soft "unsupported": a read that the interpreter cannot serve falls back to the model ----

type softSQLKeyT struct{}

var softSQLKey softSQLKeyT

func softSQL(ctx context.Context) context.Context { return context.WithValue(ctx, softSQLKey, true) }

func isUnsupportedSQL(err error) bool {
	var pge *pgconn.PgError
	if errors.As(err, &pge) && pge.Code == "0A000" {
		return true
	}
	var pe postgres.ErrConstraintsFailed
	_ = pe
	return false
}

// ---- fake bucket ----

type fakeBucketFactory struct{ inc *Incarnation }

func (f fakeBucketFactory) Create(name string) bucket.Bucket { return fakeBucket{f.inc, name} }
func (f fakeBucketFactory) GetMigrator(b string, db bun.IDB) *migrations.Migrator {
	return nil
}

type fakeBucket struct {
	inc  *Incarnation
	name string
}

func (b fakeBucket) Migrate(ctx context.Context, db bun.IDB, opts ...migrations.Option) error {
	return nil
}
func (b fakeBucket) HasMinimalVersion(ctx context.Context, db bun.IDB) (bool, error) {
	return true, nil
}
func (b fakeBucket) IsUpToDate(ctx context.Context, db bun.IDB) (bool, error)    { return true, nil }
func (b fakeBucket) IsInitialized(context.Context, bun.IDB) (bool, error)        { return true, nil }
func (b fakeBucket) GetLastVersion(ctx context.Context, db bun.IDB) (int, error) { return 0, nil }
func (b fakeBucket) GetMigrationsInfo(ctx context.Context, db bun.IDB) ([]migrations.Info, error) {
	return nil, nil
}

// AddLedger is the REAL bucket.DefaultBucket.AddLedger: it renders the repository's ledgerSetups templates
// (per-ledger sequences, per-feature triggers) and sends them; the sim driver recognises the DDL
// (sqlmini_ddl.go).
func (b fakeBucket) AddLedger(ctx context.Context, db bun.IDB, l ledger.Ledger) error {
	return bucket.NewDefault(nooptrace.Tracer{}, b.name).AddLedger(ctx, db, l)
}

// ---- fake system store (only what the storage driver needs) ----

type fakeSysStoreFactory struct{ inc *Incarnation }

func (f fakeSysStoreFactory) Create(db bun.IDB) systemstore.Store { return &fakeSysStore{f.inc, db} }

type fakeSysStore struct {
	inc *Incarnation
	db  bun.IDB
}

// sysCallOn runs fn as a statement on the session behind handle db (a bun.DB, bun.Tx or bun.Conn).
func (inc *Incarnation) sysCallOn(ctx context.Context, db bun.IDB, op, note string, kinds []FaultKind, fn func(sess *Session) error) error {
	w := inc.w
	if f := w.Yield(ctx, op, note, kinds...); f != nil {
		switch f.Kind {
		case FShutdown:
			return errShutdown
		case FStmtErr, FStorageErr, FConnLost:
			return postgres.ResolveError(pgErr("53100", "system store failure (injected)", ""))
		}
	}
	task := taskKeyOf(ctx)
	id := w.registerCall(func(ctx context.Context, c *conn) error {
		return w.runStmt(ctx, c, func() error {
			return c.sess.stmt(task, func() error { return fn(c.sess) })
		})
	})
	_, err := db.ExecContext(ctx, fmt.Sprintf("SIMCALL %d", id))
	w.takeCall(id)
	return postgres.ResolveError(err)
}

func (s *fakeSysStore) CreateLedger(ctx context.Context, l *ledger.Ledger) error {
	if l.Metadata == nil {
		l.Metadata = metadata.Metadata{}
	}
	return s.inc.sysCallOn(ctx, s.db, "CreateLedger", l.Name, []FaultKind{FCrash}, func(sess *Session) error {
		k := rowKey{"ledger", "", l.Name}
		if err := sess.lockRow(k); err != nil {
			return err
		}
		if sess.get(k) != nil {
			return systemstore.ErrLedgerAlreadyExists
		}
		id := int(sess.db.nextvalLocked("_system.ledgers_id"))
		now := sess.db.nowLocked()
		sess.put(k, &LedgerRow{ID: id, Name: l.Name, Bucket: l.Bucket, Features: copyMeta(l.Features),
			Metadata: copyMeta(l.Metadata), State: l.State, AddedAt: now})
		l.ID = id
		l.AddedAt = time.New(now)
		return nil
	})
}

func (s *fakeSysStore) GetLedger(ctx context.Context, name string) (*ledger.Ledger, error) {
	var l *ledger.Ledger
	err := s.inc.sysCallOn(ctx, s.db, "GetLedger", name, []FaultKind{FCrash}, func(sess *Session) error {
		row, _ := sess.get(rowKey{"ledger", "", name}).(*LedgerRow)
		if row == nil {
			return sql.ErrNoRows
		}
		l = ledgerFromRow(row)
		return nil
	})
	if err == nil {
		// the answer travels back to the service: other requests may run meanwhile
		s.inc.w.Yield(ctx, "GetLedger:reply", name)
	}
	return l, err
}

func (s *fakeSysStore) CountLedgersInBucket(ctx context.Context, b string) (int, error) {
	n := 0
	err := s.inc.sysCallOn(ctx, s.db, "CountLedgersInBucket", b, []FaultKind{FCrash}, func(sess *Session) error {
		n = 0
		for _, k := range sess.scan("ledger", "") {
			if r, ok := sess.get(k).(*LedgerRow); ok && r.Bucket == b {
				n++
			}
		}
		return nil
	})
	if err == nil {
		s.inc.w.Yield(ctx, "CountLedgersInBucket:reply", b)
	}
	return n, err
}

func (s *fakeSysStore) GetDistinctBuckets(ctx context.Context) ([]string, error) {
	return nil, s.inc.w.harnessErr("simpg: GetDistinctBuckets unsupported")
}
func (s *fakeSysStore) DeleteLedgerMetadata(ctx context.Context, name string, key string) error {
	return s.inc.w.harnessErr("simpg: fake system store: DeleteLedgerMetadata")
}
func (s *fakeSysStore) UpdateLedgerMetadata(ctx context.Context, name string, m metadata.Metadata) error {
	return s.inc.w.harnessErr("simpg: fake system store: UpdateLedgerMetadata")
}
func (s *fakeSysStore) Ledgers() common.PaginatedResource[ledger.Ledger, systemstore.ListLedgersQueryPayload] {
	return ledgersResource{s.inc}
}
func (s *fakeSysStore) DeleteBucket(ctx context.Context, b string) error {
	return s.inc.w.harnessErr("simpg: DeleteBucket unsupported")
}
func (s *fakeSysStore) RestoreBucket(ctx context.Context, b string) error {
	return s.inc.w.harnessErr("simpg: RestoreBucket unsupported")
}
func (s *fakeSysStore) GetDeletedBucketsOlderThan(ctx context.Context, olderThan gotime.Time) ([]string, error) {
	return nil, s.inc.w.harnessErr("simpg: GetDeletedBucketsOlderThan unsupported")
}
func (s *fakeSysStore) HardDeleteBucket(ctx context.Context, b string) error {
	return s.inc.w.harnessErr("simpg: HardDeleteBucket unsupported")
}
func (s *fakeSysStore) Migrate(ctx context.Context, options ...migrations.Option) error { return nil }
func (s *fakeSysStore) GetMigrator(options ...migrations.Option) *migrations.Migrator   { return nil }
func (s *fakeSysStore) IsUpToDate(ctx context.Context) (bool, error)                    { return true, nil }

// newRealDriver assembles the real storage driver of an incarnation.
func newRealDriver(inc *Incarnation) *storagedriver.Driver {
	return storagedriver.New(inc.bunDB, ledgerstore.NewFactory(inc.bunDB), fakeBucketFactory{inc}, fakeSysStoreFactory{inc})
}

// realFirst serves a read through the real resource repository when the interpreter can run its SQL, and
// through the contract model otherwise.
type realFirst[T any, O any] struct {
	real  common.PaginatedResource[T, O]
	model common.PaginatedResource[T, O]
	w     *World
	l     *ledger.Ledger // when set: the statements of the read are audited against this ledger's features
}

// noteRefusal records that the real storage layer refused a read for a feature (missing-feature error, or the
// invalid-query error the expansions use for it).
func noteRefusal(w *World, ctx context.Context, err error) {
	if err == nil {
		return
	}
	if errors.Is(err, ledgerstore.ErrMissingFeature{}) || (errors.Is(err, common.ErrInvalidQuery{}) && strings.Contains(err.Error(), "feature ")) {
		w.mu.Lock()
		if w.refusals == nil {
			w.refusals = map[string]string{}
		}
		w.refusals[taskKeyOf(ctx)] = err.Error()
		w.mu.Unlock()
	}
}

func (r realFirst[T, O]) ctx(ctx context.Context) context.Context {
	if r.l != nil {
		ctx = withReadLedger(ctx, r.l)
	}
	return softSQL(ctx)
}

func (r realFirst[T, O]) GetOne(ctx context.Context, q common.ResourceQuery[O]) (*T, error) {
	out, err := r.real.GetOne(r.ctx(ctx), q)
	if isUnsupportedSQL(err) {
		r.w.probe("read_fallback_to_model")
		return r.model.GetOne(ctx, q)
	}
	r.w.probe("read_through_real_sql")
	noteRefusal(r.w, ctx, err)
	return out, err
}

func (r realFirst[T, O]) Count(ctx context.Context, q common.ResourceQuery[O]) (int, error) {
	out, err := r.real.Count(r.ctx(ctx), q)
	if isUnsupportedSQL(err) {
		r.w.probe("read_fallback_to_model")
		return r.model.Count(ctx, q)
	}
	r.w.probe("read_through_real_sql")
	noteRefusal(r.w, ctx, err)
	return out, err
}

func (r realFirst[T, O]) Paginate(ctx context.Context, q common.PaginatedQuery[O]) (*paginate.Cursor[T], error) {
	out, err := r.real.Paginate(r.ctx(ctx), q)
	if sqlTrace && err != nil {
		fmt.Fprintf(os.Stderr, "SQLTRACE real Paginate error: %T %v (query %T %+v)\n", err, err, q, q)
	}
	if isUnsupportedSQL(err) {
		r.w.probe("read_fallback_to_model")
		return r.model.Paginate(ctx, q)
	}
	r.w.probe("read_through_real_sql")
	noteRefusal(r.w, ctx, err)
	return out, err
}

// realFirstRes: the same for a non-paginated resource (aggregated balances).
type realFirstRes[T any, O any] struct {
	real  common.Resource[T, O]
	model common.Resource[T, O]
	w     *World
	l     *ledger.Ledger
}

func (r realFirstRes[T, O]) GetOne(ctx context.Context, q common.ResourceQuery[O]) (*T, error) {
	out, err := r.real.GetOne(softSQL(withReadLedger(ctx, r.l)), q)
	if isUnsupportedSQL(err) {
		r.w.probe("read_fallback_to_model")
		return r.model.GetOne(ctx, q)
	}
	r.w.probe("read_through_real_sql")
	noteRefusal(r.w, ctx, err)
	return out, err
}

func (r realFirstRes[T, O]) Count(ctx context.Context, q common.ResourceQuery[O]) (int, error) {
	out, err := r.real.Count(softSQL(withReadLedger(ctx, r.l)), q)
	if isUnsupportedSQL(err) {
		r.w.probe("read_fallback_to_model")
		return r.model.Count(ctx, q)
	}
	r.w.probe("read_through_real_sql")
	noteRefusal(r.w, ctx, err)
	return out, err
}

// ---- read audit (C35, read side) ----
//
// The simulated database knows which tables and columns a ledger's features leave empty: with MOVES_HISTORY
// other than ON the service inserts no row into moves for that ledger, and with
// MOVES_HISTORY_POST_COMMIT_EFFECTIVE_VOLUMES other than SYNC nothing fills post_commit_effective_volumes. A read
// statement of the storage layer that selects from moves (or uses that column) on behalf of such a ledger can
// only produce an answer that is silently wrong - the property demands a missing-feature refusal instead, which
// the storage layer raises BEFORE it sends anything. So every statement sent under a read of ledger L is audited
// here, whether or not the interpreter can then execute it.

type stmtLedgerKeyT struct{}

var stmtLedgerKey stmtLedgerKeyT

// stmtLedgerOf: the ledger a statement is executed for (write path: SimStore.lctx; reads: withReadLedger).
func stmtLedgerOf(ctx context.Context) string {
	if n, ok := ctx.Value(stmtLedgerKey).(string); ok {
		return n
	}
	if l, _ := ctx.Value(readLedgerKey).(*ledger.Ledger); l != nil {
		return l.Name
	}
	return ""
}

// ForeignRow: a statement executed on behalf of one ledger matched (returned, locked, updated or deleted) a row
// of another ledger of the bucket.
type ForeignRow struct {
	Task      string
	Ledger    string
	RowLedger string
	Table     string
	Key       string
	Event     uint64
	SQL       string
}

type readLedgerKeyT struct{}

var readLedgerKey readLedgerKeyT

func withReadLedger(ctx context.Context, l *ledger.Ledger) context.Context {
	return context.WithValue(ctx, readLedgerKey, l)
}

type FeatureMisread struct {
	Task    string
	Ledger  string
	Feature string
	Value   string
	SQL     string
}

var (
	reFromMoves    = regexp.MustCompile(`(?i)\b(from|join)\s+(\(\s*)?("?[\w-]+"?\.)?"?moves"?(\s|\)|$)`)
	reFromAcctMeta = regexp.MustCompile(`(?i)\b(from|join)\s+(\(\s*)?("?[\w-]+"?\.)?"?accounts_metadata"?(\s|\)|$)`)
	reFromTxMeta   = regexp.MustCompile(`(?i)\b(from|join)\s+(\(\s*)?("?[\w-]+"?\.)?"?transactions_metadata"?(\s|\)|$)`)
	rePCEVCol      = regexp.MustCompile(`(?i)\bpost_commit_effective_volumes\b`)
)

// UnscopedRead: a read statement with more references to tables of the ledger's bucket than `ledger = '<name>'`
// predicates. Legitimate while the ledger is alone in its bucket (the alone-in-bucket shortcut of
// newScopedSelect); judged by checkReadsAreScoped against the bucket's population at that moment.
type UnscopedRead struct {
	Task   string
	Ledger string
	Bucket string
	Event  uint64
	Refs   int
	Scoped int
	Tables []string
	SQL    string
}

func (w *World) eventNow() uint64 {
	w.db.mu.Lock()
	defer w.db.mu.Unlock()
	return w.eventCtr
}

func (w *World) auditRead(ctx context.Context, query string) {
	l, _ := ctx.Value(readLedgerKey).(*ledger.Ledger)
	if l == nil {
		return
	}
	q := normSQL(query)
	if !strings.HasPrefix(strings.ToLower(q), "select") && !strings.HasPrefix(strings.ToLower(q), "with") {
		return
	}
	short := q
	if len(short) > 300 {
		short = short[:300] + "..."
	}
	// ledger scoping: every reference to a table of the bucket needs its own ledger predicate
	reRef := regexp.MustCompile(`(?i)\b(?:from|join)\s+(?:\(\s*)?"?` + regexp.QuoteMeta(l.Bucket) + `"?\."?(\w+)"?`)
	// a reference is scoped by `ledger = '<name>'`, `ledger in ('<name>')`, or by an equality with the ledger column
	// of another (scoped) relation
	name := regexp.QuoteMeta(strings.ReplaceAll(l.Name, "'", "''"))
	reScope := regexp.MustCompile(`(?i)\bledger"?\s*(?:=\s*'` + name + `'|in\s*\(\s*'` + name + `'\s*\)|=\s*"?\w+"?\."?ledger"?\b)`)
	refs := reRef.FindAllStringSubmatch(q, -1)
	scoped := len(reScope.FindAllString(q, -1))
	w.mu.Lock()
	if w.readTables == nil {
		w.readTables = map[string]map[string]bool{}
	}
	task := taskKeyOf(ctx)
	if w.readTables[task] == nil {
		w.readTables[task] = map[string]bool{}
	}
	for _, m := range refs {
		w.readTables[task][strings.ToLower(m[1])] = true
	}
	w.mu.Unlock()
	if len(refs) > scoped {
		u := UnscopedRead{Task: taskKeyOf(ctx), Ledger: l.Name, Bucket: l.Bucket, Refs: len(refs), Scoped: scoped, SQL: q}
		for _, m := range refs {
			u.Tables = append(u.Tables, strings.ToLower(m[1]))
		}
		if len(u.SQL) > 1500 {
			u.SQL = u.SQL[:1500] + "..."
		}
		u.Event = w.eventNow()
		w.mu.Lock()
		w.unscoped = append(w.unscoped, u)
		w.mu.Unlock()
	}
	add := func(feature string) {
		w.mu.Lock()
		w.misreads = append(w.misreads, FeatureMisread{Task: taskKeyOf(ctx), Ledger: l.Name, Feature: feature, Value: l.Features[feature], SQL: short})
		w.mu.Unlock()
	}
	if reFromMoves.MatchString(q) {
		w.probe("read_statement_on_moves")
		if !l.HasFeature(features.FeatureMovesHistory, "ON") {
			add(features.FeatureMovesHistory)
			return
		}
	}
	if rePCEVCol.MatchString(q) {
		w.probe("read_statement_on_effective_volumes")
		if !l.HasFeature(features.FeatureMovesHistoryPostCommitEffectiveVolumes, "SYNC") {
			add(features.FeatureMovesHistoryPostCommitEffectiveVolumes)
		}
	}
	// the metadata history tables are filled (by trigger) only when the corresponding feature is SYNC; a read on
	// a ledger without it must use the current metadata, not a history that was never written
	if reFromAcctMeta.MatchString(q) {
		w.probe("read_statement_on_accounts_metadata_history")
		if !l.HasFeature(features.FeatureAccountMetadataHistory, "SYNC") {
			add(features.FeatureAccountMetadataHistory)
		}
	}
	if reFromTxMeta.MatchString(q) {
		w.probe("read_statement_on_transactions_metadata_history")
		if !l.HasFeature(features.FeatureTransactionMetadataHistory, "SYNC") {
			add(features.FeatureTransactionMetadataHistory)
		}
	}
}
