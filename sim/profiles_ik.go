package sim

// C13: idempotency keys give exactly-once effects.

import (
	"fmt"
	"sort"
	"strings"
	"time"

	"github.com/anishathalye/porcupine"
)

func init() {
	register(Profile{Property: "C13", Name: "idempotency", Gen: genIK})
}

// genIK: groups of requests sharing an idempotency key (same input, sometimes one with a different
// input), of every write kind, spread over concurrent clients, with funding / spending traffic on the
// account the keyed spends draw from.
func genIK(r *RNG, seed uint64, tier string) (*Scenario, *ExploreCfg) {
	sc := &Scenario{Property: "C13", Profile: "idempotency", Knobs: randomKnobs(r), Checks: []string{"logs-match-ops", "replay", "ik"}, Params: map[string]string{}}
	g := &gen{r: r, sc: sc}
	funds := 10 + r.Intn(30)
	sc.Params["funds"] = fmt.Sprint(funds)
	// setup: ledger, fund u:1 only (USD), plus three target transactions for revert / metadata groups
	sc.Setup = []Op{{ID: g.id("s"), Kind: KCreateLedger, Ledger: "l1", Feats: ledgerFeatures(sc.Knobs)},
		{ID: g.id("s"), Kind: KPostings, Ledger: "l1", Postings: []PostingSpec{{"world", "u:1", fmt.Sprint(funds), "USD"}}}}
	g.txN = 1
	for i := 0; i < 3; i++ {
		op := Op{ID: g.id("s"), Kind: KPostings, Ledger: "l1", Postings: []PostingSpec{{"world", "t:" + fmt.Sprint(i), "5", "EUR/2"}}}
		op.Metadata = map[string]string{"d.k" + op.ID: "x"}
		sc.Setup = append(sc.Setup, op)
		g.txN++
	}
	nc := 2 + r.Intn(3)
	clients := make([][]Op, nc)
	ngroups := 1 + r.Intn(2)
	for gi := 0; gi < ngroups; gi++ {
		ik := fmt.Sprintf("key-%d", gi)
		var base Op
		switch x := r.Intn(10); {
		case x < 5: // spend most of the balance: a second execution would fail on its own
			amt := funds/2 + 1 + r.Intn(funds/2)
			base = Op{Kind: KPostings, Postings: []PostingSpec{{"u:1", "bank", fmt.Sprint(amt), "USD"}}}
		case x < 6 && r.Chance(0.4):
			// a postings request with several distinct amounts and assets (its translation into a script must be the
			// same text every time, or the replay's hash differs from the stored one)
			base = Op{Kind: KPostings, Postings: []PostingSpec{{"world", fmt.Sprintf("m:%d", gi), "3", "USD"}, {"world", fmt.Sprintf("m:%d", gi), "4", "EUR/2"},
				{"world", fmt.Sprintf("n:%d", gi), "5", "USD"}, {"world", fmt.Sprintf("n:%d", gi), "6", "EUR/2"}, {"world", "bank", "7", "USD"}}}
		case x < 6 && r.Bool():
			// a script that sets transaction and account metadata itself (the request carries metadata too)
			base = Op{Kind: KScript, Script: fmt.Sprintf("send [USD 3] (\n  source = @world\n  destination = @w:%d\n)\nset_tx_meta(\"category\", \"c%d\")\nset_account_meta(@w:%d, \"k\", \"v\")\n", gi, gi, gi)}
		case x < 6:
			base = Op{Kind: KScript, Script: "send [USD *] (\n  source = @u:1\n  destination = @bank\n)\n", Sem: &ScriptSem{Asset: "USD", Amount: "*", Sources: []SourceSem{{Account: "u:1"}}, Dest: "bank"}}
		case x < 7:
			base = Op{Kind: KRevert, TxID: uint64(2 + gi), Force: true}
		case x < 8:
			sid := sc.Setup[2+gi].ID
			base = Op{Kind: KTxMetaDel, TxID: uint64(2 + gi), Key: "d.k" + sid}
		case x < 9:
			base = Op{Kind: KAcctMetaSet, Address: "t:0"}
		default:
			base = Op{Kind: KTxMetaSet, TxID: uint64(2 + gi)}
		}
		base.Ledger = "l1"
		base.IK = ik
		base.Sig = fmt.Sprintf("g%d", gi)
		switch base.Kind {
		case KAcctMetaSet, KTxMetaSet:
			base.Metadata = map[string]string{"m." + base.Sig: "v"}
		case KTxMetaDel:
			base.Sig = strings.TrimPrefix(base.Key, "d.")
		}
		n := 2 + r.Intn(3)
		for i := 0; i < n; i++ {
			op := base
			c := r.Intn(nc)
			clients[c] = append(clients[c], op)
		}
		if r.Chance(0.4) {
			// same key, different input
			v := Op{Kind: KPostings, Ledger: "l1", Postings: []PostingSpec{{"world", "v:" + fmt.Sprint(gi), "3", "USD"}}, IK: ik, Sig: fmt.Sprintf("g%dv", gi)}
			c := r.Intn(nc)
			clients[c] = append(clients[c], v)
		}
	}
	// background traffic on u:1/USD
	nb := r.Intn(4)
	for i := 0; i < nb; i++ {
		c := r.Intn(nc)
		var op Op
		if r.Bool() {
			op = Op{Kind: KPostings, Ledger: "l1", Postings: []PostingSpec{{"world", "u:1", fmt.Sprint(1 + r.Intn(funds)), "USD"}}}
		} else {
			op = Op{Kind: KPostings, Ledger: "l1", Postings: []PostingSpec{{"u:1", "bank", fmt.Sprint(1 + r.Intn(funds)), "USD"}}}
		}
		clients[c] = append(clients[c], op)
	}
	for c := range clients {
		// shuffle each client's ops
		ops := clients[c]
		for i := len(ops) - 1; i > 0; i-- {
			j := r.Intn(i + 1)
			ops[i], ops[j] = ops[j], ops[i]
		}
		for i := range ops {
			ops[i].ID = fmt.Sprintf("c%d.%d", c, i)
			if ops[i].Sig == "" {
				ops[i].Sig = ops[i].ID
			}
		}
		clients[c] = ops
	}
	sc.Clients = clients
	ex := defaultExplore(seed, 0, 0)
	if r.Chance(0.45) {
		ex = defaultExplore(seed, 0.04, 2, FStmtErr, FConnLost, FDeadlock, FCommitClean, FCommitAmbiguous, FCrash, FDisconnect)
	}
	return sc, ex
}

type ikIn struct {
	kind string // fund | spend | spendall
	ik   string
	inp  string
	amt  int64
}

type ikOut struct {
	class string // ok | hit | insufficient | conflict | validation | unknown | nopostings
}

type ikState struct {
	bal     int64
	applied string // sorted "ik=inp;" list
}

func (s ikState) get(ik string) (string, bool) {
	for _, kv := range strings.Split(s.applied, ";") {
		if strings.HasPrefix(kv, ik+"=") {
			return kv[len(ik)+1:], true
		}
	}
	return "", false
}

func (s ikState) with(ik, inp string) ikState {
	parts := []string{}
	for _, kv := range strings.Split(s.applied, ";") {
		if kv != "" {
			parts = append(parts, kv)
		}
	}
	parts = append(parts, ik+"="+inp)
	sort.Strings(parts)
	return ikState{bal: s.bal, applied: strings.Join(parts, ";")}
}

func ikModel(funds int64) porcupine.Model {
	nm := porcupine.NondeterministicModel{
		Init: func() []interface{} { return []interface{}{ikState{bal: funds}} },
		Step: func(state, input, output interface{}) []interface{} {
			s := state.(ikState)
			in := input.(ikIn)
			out := output.(ikOut)
			apply := func() (ikState, bool) {
				amt := in.amt
				if in.kind == "spendall" {
					// "send [A *]" moves whatever is there, possibly nothing
					amt = s.bal
					if amt < 0 {
						amt = 0
					}
				}
				if s.bal < amt {
					return s, false
				}
				n := ikState{bal: s.bal - amt, applied: s.applied}
				if in.ik != "" {
					n = n.with(in.ik, in.inp)
					n.bal = s.bal - amt
				}
				return n, true
			}
			switch in.kind {
			case "fund":
				switch out.class {
				case "ok":
					return []interface{}{ikState{bal: s.bal + in.amt, applied: s.applied}}
				case "unknown":
					return []interface{}{s, ikState{bal: s.bal + in.amt, applied: s.applied}}
				}
				return nil
			default:
				if in.ik != "" {
					if prev, ok := s.get(in.ik); ok {
						switch out.class {
						case "conflict", "unknown":
							return []interface{}{s}
						case "hit", "hit-own":
							if prev == in.inp {
								return []interface{}{s}
							}
						case "validation":
							if prev != in.inp {
								return []interface{}{s}
							}
						}
						return nil
					}
				}
				n, can := apply()
				switch out.class {
				case "ok", "hit-own":
					if can {
						return []interface{}{n}
					}
				case "insufficient":
					if !can {
						return []interface{}{s}
					}
				case "nopostings":
					// sending everything from an empty account: one runtime answers a zero posting, the
					// other "no postings" (runtime agreement is C26, not judged here)
					if in.kind == "spendall" && s.bal <= 0 {
						return []interface{}{s}
					}
				case "conflict":
					return []interface{}{s}
				case "unknown":
					if can {
						return []interface{}{s, n}
					}
					return []interface{}{s}
				}
				return nil
			}
		},
		Equal: func(a, b interface{}) bool { return a.(ikState) == b.(ikState) },
	}
	return nm.ToModel()
}

func ikOutcome(or *OpResult) string {
	switch {
	case uncertain(or) && or.Out.Class != "ok" && or.Out.Class != "client_err":
		return "unknown"
	case or.Out.Class == "ok" && or.Out.Hit && uncertain(or):
		// the caller's own first attempt may have committed behind an ambiguous commit failure
		return "hit-own"
	case or.Out.Class == "ok" && or.Out.Hit:
		return "hit"
	case or.Out.Class == "ok":
		return "ok"
	case or.Out.Class == "client_err" && or.Out.Code == "INSUFFICIENT_FUND":
		return "insufficient"
	case or.Out.Class == "client_err" && or.Out.Code == "NO_POSTINGS":
		return "nopostings"
	case or.Out.Class == "client_err" && or.Out.Code == "CONFLICT":
		return "conflict"
	case or.Out.Class == "client_err" && or.Out.Code == "VALIDATION":
		return "validation"
	case or.Out.Class == "client_err" && or.Out.Code == "INTERPRETER_RUNTIME" && (len(or.Faults) > 0 || strings.Contains(or.Out.Msg, "deadlock detected")):
		// the experimental interpreter hides store errors (deadlock victim, injected failure) behind its
		// own runtime-error type: an explicit failure with no effect (side observation, see DESIGN.md)
		return "faulted"
	case or.Out.Class == "server_err" && len(or.Faults) > 0:
		// a clean store fault: the write failed and (C07) left nothing
		return "faulted"
	}
	return "other:" + or.Out.Class + ":" + or.Out.Code
}

// checkIK runs inside the bubble: structural clauses. The linearizability part is deferred (post).
func checkIK(r *runner, views map[string]*LedgerView) []Violation {
	var vs []Violation
	prop := r.sc.Property
	v := views["l1"]
	if v == nil {
		return nil
	}
	logsBySig := map[string][]LogInfo{}
	logsByIK := map[string]int{}
	for _, lr := range v.Logs {
		if li, err := logInfo(lr); err == nil {
			logsBySig[li.Sig] = append(logsBySig[li.Sig], li)
			if li.IK != "" {
				logsByIK[li.IK]++
			}
		}
	}
	groups := map[string][]*OpResult{}
	for _, or := range r.results {
		if or.Op.IK != "" && or.Phase == "main" {
			groups[or.Op.IK] = append(groups[or.Op.IK], or)
		}
	}
	for _, ik := range sortedKeys(groups) {
		ops := groups[ik]
		total := 0
		sigs := map[string]bool{}
		for _, or := range ops {
			sigs[or.Op.sig()] = true
		}
		for s := range sigs {
			total += len(logsBySig[s])
		}
		if total > 1 {
			vs = append(vs, Violation{prop, "applied-at-most-once", fmt.Sprintf("key %s: %d logs committed for the requests sharing it", ik, total)})
		}
		// which input won
		winner := ""
		for s := range sigs {
			if len(logsBySig[s]) > 0 {
				winner = s
			}
		}
		txIDs := map[uint64]bool{}
		for _, or := range ops {
			out := ikOutcome(or)
			same := or.Op.sig() == winner
			switch {
			case out == "unknown" || out == "faulted" || out == "conflict":
			case strings.HasPrefix(out, "other:"):
				vs = append(vs, Violation{prop, "explicit-answer", fmt.Sprintf("key %s: %s answered %d %s %s", ik, or.Op.ID, or.Out.Status, or.Out.Code, or.Out.Msg)})
			case winner != "" && same && (out == "ok" || out == "hit" || out == "hit-own"):
				if or.Out.Tx != nil {
					txIDs[or.Out.Tx.ID] = true
				}
			case winner != "" && !same && (out == "ok" || out == "hit" || out == "hit-own"):
				vs = append(vs, Violation{prop, "different-input-is-validation-error", fmt.Sprintf("key %s was applied with input %s, but %s (different input) was answered success (hit=%v)", ik, winner, or.Op.ID, or.Out.Hit)})
			case winner == "" && (out == "ok" || out == "hit" || out == "hit-own"):
				if !or.Op.DryRun {
					vs = append(vs, Violation{prop, "acknowledged-write-applied", fmt.Sprintf("key %s: %s answered success but nothing was committed for the key", ik, or.Op.ID)})
				}
			}
			// whatever the kind: a caller that sent the very input the key was applied with is never told its
			// input differs
			if winner != "" && same && out == "validation" && strings.Contains(strings.ToLower(or.Out.Msg), "idempotency") {
				vs = append(vs, Violation{prop, "same-input-is-a-hit-never-a-mismatch", fmt.Sprintf("key %s was applied with input %s; %s sent the same input and was answered %d %s %s", ik, winner, or.Op.ID, or.Out.Status, or.Out.Code, or.Out.Msg)})
			}
			// non balance-dependent kinds: once somebody committed, a same-input caller never gets a business error
			if winner != "" && same && (or.Op.Kind != KPostings && (or.Op.Kind != KScript || or.Op.Sem == nil)) {
				switch out {
				case "ok", "hit", "hit-own", "conflict", "unknown", "faulted":
				default:
					vs = append(vs, Violation{prop, "no-business-error-contradicting-committed-outcome", fmt.Sprintf("key %s is committed, yet %s (%s, same input) was answered %d %s", ik, or.Op.ID, or.Op.Kind, or.Out.Status, or.Out.Code)})
				}
			}
		}
		if len(txIDs) > 1 {
			vs = append(vs, Violation{prop, "callers-get-the-original-result", fmt.Sprintf("key %s: callers were given different transactions %v", ik, txIDs)})
		}
	}
	return vs
}

// ikHistory builds the porcupine history of everything touching u:1/USD.
func ikHistory(results []*OpResult) ([]porcupine.Operation, bool) {
	var h []porcupine.Operation
	// keys whose requests are not all balance-type writes are judged by the structural clauses only
	skipKey := map[string]bool{}
	for _, or := range results {
		op := or.Op
		if op.IK == "" {
			continue
		}
		spend := op.Kind == KPostings && len(op.Postings) == 1 || op.Kind == KScript && op.Sem != nil && op.Sem.Amount == "*"
		if !spend {
			skipKey[op.IK] = true
		}
	}
	for _, or := range results {
		if or.Phase != "main" {
			continue
		}
		op := or.Op
		if op.IK != "" && skipKey[op.IK] {
			continue
		}
		var in ikIn
		switch {
		case op.Kind == KPostings && len(op.Postings) == 1 && op.Postings[0].Destination == "u:1" && op.Postings[0].Source == "world":
			in = ikIn{kind: "fund", amt: int64(u64(op.Postings[0].Amount))}
		case op.Kind == KPostings && len(op.Postings) == 1 && op.Postings[0].Source == "u:1":
			in = ikIn{kind: "spend", ik: op.IK, inp: op.sig(), amt: int64(u64(op.Postings[0].Amount))}
		case op.Kind == KScript && op.Sem != nil && op.Sem.Amount == "*":
			in = ikIn{kind: "spendall", ik: op.IK, inp: op.sig()}
		case op.Kind == KPostings && op.IK != "":
			// different-input variant (funds v:N from world): does not touch u:1 but shares a key
			in = ikIn{kind: "spend", ik: op.IK, inp: op.sig(), amt: 0}
		default:
			continue
		}
		out := ikOutcome(or)
		if out == "faulted" {
			out = "unknown" // handled as: may or may not have applied (conservative)
		}
		if strings.HasPrefix(out, "other:") {
			return nil, false
		}
		h = append(h, porcupine.Operation{ClientId: 0, Input: in, Output: ikOut{out}, Call: int64(or.Out.Invoke), Return: int64(or.Out.Return)})
	}
	return h, true
}

func checkIKLinearizable(prop string, funds int64, results []*OpResult) ([]Violation, bool) {
	h, ok := ikHistory(results)
	if !ok || len(h) == 0 || len(h) > 24 {
		return nil, false
	}
	res := porcupine.CheckOperationsTimeout(ikModel(funds), h, 20*time.Second)
	switch res {
	case porcupine.Illegal:
		var parts []string
		for _, o := range h {
			parts = append(parts, fmt.Sprintf("[%d,%d] %+v -> %s", o.Call, o.Return, o.Input, o.Output.(ikOut).class))
		}
		return []Violation{{prop, "answers-linearizable-against-exactly-once-model", "no linearization of the callers' answers exists in which each key is applied once and business errors reflect the balance at their place: " + strings.Join(parts, "; ")}}, false
	case porcupine.Unknown:
		return nil, true
	}
	return nil, false
}
