package sim

import "fmt"

// checkWritesRacingImport (C12): "either the write sees the imported state, or the import is rejected with
// no effect". A client write that runs while an import is (or has been) at work on the same ledger and on
// which no fault was injected is therefore either accepted or refused for a reason of its own; it is never
// answered a server error (an id collision with imported rows, a panic on a duplicate key...).
func checkWritesRacingImport(r *runner) []Violation {
	var vs []Violation
	for _, or := range r.results {
		if or.Phase != "main" || or.Op.Kind == KImport || or.Op.Kind == KExport || or.Op.Kind == KRaw || or.Op.Kind == KCreateLedger {
			continue
		}
		if len(or.Faults) > 0 || r.gaveUpOnDeadlock(or.Op.ID) {
			continue
		}
		if or.Out.Class == "server_err" || or.Out.Class == "panic" {
			vs = append(vs, Violation{r.sc.Property, "write-racing-an-import-is-served-or-refused-cleanly", fmt.Sprintf("%s (%s on %s), no fault injected, was answered %d %s %s", or.Op.ID, or.Op.Kind, or.Op.Ledger, or.Out.Status, or.Out.Code, or.Out.Msg)})
		}
	}
	return vs
}
