package sim

// sqlmini: the bucket tables the write path of internal/storage/ledger touches, declared by hand from
// internal/storage/bucket/migrations (column names and types, defaults, primary keys and unique indexes
// with the constraint names the Go code matches on), and the per-table adapters between SQL rows and the
// typed rows simpg keeps (the oracles read the typed rows, whichever way they were written).
// The triggers that matter to the code above are written in Go here: set_log_hash (with the assumption
// that Go and SQL hashing agree, property C10), transactions.updated_at, the effective-volumes triggers of
// moves. Metadata-history triggers and the address-array triggers are not modelled.

import (
	"encoding/json"
	"fmt"
	"math/big"
	"sort"
	"strconv"
	"strings"
	gotime "time"

	"github.com/formancehq/go-libs/v5/pkg/types/pointer"
	"github.com/formancehq/go-libs/v5/pkg/types/time"

	ledger "github.com/formancehq/ledger/internal"
)

type colDef struct {
	name    string
	typ     colType
	def     func(x *sqlExec) (Val, error)
	notNull bool
}

type uniqDef struct {
	name string
	cols []string
	// aux returns the auxiliary key that stands for the index entry of this row, nil if the row is not
	// indexed (partial index predicate false, NULL column). For the primary key it returns the row key.
	aux func(d *tableDef, vals []Val, k rowKey) *rowKey
	pk  bool
}

type uniqKey struct {
	def   *uniqDef
	aux   rowKey
	table string
}

// rowKeyOf finds the row an index entry points to.
func (u *uniqKey) rowKeyOf(x *sqlExec) *rowKey {
	if u.def.pk {
		k := u.aux
		return &k
	}
	ref, _ := x.get(u.aux).(string)
	if ref == "" {
		return nil
	}
	return &rowKey{Table: u.table, Ledger: u.aux.Ledger, Key: ref}
}

type tableDef struct {
	name         string
	simTable     string
	cols         []colDef
	uniqs        []*uniqDef
	keyOf        func(vals []Val) (rowKey, error)
	toVals       func(k rowKey, row any) ([]Val, error)
	fromVals     func(k rowKey, vals []Val, old any) (any, error)
	beforeInsert func(x *sqlExec, d *tableDef, vals []Val) error
	afterInsert  func(x *sqlExec, d *tableDef, vals []Val) error
	afterDelete  func(x *sqlExec, d *tableDef, vals []Val) error
	afterUpdate  func(x *sqlExec, d *tableDef, old, vals []Val) error
	system       bool // a table of the _system schema (not per bucket, not per ledger)
}

func (d *tableDef) colNames() []string {
	out := make([]string, len(d.cols))
	for i, c := range d.cols {
		out[i] = c.name
	}
	return out
}

func (d *tableDef) colIndex(name string) int {
	for i, c := range d.cols {
		if c.name == name {
			return i
		}
	}
	return -1
}

func (d *tableDef) col(name string) *colDef {
	if i := d.colIndex(name); i >= 0 {
		return &d.cols[i]
	}
	return nil
}

func (d *tableDef) val(vals []Val, name string) Val { return vals[d.colIndex(name)] }

func (d *tableDef) uniqKeys(vals []Val, k rowKey) []uniqKey {
	var out []uniqKey
	for _, u := range d.uniqs {
		if a := u.aux(d, vals, k); a != nil {
			out = append(out, uniqKey{def: u, aux: *a, table: d.simTable})
		}
	}
	return out
}

func (d *tableDef) uniqByCols(cols []string) *uniqDef {
	want := append([]string{}, cols...)
	sort.Strings(want)
	for _, u := range d.uniqs {
		have := append([]string{}, u.cols...)
		sort.Strings(have)
		if strings.Join(have, ",") == strings.Join(want, ",") {
			return u
		}
	}
	return nil
}

func bigFromInt(v int64) *big.Int { return big.NewInt(v) }

func txDate(x *sqlExec) (Val, error) {
	return x.sess.transactionDate().UTC().Truncate(gotime.Microsecond), nil
}

func emptyJSONObject(*sqlExec) (Val, error) { return jsonVal{map[string]any{}}, nil }

func numStr(v Val) string {
	if b, ok := v.(*big.Int); ok && b != nil {
		return b.String()
	}
	return fmt.Sprint(v)
}

func strOf(v Val) string {
	s, _ := v.(string)
	return s
}

func timeOf(v Val) time.Time {
	t, ok := v.(gotime.Time)
	if !ok {
		return time.Time{}
	}
	return time.New(t)
}

func timeVal(t time.Time) Val {
	if t.IsZero() {
		return nil
	}
	return t.Time.UTC().Truncate(gotime.Microsecond)
}

func uintOf(v Val) (uint64, error) {
	n, ok := v.(*big.Int)
	if !ok || n == nil {
		return 0, pgErr("23502", "null value in column \"id\" violates not-null constraint", "")
	}
	if !n.IsUint64() {
		return 0, unsupported("id %s out of range of the simulation", n)
	}
	return n.Uint64(), nil
}

func jsonOf(v any) (Val, error) {
	raw, err := json.Marshal(v)
	if err != nil {
		return nil, err
	}
	return parseJSON(string(raw))
}

// errUnrepresentable: the SQL row is legal for PostgreSQL but the typed rows of simpg cannot hold it.
type errUnrepresentable struct{ msg string }

func (e *errUnrepresentable) Error() string { return e.msg }

func metaFromJSON(v Val) (map[string]string, error) {
	out := map[string]string{}
	j, ok := v.(jsonVal)
	if !ok {
		return out, nil
	}
	if j.v == nil {
		return out, &errUnrepresentable{"metadata column holding JSON null"}
	}
	m, ok := j.v.(map[string]any)
	if !ok {
		return nil, &errUnrepresentable{"metadata column holding " + string(j.bytes()) + ", not an object"}
	}
	for k, e := range m {
		s, ok := e.(string)
		if !ok {
			return nil, &errUnrepresentable{"metadata value that is not a string"}
		}
		out[k] = s
	}
	return out, nil
}

func pkUniq(name string, cols ...string) *uniqDef {
	return &uniqDef{name: name, cols: cols, pk: true, aux: func(_ *tableDef, _ []Val, k rowKey) *rowKey { return &k }}
}

var tableDefs = map[string]*tableDef{}

func init() {
	for _, d := range []*tableDef{volumesTable(), transactionsTable(), logsTable(), accountsTable(), schemasTable(), movesTable(), pipelinesTable(), exportersTable(),
		metaHistoryTable("accounts_metadata", "acctmeta", "accounts_address", false), metaHistoryTable("transactions_metadata", "txmeta", "transactions_id", true)} {
		tableDefs[d.name] = d
	}
}

// ---- accounts_volumes ----

func volumesTable() *tableDef {
	d := &tableDef{name: "accounts_volumes", simTable: "vol"}
	zero := func(*sqlExec) (Val, error) { return new(big.Int), nil }
	d.cols = []colDef{
		{name: "ledger", typ: ctText, notNull: true},
		{name: "accounts_address", typ: ctText, notNull: true},
		{name: "asset", typ: ctText, notNull: true},
		{name: "input", typ: ctNumeric, notNull: true, def: zero},
		{name: "output", typ: ctNumeric, notNull: true, def: zero},
	}
	d.uniqs = []*uniqDef{pkUniq("accounts_volumes_pkey", "ledger", "accounts_address", "asset")}
	d.keyOf = func(vals []Val) (rowKey, error) {
		return rowKey{"vol", strOf(vals[0]), strOf(vals[1]) + "\x00" + strOf(vals[2])}, nil
	}
	d.toVals = func(k rowKey, row any) ([]Val, error) {
		v := row.(*VolRow)
		parts := strings.SplitN(k.Key, "\x00", 2)
		return []Val{k.Ledger, parts[0], parts[1], new(big.Int).Set(v.Input), new(big.Int).Set(v.Output)}, nil
	}
	d.fromVals = func(k rowKey, vals []Val, _ any) (any, error) {
		return &VolRow{Input: new(big.Int).Set(vals[3].(*big.Int)), Output: new(big.Int).Set(vals[4].(*big.Int))}, nil
	}
	return d
}

// ---- transactions ----

func transactionsTable() *tableDef {
	d := &tableDef{name: "transactions", simTable: "tx"}
	d.cols = []colDef{
		{name: "ledger", typ: ctText, notNull: true},
		{name: "id", typ: ctNumeric, notNull: true},
		{name: "timestamp", typ: ctTimestamp, notNull: true, def: txDate},
		{name: "reference", typ: ctText},
		{name: "reverted_at", typ: ctTimestamp},
		{name: "updated_at", typ: ctTimestamp},
		{name: "postings", typ: ctJSONB, notNull: true},
		{name: "sources", typ: ctJSONB},
		{name: "destinations", typ: ctJSONB},
		{name: "sources_arrays", typ: ctJSONB},
		{name: "destinations_arrays", typ: ctJSONB},
		{name: "metadata", typ: ctJSONB, notNull: true, def: emptyJSONObject},
		{name: "inserted_at", typ: ctTimestamp, def: txDate},
		{name: "post_commit_volumes", typ: ctJSONB},
		{name: "template", typ: ctText},
	}
	d.uniqs = []*uniqDef{
		pkUniq("transactions_ledger", "ledger", "id"),
		{name: "transactions_reference", cols: []string{"ledger", "reference"}, aux: func(d *tableDef, vals []Val, k rowKey) *rowKey {
			ref := strOf(d.val(vals, "reference"))
			if ref == "" { // partial index: where reference <> '' (NULL is not indexed either)
				return nil
			}
			return &rowKey{"tx_ref", k.Ledger, ref}
		}},
	}
	d.keyOf = func(vals []Val) (rowKey, error) {
		id, err := uintOf(vals[1])
		if err != nil {
			return rowKey{}, err
		}
		return rowKey{"tx", strOf(vals[0]), idKey(id)}, nil
	}
	d.beforeInsert = func(x *sqlExec, d *tableDef, vals []Val) error {
		// trigger set_transaction_updated_at: when (new.updated_at is null) new.updated_at = new.inserted_at
		if vals[d.colIndex("updated_at")] == nil {
			vals[d.colIndex("updated_at")] = vals[d.colIndex("inserted_at")]
		}
		return nil
	}
	// triggers insert_transaction_metadata_history (date = new.timestamp) / update_transaction_metadata_history
	// (date = new.updated_at), when AddLedger installed them for the row's ledger
	d.afterInsert = func(x *sqlExec, d *tableDef, vals []Val) error {
		return x.metaHistory("transactions", "insert", "insert_transaction_metadata_history", strOf(vals[0]), "txmeta", numStr(d.val(vals, "id")), d.val(vals, "timestamp"), d.val(vals, "metadata"))
	}
	d.afterUpdate = func(x *sqlExec, d *tableDef, _, vals []Val) error {
		return x.metaHistory("transactions", "update", "update_transaction_metadata_history", strOf(vals[0]), "txmeta", numStr(d.val(vals, "id")), d.val(vals, "updated_at"), d.val(vals, "metadata"))
	}
	d.toVals = func(k rowKey, row any) ([]Val, error) {
		t := row.(*ledger.Transaction)
		postings, err := jsonOf(t.Postings)
		if err != nil {
			return nil, err
		}
		md := t.Metadata
		if md == nil {
			md = map[string]string{}
		}
		meta, err := jsonOf(md)
		if err != nil {
			return nil, err
		}
		var srcs, dsts []string
		for _, p := range t.Postings {
			srcs = append(srcs, p.Source)
			dsts = append(dsts, p.Destination)
		}
		sj, _ := jsonOf(srcs)
		dj, _ := jsonOf(dsts)
		var pcv Val
		if t.PostCommitVolumes != nil {
			pcv, err = jsonOf(t.PostCommitVolumes)
			if err != nil {
				return nil, err
			}
		}
		var ref, tmpl Val
		if t.Reference != "" {
			ref = t.Reference
		}
		tmpl = t.Template
		var reverted Val
		if t.RevertedAt != nil {
			reverted = timeVal(*t.RevertedAt)
		}
		var id Val
		if t.ID != nil {
			id = new(big.Int).SetUint64(*t.ID)
		}
		return []Val{k.Ledger, id, timeVal(t.Timestamp), ref, reverted, timeVal(t.UpdatedAt), postings, sj, dj, nil, nil, meta, timeVal(t.InsertedAt), pcv, tmpl}, nil
	}
	d.fromVals = func(k rowKey, vals []Val, _ any) (any, error) {
		t := &ledger.Transaction{}
		id, err := uintOf(d.val(vals, "id"))
		if err != nil {
			return nil, err
		}
		t.ID = pointer.For(id)
		if err := json.Unmarshal(d.val(vals, "postings").(jsonVal).bytes(), &t.Postings); err != nil {
			return nil, pgErr("22P02", "postings: "+err.Error(), "")
		}
		md, err := metaFromJSON(d.val(vals, "metadata"))
		if err != nil {
			return nil, err
		}
		t.Metadata = md
		t.Timestamp = timeOf(d.val(vals, "timestamp"))
		t.Reference = strOf(d.val(vals, "reference"))
		t.InsertedAt = timeOf(d.val(vals, "inserted_at"))
		t.UpdatedAt = timeOf(d.val(vals, "updated_at"))
		if rv := d.val(vals, "reverted_at"); rv != nil {
			t.RevertedAt = pointer.For(timeOf(rv))
		}
		if pcv, ok := d.val(vals, "post_commit_volumes").(jsonVal); ok && pcv.v != nil {
			if err := json.Unmarshal(pcv.bytes(), &t.PostCommitVolumes); err != nil {
				return nil, pgErr("22P02", "post_commit_volumes: "+err.Error(), "")
			}
		}
		t.Template = strOf(d.val(vals, "template"))
		return t, nil
	}
	return d
}

// ---- logs ----

var validLogTypes = map[string]bool{"SET_METADATA": true, "NEW_TRANSACTION": true, "REVERTED_TRANSACTION": true, "DELETE_METADATA": true, "INSERTED_SCHEMA": true}

func logsTable() *tableDef {
	d := &tableDef{name: "logs", simTable: "log"}
	d.cols = []colDef{
		{name: "ledger", typ: ctText, notNull: true},
		{name: "id", typ: ctNumeric, notNull: true},
		{name: "type", typ: ctText, notNull: true},
		{name: "hash", typ: ctBytea},
		{name: "date", typ: ctTimestamp, notNull: true, def: txDate},
		{name: "data", typ: ctJSONB, notNull: true},
		{name: "idempotency_key", typ: ctText},
		{name: "memento", typ: ctBytea},
		{name: "idempotency_hash", typ: ctText},
		{name: "schema_version", typ: ctText},
	}
	d.uniqs = []*uniqDef{
		pkUniq("logs_ledger", "ledger", "id"),
		{name: "logs_idempotency_key", cols: []string{"ledger", "idempotency_key"}, aux: func(d *tableDef, vals []Val, k rowKey) *rowKey {
			ik := d.val(vals, "idempotency_key")
			if ik == nil { // NULLs are distinct in a unique index
				return nil
			}
			return &rowKey{"log_ik", k.Ledger, strOf(ik)}
		}},
	}
	d.keyOf = func(vals []Val) (rowKey, error) {
		id, err := uintOf(vals[1])
		if err != nil {
			return rowKey{}, err
		}
		return rowKey{"log", strOf(vals[0]), idKey(id)}, nil
	}
	d.beforeInsert = func(x *sqlExec, d *tableDef, vals []Val) error {
		typ := strOf(d.val(vals, "type"))
		if !validLogTypes[typ] {
			return pgErr("22P02", "invalid input value for enum log_type: "+typ, "")
		}
		lr := x.ledgerRow(strOf(d.val(vals, "ledger")))
		if lr == nil {
			return nil
		}
		hashOn := lr.Features["HASH_LOGS"] == "SYNC"
		if x.ddlTriggers() {
			// what bucket.AddLedger installed decides, not the feature value
			hashOn = x.firesProc(lr.Bucket, "logs", "before", "insert", lr.Name, "set_log_hash")
		}
		if !hashOn {
			return nil
		}
		// trigger set_log_hash (installed per ledger when HASH_LOGS=SYNC): chain on the log with the highest
		// id visible to this statement. The digest is the real Go Log.ComputeHash: that the SQL function
		// computes the same bytes is property C10, assumed here.
		k, err := d.keyOf(vals)
		if err != nil {
			return err
		}
		var prev *ledger.Log
		var prevKey *rowKey
		for _, lk := range x.scanTable(d, lr.Bucket) {
			if lk.Ledger == k.Ledger {
				kk := lk
				prevKey = &kk
			}
		}
		if prevKey != nil {
			pr := x.get(*prevKey).(*LogRow)
			payload, err := ledger.HydrateLog(pr.Type, pr.DataJSON)
			if err != nil {
				return unsupported("previous log does not hydrate: %v", err)
			}
			prev = &ledger.Log{Type: pr.Type, Data: payload, Date: pr.Date, IdempotencyKey: pr.IK, ID: pointer.For(pr.ID), Hash: pr.Hash, SchemaVersion: pr.SchemaVersion}
		}
		payload, err := ledger.HydrateLog(ledger.LogTypeFromString(typ), d.val(vals, "data").(jsonVal).bytes())
		if err != nil {
			return pgErr("22P02", "log data does not match its type: "+err.Error(), "")
		}
		cur := ledger.Log{Type: ledger.LogTypeFromString(typ), Data: payload, Date: timeOf(d.val(vals, "date")),
			IdempotencyKey: strOf(d.val(vals, "idempotency_key")), SchemaVersion: strOf(d.val(vals, "schema_version"))}
		cur.ComputeHash(prev)
		vals[d.colIndex("hash")] = cur.Hash
		return nil
	}
	d.toVals = func(k rowKey, row any) ([]Val, error) {
		r := row.(*LogRow)
		data, err := parseJSON(string(r.DataJSON))
		if err != nil {
			return nil, err
		}
		var ik, ikh, sv, hash, memento Val
		if r.IK != "" {
			ik = r.IK
		}
		if r.IKHash != "" {
			ikh = r.IKHash
		}
		if r.SchemaVersion != "" {
			sv = r.SchemaVersion
		}
		if r.Hash != nil {
			hash = append([]byte(nil), r.Hash...)
		}
		if r.Memento != nil {
			memento = append([]byte(nil), r.Memento...)
		}
		return []Val{k.Ledger, new(big.Int).SetUint64(r.ID), r.Type.String(), hash, timeVal(r.Date), data, ik, memento, ikh, sv}, nil
	}
	d.fromVals = func(k rowKey, vals []Val, _ any) (any, error) {
		id, err := uintOf(d.val(vals, "id"))
		if err != nil {
			return nil, err
		}
		r := &LogRow{ID: id, Type: ledger.LogTypeFromString(strOf(d.val(vals, "type"))), DataJSON: d.val(vals, "data").(jsonVal).bytes(),
			Date: timeOf(d.val(vals, "date")), IK: strOf(d.val(vals, "idempotency_key")), IKHash: strOf(d.val(vals, "idempotency_hash")),
			SchemaVersion: strOf(d.val(vals, "schema_version"))}
		if h, ok := d.val(vals, "hash").([]byte); ok {
			r.Hash = append([]byte(nil), h...)
		}
		if m, ok := d.val(vals, "memento").([]byte); ok {
			r.Memento = append([]byte(nil), m...)
		}
		return r, nil
	}
	return d
}

// ---- accounts ----

func accountsTable() *tableDef {
	d := &tableDef{name: "accounts", simTable: "acct"}
	d.cols = []colDef{
		{name: "ledger", typ: ctText, notNull: true},
		{name: "address", typ: ctText, notNull: true},
		{name: "address_array", typ: ctJSONB},
		{name: "insertion_date", typ: ctTimestamp, notNull: true, def: txDate},
		{name: "updated_at", typ: ctTimestamp, notNull: true, def: txDate},
		{name: "metadata", typ: ctJSONB, notNull: true, def: emptyJSONObject},
		{name: "first_usage", typ: ctTimestamp, notNull: true, def: txDate},
	}
	d.uniqs = []*uniqDef{pkUniq("accounts_ledger", "ledger", "address")}
	d.keyOf = func(vals []Val) (rowKey, error) { return rowKey{"acct", strOf(vals[0]), strOf(vals[1])}, nil }
	d.toVals = func(k rowKey, row any) ([]Val, error) {
		r := row.(*AcctRow)
		md := r.Metadata
		if md == nil {
			md = map[string]string{}
		}
		meta, err := jsonOf(md)
		if err != nil {
			return nil, err
		}
		arr, _ := jsonOf(strings.Split(r.Address, ":"))
		return []Val{k.Ledger, r.Address, arr, timeVal(r.InsertionDate), timeVal(r.UpdatedAt), meta, timeVal(r.FirstUsage)}, nil
	}
	d.fromVals = func(k rowKey, vals []Val, _ any) (any, error) {
		md, err := metaFromJSON(d.val(vals, "metadata"))
		if err != nil {
			return nil, err
		}
		return &AcctRow{Address: strOf(d.val(vals, "address")), Metadata: md, FirstUsage: timeOf(d.val(vals, "first_usage")),
			InsertionDate: timeOf(d.val(vals, "insertion_date")), UpdatedAt: timeOf(d.val(vals, "updated_at"))}, nil
	}
	// triggers insert_account_metadata_history / update_account_metadata_history (migration 11), when AddLedger
	// installed them for the row's ledger
	d.afterInsert = func(x *sqlExec, d *tableDef, vals []Val) error {
		return x.metaHistory("accounts", "insert", "insert_account_metadata_history", strOf(vals[0]), "acctmeta", strOf(d.val(vals, "address")), d.val(vals, "insertion_date"), d.val(vals, "metadata"))
	}
	d.afterUpdate = func(x *sqlExec, d *tableDef, _, vals []Val) error {
		return x.metaHistory("accounts", "update", "update_account_metadata_history", strOf(vals[0]), "acctmeta", strOf(d.val(vals, "address")), d.val(vals, "updated_at"), d.val(vals, "metadata"))
	}
	return d
}

// MetaRev is one row of accounts_metadata / transactions_metadata (the metadata history tables).
type MetaRev struct {
	ID       string // account address / transaction id
	Revision int
	Date     gotime.Time
	Metadata map[string]string
}

func metaRevKey(table, ledgerName, id string, rev int) rowKey {
	return rowKey{table, ledgerName, fmt.Sprintf("%s\x00%08d", id, rev)}
}

// metaHistory is the Go rendering of the four metadata-history trigger functions: it fires only if AddLedger
// registered the trigger for that ledger, and appends revision max+1 (1 on insert) with the row's new metadata.
func (x *sqlExec) metaHistory(table, event, proc, ledgerName, histTable, id string, date, metadata Val) error {
	lr := x.ledgerRow(ledgerName)
	if lr == nil || !x.firesProc(lr.Bucket, table, "after", event, ledgerName, proc) {
		return nil
	}
	rev := 1
	if event == "update" {
		for _, k := range x.sess.scan(histTable, ledgerName) {
			if strings.HasPrefix(k.Key, id+"\x00") {
				if m, ok := x.get(k).(*MetaRev); ok && m.Revision >= rev {
					rev = m.Revision + 1
				}
			}
		}
	}
	md, err := metaFromJSON(metadata)
	if err != nil {
		return err
	}
	var at gotime.Time
	if t, ok := date.(gotime.Time); ok {
		at = t
	}
	x.put(metaRevKey(histTable, ledgerName, id, rev), &MetaRev{ID: id, Revision: rev, Date: at, Metadata: md})
	x.w.probe("metadata_history_revision:" + histTable)
	return nil
}

// ---- schemas ----

func schemasTable() *tableDef {
	d := &tableDef{name: "schemas", simTable: "schema"}
	now := func(x *sqlExec) (Val, error) { return x.sess.db.nowLocked().UTC().Truncate(gotime.Microsecond), nil }
	d.cols = []colDef{
		{name: "ledger", typ: ctText, notNull: true},
		{name: "version", typ: ctText, notNull: true},
		{name: "created_at", typ: ctTimestamp, notNull: true, def: now},
		{name: "chart", typ: ctJSONB, notNull: true},
		{name: "transactions", typ: ctJSONB, notNull: true, def: emptyJSONObject},
		{name: "queries", typ: ctJSONB, notNull: true, def: emptyJSONObject},
	}
	d.uniqs = []*uniqDef{pkUniq("schemas_pkey", "ledger", "version")}
	d.keyOf = func(vals []Val) (rowKey, error) { return rowKey{"schema", strOf(vals[0]), strOf(vals[1])}, nil }
	d.toVals = func(k rowKey, row any) ([]Val, error) {
		j, err := parseJSON(string(row.([]byte)))
		if err != nil {
			return nil, err
		}
		m, _ := j.v.(map[string]any)
		get := func(name string) Val {
			if v, ok := m[name]; ok {
				return jsonVal{v}
			}
			return jsonVal{nil}
		}
		var created Val
		if s, ok := m["createdAt"].(string); ok {
			t, err := parseTimestamp(s)
			if err != nil {
				return nil, err
			}
			created = t
		}
		return []Val{k.Ledger, k.Key, created, get("chart"), get("transactions"), get("queries")}, nil
	}
	d.fromVals = func(k rowKey, vals []Val, _ any) (any, error) {
		m := map[string]any{"version": strOf(d.val(vals, "version"))}
		if t, ok := d.val(vals, "created_at").(gotime.Time); ok {
			m["createdAt"] = time.New(t)
		}
		for _, c := range []string{"chart", "transactions", "queries"} {
			if j, ok := d.val(vals, c).(jsonVal); ok && j.v != nil {
				m[c] = j.v
			}
		}
		raw, err := json.Marshal(m)
		if err != nil {
			return nil, err
		}
		// the typed row is the JSON of a ledger.Schema: make sure it decodes
		if _, err := decodeSchema(raw); err != nil {
			return nil, pgErr("22P02", "schema does not decode: "+err.Error(), "")
		}
		return raw, nil
	}
	return d
}

// ---- moves ----

type MoveRow struct {
	Seq           uint64
	TxID          uint64
	IsSource      bool
	Account       string
	Asset         string
	Amount        *big.Int
	InsertionDate time.Time
	EffectiveDate time.Time
	PCV           *ledger.Volumes
	PCEV          *ledger.Volumes
}

func volOf(v Val) *ledger.Volumes {
	x, ok := v.(volVal)
	if !ok {
		return nil
	}
	return &ledger.Volumes{Input: new(big.Int).Set(x.in), Output: new(big.Int).Set(x.out)}
}

func volValOf(v *ledger.Volumes) Val {
	if v == nil {
		return nil
	}
	return volVal{new(big.Int).Set(v.Input), new(big.Int).Set(v.Output)}
}

func movesTable() *tableDef {
	d := &tableDef{name: "moves", simTable: "move"}
	seq := func(x *sqlExec) (Val, error) { return x.nextvalInternal("moves_seq:" + x.schema) }
	d.cols = []colDef{
		{name: "seq", typ: ctNumeric, notNull: true, def: seq},
		{name: "ledger", typ: ctText, notNull: true},
		{name: "transactions_id", typ: ctNumeric, notNull: true},
		{name: "accounts_address", typ: ctText, notNull: true},
		{name: "asset", typ: ctText, notNull: true},
		{name: "amount", typ: ctNumeric, notNull: true},
		{name: "insertion_date", typ: ctTimestamp, notNull: true, def: txDate},
		{name: "effective_date", typ: ctTimestamp, notNull: true, def: txDate},
		{name: "post_commit_volumes", typ: ctVolumes},
		{name: "post_commit_effective_volumes", typ: ctVolumes},
		{name: "is_source", typ: ctBool, notNull: true},
	}
	d.uniqs = []*uniqDef{pkUniq("moves_pkey", "seq")}
	d.keyOf = func(vals []Val) (rowKey, error) {
		s, err := uintOf(vals[0])
		if err != nil {
			return rowKey{}, err
		}
		return rowKey{"move", strOf(vals[1]), idKey(s)}, nil
	}
	d.toVals = func(k rowKey, row any) ([]Val, error) {
		m := row.(*MoveRow)
		return []Val{new(big.Int).SetUint64(m.Seq), k.Ledger, new(big.Int).SetUint64(m.TxID), m.Account, m.Asset, new(big.Int).Set(m.Amount),
			timeVal(m.InsertionDate), timeVal(m.EffectiveDate), volValOf(m.PCV), volValOf(m.PCEV), m.IsSource}, nil
	}
	d.fromVals = func(k rowKey, vals []Val, _ any) (any, error) {
		s, err := uintOf(vals[0])
		if err != nil {
			return nil, err
		}
		txid, err := uintOf(d.val(vals, "transactions_id"))
		if err != nil {
			return nil, err
		}
		src, _ := d.val(vals, "is_source").(bool)
		return &MoveRow{Seq: s, TxID: txid, IsSource: src, Account: strOf(d.val(vals, "accounts_address")), Asset: strOf(d.val(vals, "asset")),
			Amount: new(big.Int).Set(d.val(vals, "amount").(*big.Int)), InsertionDate: timeOf(d.val(vals, "insertion_date")),
			EffectiveDate: timeOf(d.val(vals, "effective_date")), PCV: volOf(d.val(vals, "post_commit_volumes")), PCEV: volOf(d.val(vals, "post_commit_effective_volumes"))}, nil
	}
	effectiveWhen := func(x *sqlExec, vals []Val, timing, proc string) bool {
		lr := x.ledgerRow(strOf(vals[1]))
		if lr == nil {
			return false
		}
		if x.ddlTriggers() {
			return x.firesProc(lr.Bucket, "moves", timing, "insert", lr.Name, proc)
		}
		return lr.Features["MOVES_HISTORY_POST_COMMIT_EFFECTIVE_VOLUMES"] == "SYNC"
	}
	delta := func(d *tableDef, vals []Val) (in, out *big.Int) {
		amt := d.val(vals, "amount").(*big.Int)
		if src, _ := d.val(vals, "is_source").(bool); src {
			return new(big.Int), amt
		}
		return amt, new(big.Int)
	}
	// trigger set_effective_volumes (before insert): previous move of the same account/asset by
	// (effective_date, seq), plus this move
	d.beforeInsert = func(x *sqlExec, d *tableDef, vals []Val) error {
		if !effectiveWhen(x, vals, "before", "set_effective_volumes") {
			return nil
		}
		lr := x.ledgerRow(strOf(vals[1]))
		in, out := delta(d, vals)
		var best *MoveRow
		eff := d.val(vals, "effective_date").(gotime.Time)
		seq, _ := uintOf(vals[0])
		for _, k := range x.scanTable(d, lr.Bucket) {
			if k.Ledger != lr.Name {
				continue
			}
			m := x.get(k).(*MoveRow)
			if m.Account != strOf(d.val(vals, "accounts_address")) || m.Asset != strOf(d.val(vals, "asset")) {
				continue
			}
			if !(m.EffectiveDate.Time.Before(eff) || (m.EffectiveDate.Time.Equal(eff) && m.Seq < seq)) {
				continue
			}
			if best == nil || m.EffectiveDate.Time.After(best.EffectiveDate.Time) || (m.EffectiveDate.Time.Equal(best.EffectiveDate.Time) && m.Seq > best.Seq) {
				best = m
			}
		}
		base := volVal{new(big.Int), new(big.Int)}
		if best != nil && best.PCEV != nil {
			base = volVal{new(big.Int).Set(best.PCEV.Input), new(big.Int).Set(best.PCEV.Output)}
		}
		// rows of the same INSERT processed before this one (a transaction's moves are one statement)
		var bestEff gotime.Time
		var bestSeq uint64
		havePending := false
		if best != nil {
			bestEff, bestSeq = best.EffectiveDate.Time, best.Seq
		}
		for _, pv := range x.pending {
			if strOf(pv[1]) != lr.Name || strOf(d.val(pv, "accounts_address")) != strOf(d.val(vals, "accounts_address")) || strOf(d.val(pv, "asset")) != strOf(d.val(vals, "asset")) {
				continue
			}
			pe := d.val(pv, "effective_date").(gotime.Time)
			ps, _ := uintOf(pv[0])
			if !(pe.Before(eff) || (pe.Equal(eff) && ps < seq)) {
				continue
			}
			pc, ok := d.val(pv, "post_commit_effective_volumes").(volVal)
			if !ok {
				continue
			}
			if (best == nil && !havePending) || pe.After(bestEff) || (pe.Equal(bestEff) && ps > bestSeq) {
				bestEff, bestSeq, havePending = pe, ps, true
				base = volVal{new(big.Int).Set(pc.in), new(big.Int).Set(pc.out)}
			}
		}
		vals[d.colIndex("post_commit_effective_volumes")] = volVal{base.in.Add(base.in, in), base.out.Add(base.out, out)}
		return nil
	}
	// trigger update_effective_volumes (after insert): shift the moves that are later in effective time
	d.afterInsert = func(x *sqlExec, d *tableDef, vals []Val) error {
		if !effectiveWhen(x, vals, "after", "update_effective_volumes") {
			return nil
		}
		lr := x.ledgerRow(strOf(vals[1]))
		in, out := delta(d, vals)
		eff := d.val(vals, "effective_date").(gotime.Time)
		for _, k := range x.scanTable(d, lr.Bucket) {
			if k.Ledger != lr.Name {
				continue
			}
			m := x.get(k).(*MoveRow)
			if m.Account != strOf(d.val(vals, "accounts_address")) || m.Asset != strOf(d.val(vals, "asset")) || !m.EffectiveDate.Time.After(eff) || m.PCEV == nil {
				continue
			}
			cp := *m
			cp.PCEV = &ledger.Volumes{Input: new(big.Int).Add(m.PCEV.Input, in), Output: new(big.Int).Add(m.PCEV.Output, out)}
			x.put(k, &cp)
		}
		return nil
	}
	return d
}

func (x *sqlExec) nextvalInternal(name string) (Val, error) {
	if x.seqUsed < len(x.st.seqVals) {
		v := x.st.seqVals[x.seqUsed]
		x.seqUsed++
		return bigFromInt(v), nil
	}
	v := x.sess.db.nextvalLocked(name)
	x.st.seqVals = append(x.st.seqVals, v)
	x.seqUsed++
	return bigFromInt(v), nil
}

var _ = fmt.Sprint
var _ = strconv.Itoa

// ---- accounts_metadata / transactions_metadata (read only: written by the history triggers, metaHistory) ----

func metaHistoryTable(name, simTable, idCol string, numericID bool) *tableDef {
	d := &tableDef{name: name, simTable: simTable}
	idTyp := ctText
	if numericID {
		idTyp = ctNumeric
	}
	d.cols = []colDef{
		{name: "ledger", typ: ctText, notNull: true},
		{name: idCol, typ: idTyp, notNull: true},
		{name: "revision", typ: ctNumeric, notNull: true},
		{name: "date", typ: ctTimestamp, notNull: true},
		{name: "metadata", typ: ctJSONB, notNull: true},
	}
	d.uniqs = []*uniqDef{pkUniq(name+"_pkey", "ledger", idCol, "revision")}
	d.keyOf = func(vals []Val) (rowKey, error) {
		return rowKey{}, unsupported("write to %s", name)
	}
	d.toVals = func(k rowKey, row any) ([]Val, error) {
		m := row.(*MetaRev)
		md := m.Metadata
		if md == nil {
			md = map[string]string{}
		}
		meta, err := jsonOf(md)
		if err != nil {
			return nil, err
		}
		var id Val = m.ID
		if numericID {
			n, ok := new(big.Int).SetString(m.ID, 10)
			if !ok {
				return nil, unsupported("history id %q", m.ID)
			}
			id = n
		}
		return []Val{k.Ledger, id, bigFromInt(int64(m.Revision)), m.Date.UTC().Truncate(gotime.Microsecond), meta}, nil
	}
	d.fromVals = func(k rowKey, vals []Val, _ any) (any, error) {
		return nil, unsupported("write to %s", name)
	}
	return d
}
