package sim

import (
	systemcontroller "github.com/formancehq/ledger/internal/controller/system"
)

// replaced by the replication world (C33) in worker.go
type WorkerSpec struct {
	Enabled bool `json:"enabled"`
}

type workerWorld struct{}

func newWorkerWorld(r *runner, spec *WorkerSpec) *workerWorld { return &workerWorld{} }
func (ww *workerWorld) start(r *runner)                        {}
func (ww *workerWorld) stop(r *runner)                         {}
func (ww *workerWorld) onCrash(r *runner)                      {}
func (ww *workerWorld) quiescent(r *runner) bool               { return true }

func (r *runner) replBackend() systemcontroller.ReplicationBackend { return nil }
