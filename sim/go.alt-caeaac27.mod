module github.com/formancehq/ledger/verifsim

go 1.26.0

godebug randseednop=0

replace github.com/formancehq/ledger => /tmp/mut/t-2987

replace github.com/formancehq/ledger/pkg/client => /tmp/mut/t-2987/pkg/client

replace google.golang.org/genproto v0.0.0-20200423170343-7949de9c1215 => google.golang.org/genproto v0.0.0-20240903143218-8af14fe29dc1

require github.com/formancehq/ledger v0.0.0-00010101000000-000000000000

require (
	dario.cat/mergo v1.0.2 // indirect
	github.com/IBM/sarama v1.46.3 // indirect
	github.com/ThreeDotsLabs/watermill-aws v1.0.1 // indirect
	github.com/ThreeDotsLabs/watermill-http/v2 v2.3.1 // indirect
	github.com/ThreeDotsLabs/watermill-kafka/v3 v3.1.2 // indirect
	github.com/ThreeDotsLabs/watermill-nats/v2 v2.1.3 // indirect
	github.com/ajg/form v1.7.1 // indirect
	github.com/alitto/pond v1.9.2 // indirect
	github.com/antlr/antlr4/runtime/Go/antlr v1.4.10 // indirect
	github.com/antlr4-go/antlr/v4 v4.13.1 // indirect
	github.com/aws/aws-msk-iam-sasl-signer-go v1.0.4 // indirect
	github.com/aws/aws-sdk-go-v2 v1.41.5 // indirect
	github.com/aws/aws-sdk-go-v2/config v1.32.12 // indirect
	github.com/aws/aws-sdk-go-v2/credentials v1.19.12 // indirect
	github.com/aws/aws-sdk-go-v2/feature/ec2/imds v1.18.20 // indirect
	github.com/aws/aws-sdk-go-v2/internal/configsources v1.4.21 // indirect
	github.com/aws/aws-sdk-go-v2/internal/endpoints/v2 v2.7.21 // indirect
	github.com/aws/aws-sdk-go-v2/internal/ini v1.8.6 // indirect
	github.com/aws/aws-sdk-go-v2/service/internal/accept-encoding v1.13.7 // indirect
	github.com/aws/aws-sdk-go-v2/service/internal/presigned-url v1.13.21 // indirect
	github.com/aws/aws-sdk-go-v2/service/signin v1.0.8 // indirect
	github.com/aws/aws-sdk-go-v2/service/sns v1.39.14 // indirect
	github.com/aws/aws-sdk-go-v2/service/sqs v1.42.24 // indirect
	github.com/aws/aws-sdk-go-v2/service/sso v1.30.13 // indirect
	github.com/aws/aws-sdk-go-v2/service/ssooidc v1.35.17 // indirect
	github.com/aws/aws-sdk-go-v2/service/sts v1.41.9 // indirect
	github.com/aws/smithy-go v1.24.2 // indirect
	github.com/bahlo/generic-list-go v0.2.0 // indirect
	github.com/bluele/gcache v0.0.2 // indirect
	github.com/buger/jsonparser v1.1.2 // indirect
	github.com/cespare/xxhash/v2 v2.3.0 // indirect
	github.com/davecgh/go-spew v1.1.2-0.20180830191138-d8f796af33cc // indirect
	github.com/dnwe/otelsarama v0.0.0-20240308230250-9388d9d40bc0 // indirect
	github.com/eapache/go-resiliency v1.7.0 // indirect
	github.com/eapache/go-xerial-snappy v0.0.0-20230731223053-c322873962e3 // indirect
	github.com/eapache/queue v1.1.0 // indirect
	github.com/felixge/httpsnoop v1.0.4 // indirect
	github.com/formancehq/numscript v0.0.24 // indirect
	github.com/getkin/kin-openapi v0.134.0 // indirect
	github.com/go-chi/chi v4.1.2+incompatible // indirect
	github.com/go-chi/chi/v5 v5.2.5 // indirect
	github.com/go-chi/cors v1.2.2 // indirect
	github.com/go-chi/render v1.0.3 // indirect
	github.com/go-jose/go-jose/v4 v4.1.4 // indirect
	github.com/go-logr/logr v1.4.3 // indirect
	github.com/go-logr/stdr v1.2.2 // indirect
	github.com/go-openapi/jsonpointer v0.21.0 // indirect
	github.com/go-openapi/swag v0.23.0 // indirect
	github.com/golang/snappy v1.0.0 // indirect
	github.com/gorilla/securecookie v1.1.2 // indirect
	github.com/hashicorp/errwrap v1.1.0 // indirect
	github.com/hashicorp/go-cleanhttp v0.5.2 // indirect
	github.com/hashicorp/go-multierror v1.1.1 // indirect
	github.com/hashicorp/go-retryablehttp v0.7.8 // indirect
	github.com/hashicorp/go-uuid v1.0.3 // indirect
	github.com/iancoleman/strcase v0.3.0 // indirect
	github.com/invopop/jsonschema v0.13.0 // indirect
	github.com/jackc/pgerrcode v0.0.0-20250907135507-afb5586c32a6 // indirect
	github.com/jackc/pgpassfile v1.0.0 // indirect
	github.com/jackc/pgservicefile v0.0.0-20240606120523-5a60cdf6a761 // indirect
	github.com/jackc/pgxlisten v0.0.0-20250802141604-12b92425684c // indirect
	github.com/jackc/puddle/v2 v2.2.2 // indirect
	github.com/jcmturner/aescts/v2 v2.0.0 // indirect
	github.com/jcmturner/dnsutils/v2 v2.0.0 // indirect
	github.com/jcmturner/gofork v1.7.6 // indirect
	github.com/jcmturner/gokrb5/v8 v8.4.4 // indirect
	github.com/jcmturner/rpc/v2 v2.0.3 // indirect
	github.com/jinzhu/inflection v1.0.0 // indirect
	github.com/josharian/intern v1.0.0 // indirect
	github.com/klauspost/compress v1.18.4 // indirect
	github.com/lithammer/shortuuid/v3 v3.0.7 // indirect
	github.com/logrusorgru/aurora v2.0.3+incompatible // indirect
	github.com/mailru/easyjson v0.9.2 // indirect
	github.com/mohae/deepcopy v0.0.0-20170929034955-c48cc78d4826 // indirect
	github.com/muhlemmer/gu v0.3.1 // indirect
	github.com/nats-io/nats.go v1.49.0 // indirect
	github.com/nats-io/nkeys v0.4.15 // indirect
	github.com/nats-io/nuid v1.0.1 // indirect
	github.com/oasdiff/yaml v0.0.0-20260313112342-a3ea61cb4d4c // indirect
	github.com/oasdiff/yaml3 v0.0.0-20260224194419-61cd415a242b // indirect
	github.com/oklog/ulid v1.3.1 // indirect
	github.com/perimeterx/marshmallow v1.1.5 // indirect
	github.com/pierrec/lz4/v4 v4.1.26 // indirect
	github.com/pkg/errors v0.9.1 // indirect
	github.com/puzpuzpuz/xsync/v3 v3.5.1 // indirect
	github.com/rcrowley/go-metrics v0.0.0-20250401214520-65e299d6c5c9 // indirect
	github.com/riandyrn/otelchi v0.12.2 // indirect
	github.com/shomali11/util v0.0.0-20220717175126-f0771b70947f // indirect
	github.com/shomali11/xsql v0.0.0-20190608141458-bf76292144df // indirect
	github.com/sirupsen/logrus v1.9.4 // indirect
	github.com/spf13/pflag v1.0.10 // indirect
	github.com/stoewer/go-strcase v1.3.1 // indirect
	github.com/stretchr/testify v1.12.0 // indirect
	github.com/tmthrgd/go-hex v0.0.0-20190904060850-447a3041c3bc // indirect
	github.com/uptrace/opentelemetry-go-extra/otellogrus v0.3.2 // indirect
	github.com/uptrace/opentelemetry-go-extra/otelutil v0.3.2 // indirect
	github.com/vmihailenco/msgpack/v5 v5.4.1 // indirect
	github.com/vmihailenco/tagparser/v2 v2.0.0 // indirect
	github.com/wk8/go-ordered-map/v2 v2.1.9-0.20240816141633-0a40785b4f41 // indirect
	github.com/woodsbury/decimal128 v1.3.0 // indirect
	github.com/xdg-go/scram v1.2.0 // indirect
	github.com/xdg-go/stringprep v1.0.4 // indirect
	github.com/zitadel/oidc/v3 v3.45.3 // indirect
	github.com/zitadel/schema v1.3.2 // indirect
	go.opentelemetry.io/auto/sdk v1.2.1 // indirect
	go.opentelemetry.io/contrib/instrumentation/net/http/otelhttp v0.66.0 // indirect
	go.opentelemetry.io/otel v1.43.0 // indirect
	go.opentelemetry.io/otel/log v0.17.0 // indirect
	go.opentelemetry.io/otel/metric v1.43.0 // indirect
	go.opentelemetry.io/otel/sdk v1.43.0 // indirect
	go.uber.org/dig v1.19.0 // indirect
	go.uber.org/fx v1.24.0 // indirect
	go.uber.org/mock v0.6.0 // indirect
	go.uber.org/multierr v1.11.0 // indirect
	go.uber.org/zap v1.27.1 // indirect
	go.vallahaye.net/batcher v0.6.0 // indirect
	golang.org/x/crypto v0.53.0 // indirect
	golang.org/x/exp v0.0.0-20250819193227-8b4c13bb791b // indirect
	golang.org/x/net v0.56.0 // indirect
	golang.org/x/oauth2 v0.36.0 // indirect
	golang.org/x/sync v0.21.0 // indirect
	golang.org/x/sys v0.46.0 // indirect
	golang.org/x/text v0.39.0 // indirect
	google.golang.org/genproto/googleapis/rpc v0.0.0-20260414002931-afd174a4e478 // indirect
	google.golang.org/grpc v1.82.1 // indirect
	google.golang.org/protobuf v1.36.11 // indirect
	gopkg.in/yaml.v3 v3.0.1 // indirect
)

require (
	github.com/ThreeDotsLabs/watermill v1.5.1
	github.com/anishathalye/porcupine v1.3.0
	github.com/formancehq/go-libs/v5 v5.6.1
	github.com/google/uuid v1.6.0
	github.com/jackc/pgx/v5 v5.9.2
	github.com/uptrace/bun v1.2.18
	github.com/uptrace/bun/dialect/pgdialect v1.2.18
	go.opentelemetry.io/otel/trace v1.43.0
)
