package sim

// Operations of the simulated clients: a semantic description (Op), its rendering as an HTTP request
// through the real router, and the parsing of the real response into an Outcome.

import (
	"encoding/json"
	"fmt"
	"net/url"
	"sort"
	"strconv"
	"strings"
)

const (
	KCreateLedger = "create_ledger"
	KPostings     = "create_postings"
	KScript       = "create_script"
	KRevert       = "revert"
	KTxMetaSet    = "tx_meta_set"
	KTxMetaDel    = "tx_meta_del"
	KAcctMetaSet  = "acct_meta_set"
	KAcctMetaDel  = "acct_meta_del"
	KSchema       = "schema_insert"
	KBulk         = "bulk"
	KImport       = "import"
	KExport       = "export"
	KRaw          = "raw"   // raw request (transport-fault profiles)
	KSleep        = "sleep" // the client waits (simulated time)
	KWalk         = "walk"  // follow the next cursors of a listing to its end, then the previous cursors back
)

type PostingSpec struct {
	Source      string `json:"source"`
	Destination string `json:"destination"`
	Amount      string `json:"amount"`
	Asset       string `json:"asset"`
}

// SourceSem is the closed-form meaning of one source of a generated script.
type SourceSem struct {
	Account   string `json:"account"`
	Overdraft string `json:"overdraft"` // "" = none (0), "unbounded", or a decimal bound
	Max       string `json:"max,omitempty"`
}

// ScriptSem describes a script of the generator's family: send [Asset Amount] (or all: Amount=="*")
// from Sources in order to Dest (optionally split Dest2 with Portion percent).
type ScriptSem struct {
	Asset   string      `json:"asset"`
	Amount  string      `json:"amount"`
	Sources []SourceSem `json:"sources"`
	Dest    string      `json:"dest"`
	Dest2   string      `json:"dest2,omitempty"`
	Portion int         `json:"portion,omitempty"` // percent going to Dest when Dest2 != ""
	TxMeta  [2]string   `json:"tx_meta,omitempty"`
	AccMeta [3]string   `json:"acc_meta,omitempty"` // account, key, value
}

type Op struct {
	ID     string `json:"id"`
	Sig    string `json:"sig,omitempty"` // signature written into the effect (defaults to ID)
	Kind   string `json:"kind"`
	Ledger string `json:"ledger,omitempty"`
	API    string `json:"api,omitempty"` // "v2" (default) or "v1"

	Postings        []PostingSpec                `json:"postings,omitempty"`
	Force           bool                         `json:"force,omitempty"`
	Script          string                       `json:"script,omitempty"`
	Vars            map[string]any               `json:"vars,omitempty"`
	Runtime         string                       `json:"runtime,omitempty"`
	Sem             *ScriptSem                   `json:"sem,omitempty"`
	Template        string                       `json:"template,omitempty"`
	Reference       string                       `json:"reference,omitempty"`
	Timestamp       string                       `json:"timestamp,omitempty"`
	Metadata        map[string]string            `json:"metadata,omitempty"`
	AccountMetadata map[string]map[string]string `json:"account_metadata,omitempty"`

	TxID            uint64 `json:"tx_id,omitempty"`
	Address         string `json:"address,omitempty"`
	Key             string `json:"key,omitempty"`
	AtEffectiveDate bool   `json:"at_effective_date,omitempty"`

	IK            string `json:"ik,omitempty"`
	DryRun        bool   `json:"dry_run,omitempty"`
	SchemaVersion string `json:"schema_version,omitempty"`

	Schema json.RawMessage   `json:"schema,omitempty"`
	Bucket string            `json:"bucket,omitempty"`
	Feats  map[string]string `json:"features,omitempty"`

	Elements          []Op   `json:"elements,omitempty"`
	Atomic            bool   `json:"atomic,omitempty"`
	Parallel          bool   `json:"parallel,omitempty"`
	ContinueOnFailure bool   `json:"continue_on_failure,omitempty"`
	ContentType       string `json:"content_type,omitempty"`

	// Expect: the answer this request would get on its own ("ok" or an API error code), when the
	// generator can know it (elements kept on accounts no other client touches)
	Expect string `json:"expect,omitempty"`

	From         string    `json:"from,omitempty"`          // import: source ledger whose export is fed in
	ImportFrom   int       `json:"import_from,omitempty"`   // import only logs with id >= this
	ImportTo     int       `json:"import_to,omitempty"`     // import only logs with id <= this
	Remainder    bool      `json:"remainder,omitempty"`     // import the logs the destination does not have yet
	ImportOrder  []int     `json:"import_order,omitempty"`  // import exactly the logs with these ids, in this order
	ImportRehash bool      `json:"import_rehash,omitempty"` // ... with hashes recomputed so that they chain in stream order
	ImportSubst  [2]string `json:"import_subst,omitempty"`  // replace the first occurrence of [0] by [1] in the stream, then rehash
	ImportMutate uint64    `json:"import_mutate,omitempty"` // damage the stream (mutateStream) with choices drawn from this value
	Raw          *Request  `json:"raw,omitempty"`
	Capture      string    `json:"capture,omitempty"` // raw admin requests: remember data.id under this name ("reset": mark a reset)
	SleepMs      int       `json:"sleep_ms,omitempty"`
	Walk         *WalkSpec `json:"walk,omitempty"`
	Keep         bool      `json:"keep,omitempty"` // never removed by the minimiser (later ops depend on its answer)
	Chunked      int       `json:"chunked,omitempty"`
}

func (o *Op) sig() string {
	if o.Sig != "" {
		return o.Sig
	}
	return o.ID
}

// IsWrite tells whether the op (or bulk element) is a ledger write that appends a log when it succeeds.
func (o *Op) IsWrite() bool {
	switch o.Kind {
	case KPostings, KScript, KRevert, KTxMetaSet, KTxMetaDel, KAcctMetaSet, KAcctMetaDel, KSchema:
		return true
	}
	return false
}

const sigKey = "op"

func (o *Op) txBody() map[string]any {
	md := map[string]string{}
	for k, v := range o.Metadata {
		md[k] = v
	}
	md[sigKey] = o.sig()
	body := map[string]any{"metadata": md}
	if len(o.Postings) > 0 {
		ps := make([]map[string]any, len(o.Postings))
		for i, p := range o.Postings {
			ps[i] = map[string]any{"source": p.Source, "destination": p.Destination, "amount": json.Number(p.Amount), "asset": p.Asset}
		}
		body["postings"] = ps
	} else {
		sc := map[string]any{}
		if o.Template != "" {
			sc["template"] = o.Template
		} else {
			sc["plain"] = o.Script
		}
		if o.Vars != nil {
			sc["vars"] = o.Vars
		}
		body["script"] = sc
	}
	if o.Reference != "" {
		body["reference"] = o.Reference
	}
	if o.Timestamp != "" {
		body["timestamp"] = o.Timestamp
	}
	if o.AccountMetadata != nil {
		body["accountMetadata"] = o.AccountMetadata
	}
	if o.Runtime != "" {
		body["runtime"] = o.Runtime
	}
	return body
}

func mustJSON(v any) string {
	b, err := json.Marshal(v)
	if err != nil {
		panic(err)
	}
	return string(b)
}

func (o *Op) query(extra ...string) string {
	q := url.Values{}
	if o.DryRun {
		q.Set("dryRun", "true")
	}
	if o.SchemaVersion != "" {
		q.Set("schemaVersion", o.SchemaVersion)
	}
	for i := 0; i+1 < len(extra); i += 2 {
		q.Set(extra[i], extra[i+1])
	}
	if len(q) == 0 {
		return ""
	}
	return "?" + q.Encode()
}

func (o *Op) metaWithSig() map[string]string {
	md := map[string]string{}
	for k, v := range o.Metadata {
		md[k] = v
	}
	return md
}

// bulkElement renders the op as a v2 bulk element.
func (o *Op) bulkElement() map[string]any {
	el := map[string]any{}
	if o.IK != "" {
		el["ik"] = o.IK
	}
	switch o.Kind {
	case KPostings, KScript:
		el["action"] = "CREATE_TRANSACTION"
		d := o.txBody()
		if o.Force {
			d["force"] = true
		}
		el["data"] = d
	case KRevert:
		el["action"] = "REVERT_TRANSACTION"
		el["data"] = map[string]any{"id": o.TxID, "force": o.Force, "atEffectiveDate": o.AtEffectiveDate, "metadata": map[string]string{sigKey: o.sig()}}
	case KTxMetaSet:
		el["action"] = "ADD_METADATA"
		el["data"] = map[string]any{"targetType": "TRANSACTION", "targetId": o.TxID, "metadata": o.metaWithSig()}
	case KAcctMetaSet:
		el["action"] = "ADD_METADATA"
		el["data"] = map[string]any{"targetType": "ACCOUNT", "targetId": o.Address, "metadata": o.metaWithSig()}
	case KTxMetaDel:
		el["action"] = "DELETE_METADATA"
		el["data"] = map[string]any{"targetType": "TRANSACTION", "targetId": o.TxID, "key": o.Key}
	case KAcctMetaDel:
		el["action"] = "DELETE_METADATA"
		el["data"] = map[string]any{"targetType": "ACCOUNT", "targetId": o.Address, "key": o.Key}
	default:
		panic("not a bulk element kind: " + o.Kind)
	}
	return el
}

// Render produces the HTTP request of the op.
func (o *Op) Render(exports map[string]string) Request {
	hdr := map[string]string{"Content-Type": "application/json"}
	if o.IK != "" {
		hdr["Idempotency-Key"] = o.IK
	}
	prefix := "/v2/" + o.Ledger
	if o.API == "v1" {
		prefix = "/" + o.Ledger
	}
	r := Request{Method: "POST", Header: hdr, Chunked: o.Chunked}
	switch o.Kind {
	case KCreateLedger:
		body := map[string]any{}
		if o.Bucket != "" {
			body["bucket"] = o.Bucket
		}
		if o.Feats != nil {
			body["features"] = o.Feats
		}
		r.Path = "/v2/" + o.Ledger
		r.Body = mustJSON(body)
	case KPostings, KScript:
		extra := []string{}
		if o.Force {
			extra = append(extra, "force", "true")
		}
		if o.API == "v1" {
			// v1: preview instead of dryRun
			q := ""
			if o.DryRun {
				q = "?preview=true"
			}
			r.Path = prefix + "/transactions" + q
		} else {
			r.Path = prefix + "/transactions" + o.query(extra...)
		}
		r.Body = mustJSON(o.txBody())
	case KRevert:
		extra := []string{}
		if o.Force {
			extra = append(extra, "force", "true")
		}
		if o.AtEffectiveDate {
			extra = append(extra, "atEffectiveDate", "true")
		}
		if o.API == "v1" {
			q := ""
			if o.Force {
				q = "?disableChecks=true"
			}
			r.Path = fmt.Sprintf("%s/transactions/%d/revert%s", prefix, o.TxID, q)
		} else {
			r.Path = fmt.Sprintf("%s/transactions/%d/revert%s", prefix, o.TxID, o.query(extra...))
			r.Body = mustJSON(map[string]any{"metadata": map[string]string{sigKey: o.sig()}})
		}
	case KTxMetaSet:
		r.Path = fmt.Sprintf("%s/transactions/%d/metadata%s", prefix, o.TxID, o.query())
		r.Body = mustJSON(o.metaWithSig())
	case KTxMetaDel:
		r.Method = "DELETE"
		r.Path = fmt.Sprintf("%s/transactions/%d/metadata/%s%s", prefix, o.TxID, url.PathEscape(o.Key), o.query())
	case KAcctMetaSet:
		r.Path = fmt.Sprintf("%s/accounts/%s/metadata%s", prefix, url.PathEscape(o.Address), o.query())
		r.Body = mustJSON(o.metaWithSig())
	case KAcctMetaDel:
		r.Method = "DELETE"
		r.Path = fmt.Sprintf("%s/accounts/%s/metadata/%s%s", prefix, url.PathEscape(o.Address), url.PathEscape(o.Key), o.query())
	case KSchema:
		r.Path = fmt.Sprintf("%s/schemas/%s%s", prefix, url.PathEscape(o.SchemaVersion), "")
		r.Body = string(o.Schema)
	case KBulk:
		extra := []string{}
		if o.Atomic {
			extra = append(extra, "atomic", "true")
		}
		if o.Parallel {
			extra = append(extra, "parallel", "true")
			r.Parallel = true
		}
		if o.ContinueOnFailure {
			extra = append(extra, "continueOnFailure", "true")
		}
		r.Path = prefix + "/_bulk" + o.query(extra...)
		els := make([]map[string]any, len(o.Elements))
		for i := range o.Elements {
			els[i] = o.Elements[i].bulkElement()
		}
		switch o.ContentType {
		case "script-stream":
			hdr["Content-Type"] = "application/vnd.formance.ledger.api.v2.bulk+script-stream"
			sb := &strings.Builder{}
			for i := range o.Elements {
				e := &o.Elements[i]
				sb.WriteString("//script")
				if e.IK != "" {
					sb.WriteString(" ik=" + e.IK)
				}
				sb.WriteString("\n" + e.Script + "\n//end\n")
			}
			r.Body = sb.String()
			if r.Chunked == 0 {
				r.Chunked = 1 << 20
			}
		case "json-stream":
			hdr["Content-Type"] = "application/vnd.formance.ledger.api.v2.bulk+json-stream"
			sb := &strings.Builder{}
			for _, e := range els {
				sb.WriteString(mustJSON(e))
				sb.WriteString("\n")
			}
			r.Body = sb.String()
			if r.Chunked == 0 {
				r.Chunked = 1 << 20
			}
		default:
			r.Body = mustJSON(els)
		}
	case KExport:
		r.Path = prefix + "/logs/export"
	case KImport:
		r.Path = prefix + "/logs/import"
		r.Body = filterExport(exports[o.From], o.ImportFrom, o.ImportTo)
		if o.ImportSubst[0] != "" {
			r.Body = rehashExport(strings.Replace(r.Body, o.ImportSubst[0], o.ImportSubst[1], 1))
		}
		if o.ImportMutate != 0 {
			r.Body = mutateStream(NewRNG(o.ImportMutate), r.Body)
		}
		if len(o.ImportOrder) > 0 {
			r.Body = permuteExport(exports[o.From], o.ImportOrder)
			if o.ImportRehash {
				r.Body = rehashExport(r.Body)
			}
		}
		if r.Chunked == 0 {
			r.Chunked = 1 << 20
		}
	case KRaw:
		return *o.Raw
	default:
		panic("unknown op kind " + o.Kind)
	}
	return r
}

// Outcome is the parsed answer to an op.
type Outcome struct {
	Class   string // ok | client_err | server_err | crashed | aborted | panic
	Status  int
	Code    string // API error code
	Msg     string
	Hit     bool            // idempotency hit
	Data    json.RawMessage // "data" member of the response
	Tx      *TxView
	Bulk    []ElemOutcome
	Invoke  uint64
	Return  uint64
	BodyLen int
	Body    []byte `json:"-"` // whole response body, kept for read requests (raw GET, export)
}

type TxView struct {
	ID         uint64            `json:"id"`
	Postings   []PostingSpec     `json:"-"`
	RawPost    []rawPosting      `json:"postings"`
	Metadata   map[string]string `json:"metadata"`
	Timestamp  string            `json:"timestamp"`
	Reference  string            `json:"reference"`
	Reverted   bool              `json:"reverted"`
	InsertedAt string            `json:"insertedAt"`
}

type rawPosting struct {
	Source      string      `json:"source"`
	Destination string      `json:"destination"`
	Amount      json.Number `json:"amount"`
	Asset       string      `json:"asset"`
}

type ElemOutcome struct {
	OK    bool
	Code  string
	Msg   string
	LogID uint64
	Type  string
	Tx    *TxView
}

func parseTx(raw json.RawMessage) *TxView {
	if len(raw) == 0 {
		return nil
	}
	dec := json.NewDecoder(strings.NewReader(string(raw)))
	dec.UseNumber()
	t := &TxView{}
	if err := dec.Decode(t); err != nil {
		// v1 returns an array of transactions
		var arr []json.RawMessage
		if json.Unmarshal(raw, &arr) == nil && len(arr) > 0 {
			return parseTx(arr[0])
		}
		return nil
	}
	for _, p := range t.RawPost {
		t.Postings = append(t.Postings, PostingSpec{p.Source, p.Destination, p.Amount.String(), p.Asset})
	}
	return t
}

func ParseOutcome(op *Op, resp Response, hdrHit bool) Outcome {
	out := Outcome{Status: resp.Status, Invoke: resp.Invoke, Return: resp.Return, BodyLen: len(resp.Body)}
	switch {
	case resp.Crashed:
		out.Class = "crashed"
		return out
	case resp.Aborted:
		out.Class = "aborted"
		return out
	case resp.Panic != "":
		out.Class = "panic"
		out.Msg = resp.Panic
		return out
	}
	var env struct {
		Data         json.RawMessage `json:"data"`
		ErrorCode    string          `json:"errorCode"`
		ErrorMessage string          `json:"errorMessage"`
	}
	if len(resp.Body) > 0 {
		dec := json.NewDecoder(strings.NewReader(string(resp.Body)))
		dec.UseNumber()
		_ = dec.Decode(&env)
	}
	out.Code, out.Msg, out.Data = env.ErrorCode, env.ErrorMessage, env.Data
	if op.Kind == KRaw || op.Kind == KExport {
		out.Body = resp.Body
	}
	out.Hit = hdrHit
	switch {
	case resp.Status >= 200 && resp.Status < 300:
		out.Class = "ok"
	case resp.Status >= 400 && resp.Status < 500:
		out.Class = "client_err"
	default:
		out.Class = "server_err"
	}
	switch op.Kind {
	case KPostings, KScript, KRevert:
		if out.Class == "ok" {
			out.Tx = parseTx(env.Data)
		}
	case KBulk:
		var els []struct {
			ErrorCode        string          `json:"errorCode"`
			ErrorDescription string          `json:"errorDescription"`
			Data             json.RawMessage `json:"data"`
			ResponseType     string          `json:"responseType"`
			LogID            uint64          `json:"logID"`
		}
		if len(env.Data) > 0 {
			dec := json.NewDecoder(strings.NewReader(string(env.Data)))
			dec.UseNumber()
			_ = dec.Decode(&els)
		}
		for _, e := range els {
			eo := ElemOutcome{OK: e.ResponseType != "ERROR", Code: e.ErrorCode, Msg: e.ErrorDescription, LogID: e.LogID, Type: e.ResponseType}
			if eo.OK && len(e.Data) > 0 {
				eo.Tx = parseTx(e.Data)
			}
			out.Bulk = append(out.Bulk, eo)
		}
	}
	return out
}

func sortedKeys[V any](m map[string]V) []string {
	ks := make([]string, 0, len(m))
	for k := range m {
		ks = append(ks, k)
	}
	sort.Strings(ks)
	return ks
}

func u64(s string) uint64 { n, _ := strconv.ParseUint(s, 10, 64); return n }

// WalkSpec: a cursor walk over one listing (C21).
type WalkSpec struct {
	Resource string `json:"resource"` // transactions | logs | accounts
	PageSize int    `json:"page_size"`
	Sort     string `json:"sort,omitempty"` // e.g. id:asc (the API's sort parameter); empty = the route's default
	Back     bool   `json:"back,omitempty"` // then follow the previous cursors back from the last page
	MaxPages int    `json:"max_pages,omitempty"`
	// Filter: a query body sent with the first page (the cursors carry it on); Keep names the reference predicate:
	// "u2" = the account (of the entity) is u:<one segment>
	Filter string `json:"filter,omitempty"`
	Keep   string `json:"keep,omitempty"`
}

// WalkPage is one page of a walk as the client saw it.
type WalkPage struct {
	Dir      string // first | next | prev
	Status   int
	Code     string
	Invoke   uint64
	Return   uint64
	IDs      []string
	HasMore  bool
	Next     string
	Previous string
	PageSize int
}
