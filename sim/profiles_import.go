package sim

// C11 (export then import reproduces the ledger and the copy stays writable) and
// C12 (import is exclusive and only on pristine ledgers).

import (
	"bytes"
	"encoding/json"
	"fmt"
	"sort"
	"strings"

	ledger "github.com/formancehq/ledger/internal"
)

// historyOps builds a sequential history on a ledger in which every op succeeds, so that transaction
// ids are known while generating (reverts and metadata ops need targets).
func (g *gen) historyOps(ledgerName string, n int, withSchema bool) []Op {
	var ops []Op
	txN := uint64(0)
	reverted := map[uint64]bool{}
	metaKeys := map[uint64][]string{}
	acctKeys := map[string][]string{}
	// initial funding
	for _, u := range users {
		op := Op{ID: g.id("h"), Kind: KPostings, Ledger: ledgerName, Postings: []PostingSpec{{"world", u, "1000", "USD"}, {"world", u, "36893488147419103232", "EUR/2"}}}
		ops = append(ops, op)
		txN++
	}
	if withSchema {
		ops = append(ops, Op{ID: g.id("h"), Kind: KSchema, Ledger: ledgerName, SchemaVersion: "s." + fmt.Sprint(g.n+1), Sig: fmt.Sprint(g.n + 1),
			Schema: json.RawMessage(`{"chart":{"world":{},"bank":{},"u":{"$id":{".pattern":"^[0-9]+$"}},"x":{"$any":{".pattern":"^.*$"}}}}`)})
	}
	for i := 0; i < n; i++ {
		var op Op
		switch x := g.r.Intn(10); {
		case x < 4:
			u, v := Pick(g.r, users), Pick(g.r, append(append([]string{}, users...), "bank"))
			op = Op{Kind: KPostings, Postings: []PostingSpec{{u, v, g.amount(false), "EUR/2"}, {"world", u, g.amount(true), "USD"}}}
			op.Metadata = map[string]string{"note": Pick(g.r, weird)}
			if g.r.Chance(0.3) {
				op.Reference = "ref-" + fmt.Sprint(g.n+1) + Pick(g.r, []string{"", " é", `"q"`})
			}
			if g.r.Chance(0.3) {
				op.Timestamp = fmt.Sprintf("199%d-0%d-1%dT0%d:00:00Z", g.r.Intn(10), 1+g.r.Intn(9), g.r.Intn(10), g.r.Intn(10))
			}
			if g.r.Chance(0.3) {
				op.AccountMetadata = map[string]map[string]string{v: {"am." + fmt.Sprint(g.n+1): Pick(g.r, weird)}}
			}
			txN++
			metaKeys[txN] = append(metaKeys[txN], "note")
		case x < 5:
			u := Pick(g.r, users)
			op = Op{Kind: KScript, Script: fmt.Sprintf("send [USD %d] (\n  source = @%s allowing unbounded overdraft\n  destination = @bank\n)\nset_tx_meta(\"k\", \"v%d\")\n", 1+g.r.Intn(9), u, i)}
			txN++
		case x < 7:
			// revert a not yet reverted transaction, forced so that it cannot fail
			var cands []uint64
			for id := uint64(1); id <= txN; id++ {
				if !reverted[id] {
					cands = append(cands, id)
				}
			}
			if len(cands) == 0 {
				continue
			}
			id := Pick(g.r, cands)
			reverted[id] = true
			op = Op{Kind: KRevert, TxID: id, Force: true, AtEffectiveDate: g.r.Bool()}
			txN++
			reverted[txN] = false
		case x < 8:
			id := 1 + uint64(g.r.Intn(int(txN)))
			op = Op{Kind: KTxMetaSet, TxID: id}
		case x < 9:
			a := Pick(g.r, append(append([]string{}, users...), "x:"+fmt.Sprint(g.r.Intn(3))))
			op = Op{Kind: KAcctMetaSet, Address: a}
		default:
			// delete a key set earlier
			var ids []uint64
			for id, ks := range metaKeys {
				if len(ks) > 0 {
					ids = append(ids, id)
				}
			}
			sort.Slice(ids, func(i, j int) bool { return ids[i] < ids[j] })
			if len(ids) == 0 {
				continue
			}
			id := Pick(g.r, ids)
			k := metaKeys[id][0]
			metaKeys[id] = metaKeys[id][1:]
			op = Op{Kind: KTxMetaDel, TxID: id, Key: k}
		}
		op.ID = g.id("h")
		op.Ledger = ledgerName
		switch op.Kind {
		case KTxMetaSet:
			op.Metadata = map[string]string{"m." + op.ID: Pick(g.r, weird)}
			metaKeys[op.TxID] = append(metaKeys[op.TxID], "m."+op.ID)
			if g.r.Chance(0.6) {
				// a key every such write overwrites with a value of its own: the copy must end on the last one
				// (wave 16, C11e: the import-only merge of a SET_METADATA log kept the older value)
				op.Metadata["stage"] = "st-" + op.ID
			}
		case KAcctMetaSet:
			op.Metadata = map[string]string{"m." + op.ID: Pick(g.r, weird)}
			acctKeys[op.Address] = append(acctKeys[op.Address], "m."+op.ID)
			if g.r.Chance(0.6) {
				op.Metadata["tier"] = "t-" + op.ID
			}
		case KTxMetaDel:
			// signature of a delete log = the key without its "d." prefix: make it unique
			op.Sig = strings.TrimPrefix(op.Key, "d.")
			if op.Key == "note" || strings.HasPrefix(op.Key, "m.") {
				op.Sig = op.Key
			}
		}
		ops = append(ops, op)
	}
	g.txN = txN
	return ops
}

func (g *gen) postImportWrites(ledgerName string) []Op {
	var ops []Op
	single := Op{ID: g.id("p"), Kind: KPostings, Ledger: ledgerName, Postings: []PostingSpec{{"world", "p:1", "5", "USD"}}, Expect: "ok"}
	mk := func(n int) []Op {
		var els []Op
		for i := 0; i < n; i++ {
			e := Op{ID: g.id("e"), Kind: KPostings, Ledger: ledgerName, Postings: []PostingSpec{{"world", fmt.Sprintf("p:%d", g.n), "3", "USD"}}, Expect: "ok"}
			els = append(els, e)
		}
		return els
	}
	nonAtomic := Op{ID: g.id("p"), Kind: KBulk, Ledger: ledgerName, Elements: mk(2)}
	atomic := Op{ID: g.id("p"), Kind: KBulk, Ledger: ledgerName, Atomic: true, Elements: mk(2)}
	parallel := Op{ID: g.id("p"), Kind: KBulk, Ledger: ledgerName, Parallel: true, Elements: mk(2)}
	meta := Op{ID: g.id("p"), Kind: KAcctMetaSet, Ledger: ledgerName, Address: "p:meta", Expect: "ok"}
	meta.Metadata = map[string]string{"m." + meta.ID: "v"}
	ops = []Op{single, nonAtomic, atomic, parallel, meta}
	for i := len(ops) - 1; i > 0; i-- {
		j := g.r.Intn(i + 1)
		ops[i], ops[j] = ops[j], ops[i]
	}
	return ops
}

func init() {
	register(Profile{Property: "C11", Name: "export-import", Gen: func(r *RNG, seed uint64, tier string) (*Scenario, *ExploreCfg) {
		sc := &Scenario{Property: "C11", Profile: "export-import", Knobs: randomKnobs(r), Checks: []string{"import-copy", "import-exclusive", "logs-match-ops", "replay", "post-writes"}, Params: map[string]string{}}
		g := &gen{r: r, sc: sc}
		feats := ledgerFeatures(sc.Knobs)
		sc.Setup = []Op{{ID: g.id("s"), Kind: KCreateLedger, Ledger: "src", Feats: feats}}
		withSchema := r.Chance(0.25)
		sc.Setup = append(sc.Setup, g.historyOps("src", 3+r.Intn(8), withSchema)...)
		if withSchema {
			sc.Checks = append(sc.Checks, "schema-defaults")
		}
		sc.Setup = append(sc.Setup, Op{ID: g.id("s"), Kind: KExport, Ledger: "src"})
		bucket := ""
		if r.Chance(0.4) {
			bucket = "b2"
		}
		sc.Setup = append(sc.Setup, Op{ID: g.id("s"), Kind: KCreateLedger, Ledger: "dst", Feats: feats, Bucket: bucket})
		imp := Op{ID: "c0.0", Kind: KImport, Ledger: "dst", From: "src", Chunked: Pick(r, []int{64, 257, 4096, 1 << 20})}
		sc.Clients = [][]Op{{imp}}
		ex := defaultExplore(seed, 0, 0)
		faulty := r.Chance(0.35)
		if faulty {
			ex = defaultExplore(seed, 0.03, 1, FCrash, FStmtErr, FConnLost, FCommitClean)
			// after a failed import the client sends the remainder
			sc.Post = append(sc.Post, Op{ID: g.id("p"), Kind: KImport, Ledger: "dst", From: "src", Remainder: true, Chunked: 1 << 20})
		}
		if r.Chance(0.3) {
			// restart between import and the first write
			sc.Params["restart-before-post"] = "1"
		}
		sc.Post = append(sc.Post, g.postImportWrites("dst")...)
		return sc, ex
	}})
	register(Profile{Property: "C12", Name: "import-exclusive", Gen: func(r *RNG, seed uint64, tier string) (*Scenario, *ExploreCfg) {
		sc := &Scenario{Property: "C12", Profile: "import-exclusive", Knobs: randomKnobs(r), Checks: []string{"import-exclusive", "import-copy", "logs-match-ops", "replay", "no-leaked-locks"}, Params: map[string]string{}}
		g := &gen{r: r, sc: sc}
		feats := ledgerFeatures(sc.Knobs)
		sc.Setup = []Op{{ID: g.id("s"), Kind: KCreateLedger, Ledger: "src", Feats: feats}}
		sc.Setup = append(sc.Setup, g.historyOps("src", 2+r.Intn(5), false)...)
		sc.Setup = append(sc.Setup, Op{ID: g.id("s"), Kind: KExport, Ledger: "src"})
		sc.Setup = append(sc.Setup, Op{ID: g.id("s"), Kind: KCreateLedger, Ledger: "dst", Feats: feats})
		// prior history of dst: empty / imported prefix / already written
		prior := r.Intn(4)
		priorTo := 0
		switch prior {
		case 1:
			priorTo = 2 + r.Intn(3)
			sc.Setup = append(sc.Setup, Op{ID: g.id("s"), Kind: KImport, Ledger: "dst", From: "src", ImportTo: priorTo, Chunked: 1 << 20})
			sc.Params["prior"] = "prefix"
		case 2:
			w := Op{ID: g.id("s"), Kind: KPostings, Ledger: "dst", Postings: []PostingSpec{{"world", "w:0", "1", "USD"}}}
			sc.Setup = append(sc.Setup, w)
			sc.Params["prior"] = "written"
		}
		var clients [][]Op
		imp := Op{ID: "c0.0", Kind: KImport, Ledger: "dst", From: "src", Chunked: Pick(r, []int{64, 300, 1 << 20})}
		if prior == 1 {
			switch r.Intn(3) {
			case 0:
				imp.ImportFrom = priorTo + 1 // the continuation
			case 1:
				// a stream that overlaps the imported prefix without starting at its first log: refused for the
				// log that already exists, before anything of it is applied (wave 16, C12f)
				imp.ImportFrom = 2 + r.Intn(priorTo-1)
				sc.Params["overlap"] = fmt.Sprint(imp.ImportFrom)
			}
		}
		clients = append(clients, []Op{imp})
		nw := 1 + r.Intn(2)
		for c := 1; c <= nw; c++ {
			var op Op
			switch r.Intn(4) {
			case 0, 1:
				op = Op{Kind: KPostings, Postings: []PostingSpec{{"world", fmt.Sprintf("w:%d", c), "7", "USD"}}}
			case 2:
				op = Op{Kind: KBulk, Atomic: true}
			default:
				op = Op{Kind: KBulk}
			}
			op.ID = fmt.Sprintf("c%d.0", c)
			op.Ledger = "dst"
			if op.Kind == KBulk {
				if !op.Atomic && r.Chance(0.5) {
					// a failing element first: the rest of the bulk must still go through the ledger gate
					op.ContinueOnFailure = true
					op.Elements = append(op.Elements, Op{ID: g.id("e"), Kind: KPostings, Ledger: "dst", Postings: []PostingSpec{{fmt.Sprintf("poor:%d", c), "bank", "1000", "USD"}}, Expect: "INSUFFICIENT_FUND"})
				}
				for i := 0; i < 2; i++ {
					op.Elements = append(op.Elements, Op{ID: g.id("e"), Kind: KPostings, Ledger: "dst", Postings: []PostingSpec{{"world", fmt.Sprintf("w:%d:%d", c, i), "2", "USD"}}})
				}
			}
			clients = append(clients, []Op{op})
		}
		if r.Chance(0.3) {
			imp2 := Op{ID: fmt.Sprintf("c%d.0", nw+1), Kind: KImport, Ledger: "dst", From: "src", Chunked: 1 << 20}
			clients = append(clients, []Op{imp2})
		}
		sc.Clients = clients
		// afterwards: an import of logs that follow the existing ones must be refused once a write was
		// accepted, and the ledger must still be usable
		sc.Post = []Op{{ID: g.id("p"), Kind: KImport, Ledger: "dst", From: "src", Remainder: true, Chunked: 1 << 20},
			{ID: g.id("p"), Kind: KPostings, Ledger: "dst", Postings: []PostingSpec{{"world", "after", "1", "USD"}}}}
		ex := defaultExplore(seed, 0, 0)
		if r.Chance(0.3) {
			ex = defaultExplore(seed, 0.03, 1, FCrash, FStmtErr, FConnLost, FCommitClean, FDisconnect)
		}
		return sc, ex
	}})
}

func init() {
	// C12, second profile: the imported stream starts beyond every id the concurrent writes can take, so
	// whether the import is accepted depends only on the state of the ledger under the ledger lock, never
	// on an id collision. The stream is a suffix of a history of independent transactions (world -> fresh
	// account) and log hashing is off, so the suffix is importable on its own.
	register(Profile{Property: "C12", Name: "import-beyond-writes", Gen: func(r *RNG, seed uint64, tier string) (*Scenario, *ExploreCfg) {
		sc := &Scenario{Property: "C12", Profile: "import-beyond-writes", Knobs: randomKnobs(r), Checks: []string{"import-exclusive", "logs-match-ops", "replay", "no-leaked-locks"}, Params: map[string]string{}}
		sc.Knobs.HashLogs = "DISABLED"
		g := &gen{r: r, sc: sc}
		feats := ledgerFeatures(sc.Knobs)
		sc.Setup = []Op{{ID: g.id("s"), Kind: KCreateLedger, Ledger: "src", Feats: feats}}
		for i := 0; i < 9; i++ {
			sc.Setup = append(sc.Setup, Op{ID: g.id("h"), Kind: KPostings, Ledger: "src", Postings: []PostingSpec{{"world", fmt.Sprintf("g:%d", i), "10", "USD"}}})
		}
		sc.Setup = append(sc.Setup, Op{ID: g.id("s"), Kind: KExport, Ledger: "src"}, Op{ID: g.id("s"), Kind: KCreateLedger, Ledger: "dst", Feats: feats})
		if r.Bool() {
			sc.Setup = append(sc.Setup, Op{ID: g.id("s"), Kind: KImport, Ledger: "dst", From: "src", ImportTo: 2, Chunked: 1 << 20})
		}
		imp := Op{ID: "c0.0", Kind: KImport, Ledger: "dst", From: "src", ImportFrom: 6 + r.Intn(3), Chunked: Pick(r, []int{64, 300, 1 << 20})}
		clients := [][]Op{{imp}}
		nw := 1 + r.Intn(2)
		for c := 1; c <= nw; c++ {
			op := Op{ID: fmt.Sprintf("c%d.0", c), Ledger: "dst", Kind: KPostings, Postings: []PostingSpec{{"world", fmt.Sprintf("w:%d", c), "7", "USD"}}}
			if r.Chance(0.3) {
				op = Op{ID: op.ID, Ledger: "dst", Kind: KBulk, Atomic: r.Bool()}
				op.Elements = append(op.Elements, Op{ID: g.id("e"), Kind: KPostings, Ledger: "dst", Postings: []PostingSpec{{"world", fmt.Sprintf("w:%d:0", c), "2", "USD"}}})
			}
			clients = append(clients, []Op{op})
		}
		sc.Clients = clients
		sc.Post = []Op{{ID: g.id("p"), Kind: KImport, Ledger: "dst", From: "src", ImportFrom: 9, Chunked: 1 << 20},
			{ID: g.id("p"), Kind: KPostings, Ledger: "dst", Postings: []PostingSpec{{"world", "after", "1", "USD"}}}}
		ex := defaultExplore(seed, 0, 0)
		if r.Chance(0.25) {
			ex = defaultExplore(seed, 0.03, 1, FStmtErr, FConnLost, FCommitClean, FDisconnect)
		}
		return sc, ex
	}})
}

// filterExport keeps the logs of an export stream whose id is within [from, to] (0 = unbounded).
func filterExport(stream string, from, to int) string {
	if from == 0 && to == 0 {
		return stream
	}
	var out bytes.Buffer
	for _, line := range strings.Split(stream, "\n") {
		if strings.TrimSpace(line) == "" {
			continue
		}
		var l struct {
			ID int `json:"id"`
		}
		if json.Unmarshal([]byte(line), &l) != nil {
			continue
		}
		if (from == 0 || l.ID >= from) && (to == 0 || l.ID <= to) {
			out.WriteString(line)
			out.WriteString("\n")
		}
	}
	return out.String()
}

// srcSigs returns the signatures of the ops of a ledger.
func (r *runner) sigsOf(ledgerName string) map[string]bool {
	out := map[string]bool{}
	for k := range r.bySig {
		if strings.HasPrefix(k, ledgerName+"|") {
			out[k[len(ledgerName)+1:]] = true
		}
	}
	return out
}

type importTrack struct {
	clientWriteSeen map[string]bool
	imported        map[string]int
}

func checkImportInterleave(r *runner, rec CommitRec) []Violation {
	var vs []Violation
	if r.imp == nil {
		r.imp = &importTrack{clientWriteSeen: map[string]bool{}, imported: map[string]int{}}
	}
	for _, w := range rec.Writes {
		if w.Key.Table != "log" || w.Before != nil || w.After == nil {
			continue
		}
		l := w.Key.Ledger
		li, err := logInfo(w.After.(*LogRow))
		if err != nil {
			continue
		}
		own := r.bySig[l+"|"+li.Sig] != nil
		if !own {
			// an imported log
			if r.imp.clientWriteSeen[l] {
				vs = append(vs, Violation{r.sc.Property, "no-import-after-an-accepted-write", fmt.Sprintf("commit %d (task %s): imported log %d committed on ledger %s after a client write had been accepted", rec.Seq, rec.Task, li.ID, l)})
			}
			r.imp.imported[l]++
			continue
		}
		r.imp.clientWriteSeen[l] = true
		// a client write: no import on this ledger may be in flight with part of its logs committed
		r.w.mu.Lock()
		for id, started := range r.started {
			op := started
			if op.Kind != KImport || op.Ledger != l || r.byID[id] != nil || r.crashedOps[id] {
				continue
			}
			faulted := false
			for _, f := range r.w.firedAt {
				if opIDOf(f.Task) == id {
					faulted = true
				}
			}
			if faulted {
				// an import stopped by a fault has already given up the ledger although its
				// request is still being answered: what it committed stays (documented: log by log)
				continue
			}
			n := r.importCommits[id]
			if n > 0 {
				vs = append(vs, Violation{r.sc.Property, "writes-and-import-never-interleave", fmt.Sprintf("commit %d (task %s): client write (log %d) committed on ledger %s while import %s is in flight with %d logs committed", rec.Seq, rec.Task, li.ID, l, id, n)})
			}
		}
		r.w.mu.Unlock()
	}
	for _, w := range rec.Writes {
		if w.Key.Table == "log" && w.Before == nil && w.After != nil {
			r.w.mu.Lock()
			if op := r.started[opIDOf(rec.Task)]; op != nil && op.Kind == KImport {
				r.importCommits[opIDOf(rec.Task)]++
			}
			r.w.mu.Unlock()
		}
	}
	return vs
}

// checkImportCopy: the copy equals the source (when an import succeeded), a rejected import had no
// effect, and an import only succeeds on a pristine ledger / with logs after the existing ones.
func checkImportCopy(r *runner, views map[string]*LedgerView) []Violation {
	var vs []Violation
	prop := r.sc.Property
	for _, or := range r.results {
		op := or.Op
		if op.Kind != KImport {
			continue
		}
		n := r.importCommits[op.ID]
		switch {
		case or.Out.Class == "client_err" && len(or.Faults) == 0:
			if n > 0 {
				vs = append(vs, Violation{prop, "rejected-import-has-no-effect", fmt.Sprintf("%s was rejected (%d %s %s) but committed %d logs", op.ID, or.Out.Status, or.Out.Code, or.Out.Msg, n)})
			}
			if ov := r.sc.Params["overlap"]; ov != "" && op.ID == "c0.0" && fmt.Sprint(op.ImportFrom) == ov &&
				!strings.Contains(or.Out.Msg, "already exists") && !strings.Contains(or.Out.Msg, "not in initializing state") {
				vs = append(vs, Violation{prop, "an-overlapping-import-is-refused-for-the-existing-log", fmt.Sprintf("%s sends logs from id %s on, which the ledger already holds; it was refused with %d %s %q - not for the log that exists", op.ID, ov, or.Out.Status, or.Out.Code, or.Out.Msg)})
			}
		case or.Out.Class == "ok" && len(or.Faults) == 0 && r.sc.Params["overlap"] != "" && op.ID == "c0.0" && fmt.Sprint(op.ImportFrom) == r.sc.Params["overlap"]:
			vs = append(vs, Violation{prop, "an-overlapping-import-is-refused-for-the-existing-log", fmt.Sprintf("%s sends logs from id %s on, which the ledger already holds, and was accepted", op.ID, r.sc.Params["overlap"])})
		case or.Out.Class == "server_err" && len(or.Faults) == 0 && !uncertain(or):
			vs = append(vs, Violation{prop, "import-answers", fmt.Sprintf("%s answered %d %s without any injected fault", op.ID, or.Out.Status, or.Out.Msg)})
		}
	}
	src, dst := views["src"], views["dst"]
	if src == nil || dst == nil {
		return vs
	}
	// did some import (or sequence of imports) bring the whole stream?
	srcSigs := r.sigsOf("src")
	imported := 0
	for _, lr := range dst.Logs {
		if li, err := logInfo(lr); err == nil && srcSigs[li.Sig] && r.bySig["dst|"+li.Sig] == nil {
			imported++
		}
	}
	okImport := false
	for _, or := range r.results {
		if or.Op.Kind == KImport && or.Out.Class == "ok" && or.Op.ImportTo == 0 {
			okImport = true
		}
	}
	if okImport && imported != len(src.Logs) {
		vs = append(vs, Violation{prop, "import-brings-every-log", fmt.Sprintf("an import was acknowledged but the copy has %d of the %d source logs", imported, len(src.Logs))})
	}
	if imported == len(src.Logs) && imported > 0 {
		vs = append(vs, compareCopy(prop, src, dst, srcSigs, r)...)
	}
	// imported prefix: the imported logs are exactly the first `imported` source logs
	for i := 0; i < imported && i < len(src.Logs) && i < len(dst.Logs); i++ {
		if dst.Logs[i].ID != src.Logs[i].ID || !jsonEq(dst.Logs[i].DataJSON, src.Logs[i].DataJSON) {
			vs = append(vs, Violation{prop, "imported-logs-are-a-prefix-of-the-stream", fmt.Sprintf("copy log at position %d is id %d, source has id %d (or payload differs)", i, dst.Logs[i].ID, src.Logs[i].ID)})
			break
		}
	}
	return vs
}

func compareCopy(prop string, src, dst *LedgerView, srcSigs map[string]bool, r *runner) []Violation {
	var vs []Violation
	add := func(clause, format string, a ...any) {
		vs = append(vs, Violation{prop, clause, fmt.Sprintf(format, a...)})
	}
	hashed := src.Feats["HASH_LOGS"] == "SYNC"
	for i, sl := range src.Logs {
		if i >= len(dst.Logs) {
			break
		}
		dl := dst.Logs[i]
		if dl.ID != sl.ID || dl.Type != sl.Type || !jsonEq(dl.DataJSON, sl.DataJSON) || !dl.Date.Equal(sl.Date) || dl.IK != sl.IK || dl.SchemaVersion != sl.SchemaVersion {
			add("copy-has-identical-logs", "log %d differs: source %s %s / copy %s %s", sl.ID, sl.Type, sl.DataJSON, dl.Type, dl.DataJSON)
		}
		if hashed && !bytes.Equal(dl.Hash, sl.Hash) {
			add("copy-has-identical-hashes", "log %d: hash differs between source and copy", sl.ID)
		}
	}
	// transactions created by the source history (the copy may have later ones)
	for id, st := range src.Txs {
		dt := dst.Txs[id]
		if dt == nil {
			add("copy-has-identical-transactions", "transaction %d missing in the copy", id)
			continue
		}
		same := len(st.Postings) == len(dt.Postings) && metaEqIgnoring(st.Metadata, dt.Metadata, nil) && st.Reference == dt.Reference && st.Timestamp.Equal(dt.Timestamp) && (st.RevertedAt == nil) == (dt.RevertedAt == nil)
		if same {
			for i := range st.Postings {
				a, b := st.Postings[i], dt.Postings[i]
				if a.Source != b.Source || a.Destination != b.Destination || a.Asset != b.Asset || a.Amount.Cmp(b.Amount) != 0 {
					same = false
				}
			}
		}
		// post-import writes may legitimately touch an imported transaction (none do in this profile)
		if !same {
			add("copy-has-identical-transactions", "transaction %d differs: source %+v / copy %+v", id, txBrief(st), txBrief(dt))
		}
		if st.RevertedAt != nil && dt.RevertedAt != nil && !st.RevertedAt.Equal(*dt.RevertedAt) {
			add("copy-has-identical-transactions", "transaction %d: revertedAt %s in source, %s in copy", id, st.RevertedAt, dt.RevertedAt)
		}
	}
	for a, sa := range src.Accts {
		da := dst.Accts[a]
		if da == nil {
			add("copy-has-identical-accounts", "account %s missing in the copy", a)
			continue
		}
		if !metaEq(sa.Metadata, da.Metadata) && !postTouched(r, a) {
			add("copy-has-identical-metadata", "account %s: source metadata %v, copy %v", a, sa.Metadata, da.Metadata)
		}
		if !sa.FirstUsage.Equal(da.FirstUsage) && !postTouched(r, a) {
			add("copy-has-identical-accounts", "account %s: first usage %s in source, %s in copy", a, sa.FirstUsage, da.FirstUsage)
		}
	}
	// volumes: compare on accounts no post-import write touches
	for k, sv := range src.Vols {
		acct := k[:strings.IndexByte(k, 0)]
		if postTouched(r, acct) {
			continue
		}
		dv := dst.Vols[k]
		if dv == nil {
			if sv.Input.Sign() != 0 || sv.Output.Sign() != 0 {
				add("copy-has-identical-volumes", "volumes of %s missing in the copy", strings.ReplaceAll(k, "\x00", "/"))
			}
			continue
		}
		if sv.Input.Cmp(dv.Input) != 0 || sv.Output.Cmp(dv.Output) != 0 {
			add("copy-has-identical-volumes", "volumes of %s: source %s/%s, copy %s/%s", strings.ReplaceAll(k, "\x00", "/"), sv.Input, sv.Output, dv.Input, dv.Output)
		}
	}
	for ver := range src.Schemas {
		if dst.Schemas[ver] == nil {
			add("copy-has-identical-schemas", "schema %s missing in the copy", ver)
		}
	}
	return vs
}

func txBrief(t *ledger.Transaction) string {
	return fmt.Sprintf("{postings:%v metadata:%v ref:%q ts:%s reverted:%v}", t.Postings, t.Metadata, t.Reference, t.Timestamp, t.RevertedAt != nil)
}

func metaEqIgnoring(a, b map[string]string, _ []string) bool { return metaEq(a, b) }

// postTouched: does a write of the destination ledger (post phase or concurrent client) involve the account?
func postTouched(r *runner, account string) bool {
	touches := func(op *Op) bool {
		if op.Address == account {
			return true
		}
		for _, p := range op.Postings {
			if p.Source == account || p.Destination == account {
				return true
			}
		}
		return false
	}
	var visit func(op *Op) bool
	visit = func(op *Op) bool {
		if op.Ledger != "dst" && op.Ledger != "" {
			return false
		}
		if touches(op) {
			return true
		}
		for i := range op.Elements {
			if visit(&op.Elements[i]) {
				return true
			}
		}
		return false
	}
	for i := range r.sc.Post {
		if visit(&r.sc.Post[i]) {
			return true
		}
	}
	for _, c := range r.sc.Clients {
		for i := range c {
			if c[i].Ledger == "dst" && visit(&c[i]) {
				return true
			}
		}
	}
	for i := range r.sc.Setup {
		if r.sc.Setup[i].Ledger == "dst" && visit(&r.sc.Setup[i]) {
			return true
		}
	}
	return false
}

// checkPostWrites: after an import every write path succeeds and continues the id sequences.
func checkPostWrites(r *runner, views map[string]*LedgerView) []Violation {
	var vs []Violation
	prop := r.sc.Property
	src, dst := views["src"], views["dst"]
	if src == nil || dst == nil {
		return nil
	}
	var maxImportedTx, maxImportedLog uint64
	for id := range src.Txs {
		if id > maxImportedTx {
			maxImportedTx = id
		}
	}
	for _, l := range src.Logs {
		if l.ID > maxImportedLog {
			maxImportedLog = l.ID
		}
	}
	srcSigs := r.sigsOf("src")
	imported := 0
	for _, lr := range dst.Logs {
		if li, err := logInfo(lr); err == nil && srcSigs[li.Sig] && r.bySig["dst|"+li.Sig] == nil {
			imported++
		}
	}
	complete := imported == len(src.Logs)
	for _, or := range r.results {
		if or.Phase != "post" || or.Op.Kind == KImport {
			continue
		}
		if len(or.Faults) > 0 || uncertain(or) {
			continue
		}
		bad := func(what string) {
			vs = append(vs, Violation{prop, "every-write-path-succeeds-on-the-copy", fmt.Sprintf("%s (%s%s) after the import: %s", or.Op.ID, or.Op.Kind, bulkFlavor(or.Op), what)})
		}
		switch or.Op.Kind {
		case KBulk:
			if or.Out.Class != "ok" {
				bad(fmt.Sprintf("answered %d %s %s %v", or.Out.Status, or.Out.Code, or.Out.Msg, bulkErrors(or)))
				continue
			}
			for i, e := range or.Out.Bulk {
				if !e.OK {
					bad(fmt.Sprintf("element %d failed: %s %s", i, e.Code, e.Msg))
				} else if complete && e.Tx != nil && e.Tx.ID <= maxImportedTx {
					vs = append(vs, Violation{prop, "ids-continue-after-the-imported-ones", fmt.Sprintf("%s element %d got transaction id %d, imported ids go up to %d", or.Op.ID, i, e.Tx.ID, maxImportedTx)})
				} else if complete && e.LogID != 0 && e.LogID <= maxImportedLog {
					vs = append(vs, Violation{prop, "ids-continue-after-the-imported-ones", fmt.Sprintf("%s element %d got log id %d, imported ids go up to %d", or.Op.ID, i, e.LogID, maxImportedLog)})
				}
			}
		default:
			if or.Out.Class != "ok" {
				bad(fmt.Sprintf("answered %d %s %s", or.Out.Status, or.Out.Code, or.Out.Msg))
			} else if complete && or.Out.Tx != nil && or.Out.Tx.ID <= maxImportedTx {
				vs = append(vs, Violation{prop, "ids-continue-after-the-imported-ones", fmt.Sprintf("%s got transaction id %d, imported ids go up to %d", or.Op.ID, or.Out.Tx.ID, maxImportedTx)})
			}
		}
	}
	return vs
}

func bulkFlavor(op *Op) string {
	if op.Kind != KBulk {
		return ""
	}
	switch {
	case op.Atomic:
		return " atomic"
	case op.Parallel:
		return " parallel"
	}
	return " sequential"
}

func bulkErrors(or *OpResult) []string {
	var out []string
	for _, e := range or.Out.Bulk {
		if !e.OK {
			out = append(out, e.Code+":"+e.Msg)
		}
	}
	return out
}

func init() {
	// C08 on a copy: the journal of an imported ledger is its source's, log for log; the state the import replay
	// built from it must be the state those logs describe (the export-import scenario of C11, judged by replay).
	register(Profile{Property: "C08", Name: "journal-of-a-copy", Gen: func(r *RNG, seed uint64, tier string) (*Scenario, *ExploreCfg) {
		sc, ex := profiles["C11"][0].Gen(r, seed, tier)
		sc.Property, sc.Profile, sc.Checks = "C08", "journal-of-a-copy", []string{"replay"}
		return sc, ex
	}})
}
