package sim

import (
	"testing"
	"testing/synctest"
)

// TestSQLSmoke: the write path through the real storage methods over the SQL interpreter.
func TestSQLSmoke(t *testing.T) {
	synctest.Test(t, func(t *testing.T) {
		w := NewWorld()
		w.realSQL = true
		k := Knobs{HashLogs: "SYNC", BulkParallelism: 2, RealSQL: true}
		lis, rec := w.NewListener(k)
		inc := w.NewIncarnation(k, lis, nil)
		do := func(id string, r Request) Response {
			resp := w.Do(inc, id, r)
			t.Logf("%s %s %s -> %d %s", id, r.Method, r.Path, resp.Status, string(resp.Body))
			return resp
		}
		do("s1", Request{Method: "POST", Path: "/v2/l1", Body: `{}`})
		do("s2", Request{Method: "POST", Path: "/v2/l1/transactions", Body: `{"postings":[{"source":"world","destination":"alice","amount":100,"asset":"USD"}],"metadata":{"k":"v'q\"x"},"reference":"r1"}`})
		do("s3", Request{Method: "POST", Path: "/v2/l1/transactions", Body: `{"postings":[{"source":"alice","destination":"bob","amount":150,"asset":"USD"}]}`})
		do("s3b", Request{Method: "POST", Path: "/v2/l1/transactions", Body: `{"postings":[{"source":"alice","destination":"bob","amount":50,"asset":"USD"}],"reference":"r1"}`})
		do("s4", Request{Method: "POST", Path: "/v2/l1/transactions/1/revert"})
		do("s5", Request{Method: "POST", Path: "/v2/l1/transactions/1/revert"})
		do("s6", Request{Method: "POST", Path: "/v2/l1/transactions/1/metadata", Body: `{"a":"b"}`})
		do("s7", Request{Method: "DELETE", Path: "/v2/l1/transactions/1/metadata/a"})
		do("s8", Request{Method: "POST", Path: "/v2/l1/accounts/alice/metadata", Body: `{"a":"b"}`})
		do("s9", Request{Method: "DELETE", Path: "/v2/l1/accounts/alice/metadata/a"})
		do("s10", Request{Method: "POST", Path: "/v2/l1/transactions", Header: map[string]string{"Idempotency-Key": "ik1"}, Body: `{"script":{"plain":"send [USD 10] (\n source=@world\n destination=@carol\n)\nset_account_meta(@carol, \"x\", \"y\")"}}`})
		do("s11", Request{Method: "POST", Path: "/v2/l1/transactions", Header: map[string]string{"Idempotency-Key": "ik1"}, Body: `{"script":{"plain":"send [USD 10] (\n source=@world\n destination=@carol\n)\nset_account_meta(@carol, \"x\", \"y\")"}}`})
		do("s12", Request{Method: "GET", Path: "/v2/l1/logs"})
		t.Logf("events: %+v", rec.Events())
		t.Logf("harness: %v unsupported=%q", w.harness, w.sqlUnsupported)
		for k, v := range w.db.CommittedSnapshot() {
			t.Logf("%s = %+v", k, v)
		}
		w.Shutdown()
		_ = inc.sqlDB.Close()
	})
}
