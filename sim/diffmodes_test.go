package sim

// Self-check of the trusted base: the SQL interpreter (real-SQL runs) and the contract model (model runs) are
// two independent implementations of the same store. For sequential, fault-free histories drawn from every
// profile they must leave the same committed state. A disagreement is a defect of the harness (in one of
// the two), found here rather than as a false alarm or a miss of a property check.
//
//   ledgersim.test -test.run TestDiffModes -sim.diffruns 300

import (
	"flag"
	"fmt"
	"regexp"
	"sort"
	"strings"
	"testing"
	gotime "time"
)

var fDiffRuns = flag.Int("sim.diffruns", 0, "TestDiffModes: runs per profile (0 = skip)")

func flattenSequential(sc *Scenario) {
	var all []Op
	for _, c := range sc.Clients {
		all = append(all, c...)
	}
	sc.Clients = [][]Op{all}
}

var reTS = regexp.MustCompile(`(ts|first_usage)=(\S+)`)

// maskClock hides the timestamps the database clock assigned (the two modes tick it differently); the
// timestamps a request carried explicitly are kept.
func maskClock(line string, explicit map[string]bool) string {
	return reTS.ReplaceAllStringFunc(line, func(m string) string {
		i := strings.IndexByte(m, '=')
		if explicit[m[i+1:]] {
			return m
		}
		return m[:i+1] + "<db>"
	})
}

func explicitTimestamps(sc *Scenario) map[string]bool {
	out := map[string]bool{}
	var walk func(ops []Op)
	walk = func(ops []Op) {
		for _, op := range ops {
			if op.Timestamp != "" {
				if t, err := parseTimestamp(op.Timestamp); err == nil {
					out[t.UTC().Format("2006-01-02T15:04:05.999999Z")] = true
					out[t.UTC().Format(gotime.RFC3339Nano)] = true
				}
			}
			walk(op.Elements)
		}
	}
	walk(sc.Setup)
	for _, c := range sc.Clients {
		walk(c)
	}
	walk(sc.Post)
	return out
}

func stateProjection(res *RunResult, snap map[rowKey]any) []string {
	var out []string
	views := ViewOf(snap)
	for _, name := range sortedKeys(views) {
		v := views[name]
		for _, l := range projectLedger(v) {
			out = append(out, name+": "+l)
		}
		for _, a := range sortedKeys(v.Accts) {
			r := v.Accts[a]
			out = append(out, fmt.Sprintf("%s: account %s first_usage=%s", name, a, r.FirstUsage.Time.UTC().Format("2006-01-02T15:04:05.999999Z")))
		}
		out = append(out, fmt.Sprintf("%s: state=%s", name, v.State))
	}
	var answers []string
	for _, or := range res.Results {
		answers = append(answers, fmt.Sprintf("answer %s %s -> %s %d %s", or.Op.ID, or.Op.Kind, or.Out.Class, or.Out.Status, or.Out.Code))
	}
	sort.Strings(answers)
	return append(out, answers...)
}

func TestDiffModes(t *testing.T) {
	if *fDiffRuns == 0 {
		t.Skip("no -sim.diffruns")
	}
	bad := 0
	total := 0
	for _, prop := range sortedKeys(profiles) {
		if prop == "C33" {
			continue
		}
		for _, p := range profiles[prop] {
			for run := 0; run < *fDiffRuns; run++ {
				rs := RunSeed(*fSeed, uint64(run))
				var proj [2][]string
				skip := false
				for mode := 0; mode < 2; mode++ {
					sc, _ := p.Gen(NewRNG(rs).Derive(0), rs, "quick")
					if sc.Worker != nil || sc.Params["lenient_reads"] == "1" {
						skip = true
						break
					}
					flattenSequential(sc)
					sc.Seed = rs
					sc.Knobs.RealSQL = mode == 1
					sc.Checks = nil
					var snap map[rowKey]any
					sc.Params = copyParams(sc.Params)
					res := runForSnapshot(t, sc, &snap)
					if res.Harness != nil || res.Unsupported != "" {
						t.Logf("%s/%s run %d mode %d: harness=%v unsupported=%q", prop, p.Name, run, mode, res.Harness, res.Unsupported)
						skip = true
						break
					}
					proj[mode] = stateProjection(res, snap)
					ex := explicitTimestamps(sc)
					for i := range proj[mode] {
						proj[mode][i] = maskClock(proj[mode][i], ex)
					}
				}
				if skip {
					continue
				}
				total++
				a, b := proj[0], proj[1]
				for i := 0; i < len(a) || i < len(b); i++ {
					la, lb := "<nothing>", "<nothing>"
					if i < len(a) {
						la = a[i]
					}
					if i < len(b) {
						lb = b[i]
					}
					if la != lb {
						bad++
						if bad <= 10 {
							t.Errorf("%s/%s run %d: the contract model and the SQL interpreter disagree:\n  model:    %s\n  real-sql: %s", prop, p.Name, run, strings.TrimSpace(la), strings.TrimSpace(lb))
						}
						break
					}
				}
			}
		}
	}
	t.Logf("diffmodes: %d sequential histories compared, %d disagreements", total, bad)
}

func copyParams(m map[string]string) map[string]string {
	out := map[string]string{}
	for k, v := range m {
		out[k] = v
	}
	return out
}

func runForSnapshot(t *testing.T, sc *Scenario, snap *map[rowKey]any) *RunResult {
	sc.Params["keep_snapshot"] = "1"
	res := RunScenario(t, sc, &Plan{}, nil)
	*snap = res.Snapshot
	return res
}
