package sim

// C38, second profile: grammar-aware mutations of valid request bodies (type confusion on every JSON
// field, boundary values, invalid addresses and assets, odd script variables) on every write route of
// v1 and v2, sent by concurrent clients. Oracle: a well-formed 4xx (never a 5xx, a recovered panic or a
// process crash) whenever the request is not accepted, and a refused request leaves nothing.

import (
	"encoding/base64"
	"encoding/json"
	"fmt"
	"sort"
	"strings"
)

var confusers = []any{nil, true, false, 0, -1, 12, 1.5, 1e30, "", " ", "str", "USD/2", "world", "@world", "a b", "é:漢", "COIN/999999999999", "18446744073709551617",
	[]any{}, []any{1}, map[string]any{}, map[string]any{"asset": 12, "amount": 100}, map[string]any{"asset": "USD", "amount": "x"}, map[string]any{"amount": 5},
	map[string]any{"asset": nil, "amount": nil}, map[string]any{"asset": "USD", "amount": -5}, map[string]any{"asset": "USD", "amount": 1e40}, strings.Repeat("a", 300)}

// paths lists every leaf/inner position of a JSON tree as a path of keys/indices.
func jsonPaths(v any, prefix []any, out *[][]any) {
	*out = append(*out, append([]any{}, prefix...))
	switch x := v.(type) {
	case map[string]any:
		keys := make([]string, 0, len(x))
		for k := range x {
			keys = append(keys, k)
		}
		sort.Strings(keys)
		for _, k := range keys {
			jsonPaths(x[k], append(prefix, k), out)
		}
	case []any:
		for i := range x {
			jsonPaths(x[i], append(prefix, i), out)
		}
	}
}

func jsonSet(root any, path []any, val any, del bool) any {
	if len(path) == 0 {
		return val
	}
	switch x := root.(type) {
	case map[string]any:
		k := path[0].(string)
		if len(path) == 1 && del {
			delete(x, k)
			return x
		}
		x[k] = jsonSet(x[k], path[1:], val, del)
		return x
	case []any:
		i := path[0].(int)
		if i < len(x) {
			if len(path) == 1 && del {
				return append(x[:i], x[i+1:]...)
			}
			x[i] = jsonSet(x[i], path[1:], val, del)
		}
		return x
	}
	return root
}

// deepCopy: the confusers are shared values and jsonSet mutates in place.
func deepCopy(v any) any {
	switch x := v.(type) {
	case map[string]any:
		m := map[string]any{}
		for k, e := range x {
			m[k] = deepCopy(e)
		}
		return m
	case []any:
		l := make([]any, len(x))
		for i, e := range x {
			l[i] = deepCopy(e)
		}
		return l
	}
	return v
}

func mutateBody(r *RNG, body string) string {
	if body == "" {
		return Pick(r, []string{"", "{", "null", "[]", "42", `"x"`, "{}"})
	}
	var tree any
	dec := json.NewDecoder(strings.NewReader(body))
	dec.UseNumber()
	if err := dec.Decode(&tree); err != nil {
		return body
	}
	n := 1 + r.Intn(2)
	for i := 0; i < n; i++ {
		var paths [][]any
		jsonPaths(tree, nil, &paths)
		p := Pick(r, paths)
		switch r.Intn(10) {
		case 0:
			tree = jsonSet(tree, p, nil, true)
		default:
			tree = jsonSet(tree, p, deepCopy(Pick(r, confusers)), false)
		}
	}
	b, err := json.Marshal(tree)
	if err != nil {
		return body
	}
	if r.Chance(0.05) {
		return string(b[:r.Intn(len(b)+1)])
	}
	return string(b)
}

func init() {
	register(Profile{Property: "C38", Name: "type-confusion", Gen: func(r *RNG, seed uint64, tier string) (*Scenario, *ExploreCfg) {
		sc := &Scenario{Property: "C38", Profile: "type-confusion", Knobs: randomKnobs(r), Checks: []string{"replay", "no-5xx-without-fault", "no-leaked-locks", "refused-leaves-nothing"}, Params: map[string]string{"lenient_reads": "1"}}
		g := &gen{r: r, sc: sc}
		sc.Setup = g.baseSetup("l1", "100", 3)
		g.txN = 5
		withTemplates := r.Chance(0.5)
		if withTemplates {
			// a schema carrying query templates of every resource kind: POST /queries/{id}/run is then a read route
			// whose body (vars, params, cursor) is client input
			sc.Setup = append(sc.Setup, Op{ID: g.id("s"), Kind: KSchema, Ledger: "l1", SchemaVersion: "s.q", Schema: json.RawMessage(`{"chart":{"world":{},"bank":{},"u":{"$id":{".pattern":"^[0-9]+$"}}},"queries":{` +
				`"QT":{"resource":"transactions","vars":{"ref":"string"},"body":{"$match":{"reference":"${ref}"}}},` +
				`"QA":{"resource":"accounts","vars":{"a":{"type":"string","default":"u:"}},"body":{"$match":{"address":"${a}"}}},` +
				`"QL":{"resource":"logs","params":{"pageSize":2}},` +
				`"QV":{"resource":"volumes","params":{"pageSize":2}}}}`)})
		}
		nc := 1 + r.Intn(2)
		for c := 0; c < nc; c++ {
			var ops []Op
			for i := 0; i < 2+r.Intn(4); i++ {
				var base Op
				if r.Chance(0.08) {
					// ledger creation and ledger metadata with confused bodies and odd names
					req := Request{Method: "POST", Path: "/v2/" + Pick(r, []string{"l2", "l3", "l1", "a%20b", "_system", "-x", "L", strings.Repeat("n", 70), "é"}), Header: map[string]string{"Content-Type": "application/json"},
						Body: mutateBody(r, `{"bucket":"b1","metadata":{"a":"b"},"features":{"HASH_LOGS":"SYNC","MOVES_HISTORY":"ON"}}`)}
					if r.Chance(0.3) {
						req = Request{Method: Pick(r, []string{"PUT", "DELETE"}), Path: "/v2/l1/metadata" + Pick(r, []string{"", "/a", "/%00"}), Header: req.Header, Body: mutateBody(r, `{"a":"b","c":"d"}`)}
					}
					ops = append(ops, Op{ID: fmt.Sprintf("c%d.%d", c, i), Kind: KRaw, Ledger: "l1", Raw: &req})
					continue
				}
				if r.Chance(0.08) {
					// script-stream bulk with a damaged element header
					hdr := Pick(r, []string{"//script", "//script ik", "//script ik=", "//script ik=a,ik=b", "//script foo=bar", "//script =", "//script ,", "//script ik=a,", "// script", "//scriptik=a", "//script ik=a=b", "//script\tik=x"})
					body := hdr + "\nsend [USD 1] (\n  source = @world\n  destination = @bank\n)\n" + Pick(r, []string{"//end\n", "", "//end", "//end\n//script ik\n"})
					req := Request{Method: "POST", Path: "/v2/l1/_bulk", Header: map[string]string{"Content-Type": "application/vnd.formance.ledger.api.v2.bulk+script-stream"}, Body: body, Chunked: Pick(r, []int{7, 1 << 20})}
					ops = append(ops, Op{ID: fmt.Sprintf("c%d.%d", c, i), Kind: KRaw, Ledger: "l1", Raw: &req})
					continue
				}
				if withTemplates && r.Chance(0.2) {
					req := fuzzRunQuery(r)
					ops = append(ops, Op{ID: fmt.Sprintf("c%d.%d", c, i), Kind: KRaw, Ledger: "l1", Raw: &req})
					continue
				}
				if r.Chance(0.25) {
					req := fuzzRead(r)
					ops = append(ops, Op{ID: fmt.Sprintf("c%d.%d", c, i), Kind: KRaw, Ledger: "l1", Raw: &req})
					continue
				}
				switch x := r.Intn(12); {
				case x < 2:
					base = g.postingsOp("l1", 2, true, true)
				case x < 5:
					// scripts with variables of every kind, monetary ones in both accepted forms
					base = Op{Kind: KScript, Ledger: "l1", Script: "vars {\n  monetary $amt\n  account $dst\n}\nsend $amt (\n  source = @world\n  destination = $dst\n)\n",
						Vars: map[string]any{"dst": "bank", "amt": Pick(r, []any{"USD 5", map[string]any{"asset": "USD", "amount": 5}, map[string]any{"asset": "USD", "amount": "7"}})}}
				case x < 6:
					base = g.scriptOp("l1")
				case x < 7:
					base = g.revertOp("l1", uint64(3+r.Intn(3)))
				case x < 9:
					base = g.metaOp("l1")
				case x < 10:
					base = Op{Kind: KSchema, Ledger: "l1", SchemaVersion: "s.f" + fmt.Sprint(g.n), Schema: json.RawMessage(`{"chart":{"world":{},"bank":{},"u":{"$id":{".pattern":"^[0-9]+$",".metadata":{"k":{"default":"v"}}}}},"transactions":{"t":{"script":"send [USD 1] (\n source = @world\n destination = @bank\n)"}}}`)}
				default:
					base = Op{Kind: KBulk, Ledger: "l1", Atomic: r.Bool()}
					els, _ := g.bulkElements("l1", fmt.Sprintf("b%d", c), nil, 2, false)
					els = append(els, Op{ID: g.id("e"), Kind: KScript, Ledger: "l1", Script: "vars {\n  monetary $amt\n}\nsend $amt (\n  source = @world\n  destination = @bank\n)\n",
						Vars: map[string]any{"amt": map[string]any{"asset": "USD", "amount": 3}}})
					base.Elements = els
				}
				if base.Kind != KBulk && base.Kind != KSchema && r.Chance(0.25) {
					base.API = "v1"
					base.Force, base.AtEffectiveDate, base.DryRun = false, false, false
				}
				base.ID = fmt.Sprintf("c%d.%d", c, i)
				switch base.Kind {
				case KTxMetaSet, KAcctMetaSet:
					base.Metadata = map[string]string{"m." + base.ID: "v"}
				case KTxMetaDel, KAcctMetaDel:
					base.Key = "d." + base.ID
				}
				req := base.Render(nil)
				req.Body = mutateBody(r, req.Body)
				if r.Chance(0.1) {
					req.Path += Pick(r, []string{"?dryRun=maybe", "?force=2", "?schemaVersion=%00", "?atEffectiveDate=yes"})
				}
				if r.Chance(0.1) {
					req.Header["Idempotency-Key"] = Pick(r, []string{"", " ", strings.Repeat("k", 300), "é"})
				}
				ops = append(ops, Op{ID: base.ID, Kind: KRaw, Ledger: "l1", Raw: &req})
			}
			sc.Clients = append(sc.Clients, ops)
		}
		return sc, defaultExplore(seed, 0, 0)
	}})
}

func b64(x string) string { return base64.RawURLEncoding.EncodeToString([]byte(x)) }

var badCursors = []string{"x", "%00", "e30", "bnVsbA", b64(`{"offset":"x"}`), b64(`{"offset":-1}`), b64(`{"offset":18446744073709551615,"pageSize":15}`),
	b64(`{"pageSize":1e99}`), b64(`{"pageSize":-1,"column":"id"}`), b64(`{"column":"id","paginationID":"abc","order":7}`), b64(`{"column":"id","paginationID":{"a":1}}`),
	b64(`{"column":"id","order":"desc","pageSize":2,"options":{"pit":"notadate"}}`), b64(`{"column":"id","pageSize":2,"options":{"qb":{"$match":{"id":[1]}}}}`),
	b64(`{"column":"id","pageSize":2,"options":{"qb":12,"expand":7}}`), b64(`[1,2]`), b64(`"str"`),
	b64(`{"column":"id","paginationID":0,"order":1,"pageSize":2}`), b64(`{"column":"id","paginationID":0,"order":0,"pageSize":2,"reverse":true}`), b64(`{"column":"id","paginationID":99,"order":0,"pageSize":2}`),
	b64(`{"column":"id","order":2,"pageSize":2}`), b64(`{"column":"id","order":-1,"pageSize":2}`), b64(`{"column":"address","order":0,"pageSize":2}`), b64(`{"column":"address","paginationID":"world","order":0,"pageSize":2}`),
	b64(`{"column":"reference","order":0,"pageSize":2}`), b64(`{"column":"id","paginationID":1,"bottom":5,"order":1,"pageSize":1,"reverse":true}`), b64(`{"offset":15,"pageSize":15}`), b64(`{"offset":0,"pageSize":2,"column":"account","order":0}`),
	b64(`{"offset":1,"pageSize":0,"column":"address","order":0}`), b64(`{"column":"timestamp","paginationID":"2000-01-01T00:00:00Z","order":1,"pageSize":2}`), b64(`{"column":"nope","order":1,"pageSize":2}`), b64(`{"offset":0,"pageSize":3,"options":null}`), strings.Repeat("A", 5000)}

var badParams = []string{"sort=reference", "sort=metadata:desc", "sort=type", "sort=balance", "sort=reverted:asc", "pageSize=abc", "pageSize=-1", "pageSize=99999999999999999999", "pageSize=0", "pit=notadate", "pit=2024-13-45T99:00:00Z", "oot=1", "pit=&oot=%ff",
	"expand=volumes,foo", "sort=bad:sideways", "sort=:desc", "sort=id:asc", "query=%7B", "query=12", "query=%7B%22%24match%22%3A%7B%22id%22%3A%22x%22%7D%7D", "after=abc", "start_time=bad", "end_time=bad",
	"pagination_token=zzz", "page_size=x", "reference=%00", "metadata[a]=b", "startTime=x", "endTime=y", "insertedAt=z", "useInsertionDate=maybe", "dryRun=2", "force=x",
	"pit=2000-01-01T00:00:00Z", "expand=volumes", "expand=effectiveVolumes", "useInsertionDate=true", "groupBy=1", "groupBy=x", "groupBy=-1", "startTime=1999-01-01T00:00:00Z", "endTime=2001-01-01T00:00:00Z", "insertionDate=true",
	"sort=reverted_at", "sort=reverted_at:asc", "sort=inserted_at:asc", "sort=timestamp:asc", "sort=updated_at", "sort=first_usage", "sort=insertion_date:desc", "sort=date", "sort=effective",
	"address=u:", "address=%00", "balance=5", "balanceOperator=nope", "balanceOperator=gte", "account=world", "source=u:1", "destination=%ff", "after=3", "metadata[k]=v"}

var badQueryBodies = []string{"{", "12", "[]", `"x"`, `{"$match":12}`, `{"$match":{"id":{"a":1}}}`, `{"$and":{}}`, `{"$or":[1,2]}`, `{"$lt":{"id":"x"}}`, `{"$nope":{"id":1}}`,
	`{"$match":{"id":1},"$gt":{"id":2}}`, `{"$and":[{"$match":{"id":1}},{"$not":12}]}`, `{"$in":{"id":5}}`, `{"$exists":{"metadata[k]":"maybe"}}`, `null`}

// fieldFilters: filters on fields the resources really have, well-typed and type-confused. In the real-SQL
// runs the storage layer's own filter validation and SQL building (resource_*.go ResolveFilter, the schema
// check of storage/common) runs on them, and the interpreter executes the simple ones.
var fieldFilters = []string{`{"$lt":{"balance":100}}`, `{"$gt":{"balance[USD]":0}}`, `{"$gt":{"balance[USD]":"x"}}`, `{"$match":{"balance[USD]":{"a":1}}}`, `{"$gte":{"balance[]":1}}`,
	`{"$match":{"address":"u:"}}`, `{"$match":{"address":12}}`, `{"$match":{"address":"u:1:"}}`, `{"$match":{"address":":"}}`, `{"$in":{"address":["world","bank"]}}`, `{"$in":{"address":[1,{}]}}`, `{"$like":{"address":"u%"}}`,
	`{"$match":{"metadata[k]":"v"}}`, `{"$match":{"metadata[k]":1}}`, `{"$match":{"metadata[]":"v"}}`, `{"$exists":{"metadata":"k"}}`, `{"$exists":{"metadata":1}}`, `{"$exists":{"metadata[k]":true}}`,
	`{"$match":{"first_usage":"notadate"}}`, `{"$lt":{"first_usage":"2000-01-01T00:00:00Z"}}`, `{"$gte":{"insertion_date":12}}`, `{"$lt":{"updated_at":null}}`,
	`{"$gte":{"timestamp":"x"}}`, `{"$lt":{"timestamp":"2000-01-01T00:00:00Z"}}`, `{"$match":{"reference":12}}`, `{"$match":{"reference":"ref-0"}}`, `{"$match":{"reverted":"maybe"}}`, `{"$match":{"reverted":true}}`,
	`{"$match":{"account":"u:1"}}`, `{"$match":{"source":"world"}}`, `{"$match":{"destination":12}}`, `{"$match":{"id":"x"}}`, `{"$lt":{"id":2}}`, `{"$match":{"id":1.5}}`, `{"$match":{"id":-1}}`, `{"$match":{"id":99999999999999999999}}`,
	`{"$match":{"type":"NEW_TRANSACTION"}}`, `{"$match":{"date":"x"}}`, `{"$gte":{"date":"2000-01-01T00:00:00Z"}}`, `{"$match":{"ledger":"l2"}}`, `{"$match":{"inserted_at":"x"}}`,
	`{"$in":{"type":["NEW_TRANSACTION"]}}`, `{"$exists":{"balance":1}}`, `{"$exists":{"balance[USD]":true}}`, `{"$in":{"source":["u:"]}}`, `{"$in":{"destination":["a::b"]}}`, `{"$in":{"account":["world","u:"]}}`, `{"$in":{"balance":[1,2]}}`,
	`{"$match":{"metadata[balance[USD]]":1}}`, `{"$lt":{"metadata[balance[USD]]":5}}`, `{"$like":{"reference":"r%"}}`, `{"$in":{"id":[1,"x"]}}`, `{"$in":{"reference":["ref-0",1]}}`, `{"$in":{"timestamp":["x"]}}`, `{"$exists":{"id":true}}`, `{"$lt":{"address":"u:"}}`, `{"$gt":{"reverted":true}}`,
	`{"$and":[{"$match":{"address":"u:"}},{"$gt":{"balance[USD]":0}}]}`, `{"$or":[{"$match":{"metadata[k]":"v"}},{"$lt":{"balance":5}}]}`, `{"$not":{"$match":{"address":"world"}}}`, `{"$not":{"$exists":{"metadata":"k"}}}`}

// fuzzRunQuery: POST /v2/l1/queries/{id}/run on the templates of schema s.q, with confused vars, params and cursors.
func fuzzRunQuery(r *RNG) Request {
	id := Pick(r, []string{"QT", "QA", "QL", "QV", "QV", "nope", "%00"})
	path := "/v2/l1/queries/" + id + "/run" + Pick(r, []string{"?schemaVersion=s.q", "?schemaVersion=s.q", "?schemaVersion=s.q", "", "?schemaVersion=none", "?schemaVersion=%00"})
	body := map[string]any{}
	if r.Chance(0.5) {
		body["vars"] = Pick(r, []any{map[string]any{"ref": "ref-0"}, map[string]any{"ref": 12}, map[string]any{"a": "u:1"}, map[string]any{"a": nil}, map[string]any{"a": []any{1}}, map[string]any{"zz": "x"}, "x", []any{}, map[string]any{"a": map[string]any{"b": 1}}})
	}
	if r.Chance(0.4) {
		body["params"] = Pick(r, []any{map[string]any{"pageSize": 1}, map[string]any{"pageSize": "x"}, map[string]any{"pageSize": -1}, map[string]any{"sort": "id:sideways"}, map[string]any{"sort": "id:asc"}, map[string]any{"sort": ":"},
			map[string]any{"sort": "metadata"}, map[string]any{"endTime": "x"}, map[string]any{"endTime": "2000-01-01T00:00:00Z"}, map[string]any{"startTime": "1999-01-01T00:00:00Z"}, map[string]any{"expand": []any{"volumes", "foo"}},
			map[string]any{"expand": "volumes"}, map[string]any{"groupBy": 1}, map[string]any{"groupLvl": -1}, map[string]any{"useInsertionDate": "maybe"}, "x", 12, nil})
	}
	if r.Chance(0.5) {
		body["cursor"] = Pick(r, badCursors)
		if r.Chance(0.1) {
			body["cursor"] = 12
		}
	}
	b, _ := json.Marshal(body)
	req := Request{Method: "POST", Path: path, Header: map[string]string{"Content-Type": "application/json"}, Body: string(b)}
	if r.Chance(0.15) {
		req.Body = mutateBody(r, req.Body)
	}
	return req
}

// fuzzRead: read routes whose query string, cursor and body are decided by the API layer (dates, page
// sizes, cursors, query JSON). Filters are checked by SQL-building storage code that is not in the
// simulation: the stub answers ErrInvalidQuery to every shape it does not model.
func fuzzRead(r *RNG) Request {
	path := Pick(r, []string{"/v2/l1/transactions", "/v2/l1/accounts", "/v2/l1/logs", "/v2/l1/schemas", "/v2", "/l1/transactions", "/l1/accounts", "/l1/logs",
		"/v2/l1/transactions/abc", "/v2/l1/transactions/99999999999999999999999", "/v2/l1/transactions/-1", "/l1/transactions/1.5", "/v2/l1/accounts/a b", "/v2/l1/accounts/%ff", "/l1/accounts/é:漢",
		"/v2/l1/transactions/3", "/v2/l1/accounts/world", "/v2/l1/volumes", "/v2/l1/aggregate/balances", "/l1/balances", "/l1/aggregate/balances", "/v2/l1/transactions", "/v2/l1/accounts", "/v2/l1/logs", "/v2/l1/schemas/%00", "/v2/l1", "/v2/l1/_info", "/l1/_info", "/v2/l1/logs/export", "/v2/%20", "/v2/" + strings.Repeat("n", 300)})
	method := "GET"
	if r.Chance(0.15) {
		method = Pick(r, []string{"HEAD", "DELETE", "PATCH", "PUT", "OPTIONS", "POST"})
	}
	if method == "POST" || method == "DELETE" || method == "PUT" || method == "PATCH" {
		// never a valid write with a chance to succeed on the fixture ledger: only routes that refuse
		path = Pick(r, []string{"/v2/l1/transactions/abc/revert", "/v2/l1/transactions/99999999999999999999999/revert", "/v2/l1/accounts/a b/metadata", "/l1/transactions/x/metadata", "/v2/l1/transactions/1/metadata/", "/l1/accounts/%ff/metadata/k", "/l1/transactions/batch"})
	}
	var q []string
	for i := 0; i < r.Intn(3); i++ {
		if r.Chance(0.4) {
			q = append(q, "cursor="+Pick(r, badCursors))
		} else {
			q = append(q, Pick(r, badParams))
		}
	}
	if len(q) > 0 {
		path += "?" + strings.Join(q, "&")
	}
	req := Request{Method: method, Path: path, Header: map[string]string{"Content-Type": "application/json"}}
	if r.Chance(0.3) {
		req.Body = Pick(r, badQueryBodies)
	} else if r.Chance(0.5) {
		req.Body = Pick(r, fieldFilters)
	}
	return req
}

// checkRefusedLeavesNothing: a request answered 4xx committed nothing (commits are attributed to the
// task of the request that issued them).
func checkRefusedLeavesNothing(r *runner, commits []CommitRec) []Violation {
	var vs []Violation
	writes := map[string][]string{}
	for _, c := range commits {
		if len(c.Writes) > 0 {
			writes[opIDOf(c.Task)] = append(writes[opIDOf(c.Task)], commitSummary(c))
		}
	}
	for _, or := range r.results {
		if or.Phase != "main" || or.Op.Kind != KRaw {
			continue
		}
		if strings.Contains(or.Op.Raw.Path, "/_bulk") {
			continue // a non-atomic bulk answers 400 when one element fails and still applies the others
		}
		if or.Out.Class == "client_err" && len(writes[or.Op.ID]) > 0 {
			vs = append(vs, Violation{r.sc.Property, "refused-request-leaves-nothing", fmt.Sprintf("%s %s %s answered %d %s but committed %v; body=%s", or.Op.ID, or.Op.Raw.Method, or.Op.Raw.Path, or.Out.Status, or.Out.Code, writes[or.Op.ID], truncate(or.Op.Raw.Body, 300))})
		}
	}
	return vs
}

func truncate(s string, n int) string {
	if len(s) > n {
		return s[:n] + "..."
	}
	return s
}

// mutateStream damages an exported log stream the way mutateBody damages a request body: one or two of a line
// dropped, repeated, moved, or type-confused / emptied at a random position of its JSON tree; in two runs of three
// the hashes are then recomputed so that the damage is met by the import itself and not by the hash check.
func mutateStream(r *RNG, stream string) string {
	var lines []string
	for _, l := range strings.Split(stream, "\n") {
		if strings.TrimSpace(l) != "" {
			lines = append(lines, l)
		}
	}
	if len(lines) == 0 {
		return stream
	}
	for i, n := 0, 1+r.Intn(2); i < n && len(lines) > 0; i++ {
		k := r.Intn(len(lines))
		switch r.Intn(10) {
		case 0:
			lines = append(lines[:k], lines[k+1:]...)
		case 1:
			lines = append(lines[:k+1], append([]string{lines[k]}, lines[k+1:]...)...)
		case 2:
			j := r.Intn(len(lines))
			lines[k], lines[j] = lines[j], lines[k]
		default:
			lines[k] = mutateBody(r, lines[k])
		}
	}
	out := strings.Join(lines, "\n") + "\n"
	if r.Chance(0.66) {
		out = rehashExport(out)
	}
	return out
}

func init() {
	// C38, third profile: the body of POST /logs/import is client input too. A valid export of a ledger with
	// transactions, reverts and metadata writes is damaged line by line and imported into an empty ledger.
	// Oracle: 204 or a well-formed 4xx; never a 5xx, a recovered panic or a dead process. (Import commits log by
	// log by design, so what a refused import leaves behind is not judged here - C11 / C12 / C16 judge the copy.)
	register(Profile{Property: "C38", Name: "import-streams", Gen: func(r *RNG, seed uint64, tier string) (*Scenario, *ExploreCfg) {
		sc := &Scenario{Property: "C38", Profile: "import-streams", Knobs: randomKnobs(r), Checks: []string{"no-5xx-without-fault", "no-leaked-locks"}, Params: map[string]string{"lenient_reads": "1"}}
		g := &gen{r: r, sc: sc}
		feats := ledgerFeatures(sc.Knobs)
		sc.Setup = []Op{{ID: g.id("s"), Kind: KCreateLedger, Ledger: "src", Feats: feats}}
		sc.Setup = append(sc.Setup, g.historyOps("src", 3+r.Intn(6), r.Chance(0.25))...)
		sc.Setup = append(sc.Setup, Op{ID: g.id("s"), Kind: KExport, Ledger: "src"})
		nc := 1 + r.Intn(2)
		for c := 0; c < nc; c++ {
			dst := fmt.Sprintf("d%d", c)
			sc.Setup = append(sc.Setup, Op{ID: g.id("s"), Kind: KCreateLedger, Ledger: dst, Feats: feats})
			sc.Clients = append(sc.Clients, []Op{{ID: fmt.Sprintf("c%d.0", c), Kind: KImport, Ledger: dst, From: "src", ImportMutate: 1 + r.Uint64()>>1, Chunked: Pick(r, []int{64, 4096, 1 << 20})}})
		}
		return sc, defaultExplore(seed, 0, 0)
	}})
}
