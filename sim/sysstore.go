package sim

// Simulated storage driver (controller/system.Driver) and system store over simpg.

import (
	"context"
	"database/sql"
	"fmt"
	"sort"
	gotime "time"

	"github.com/formancehq/go-libs/v5/pkg/storage/bun/paginate"
	"github.com/formancehq/go-libs/v5/pkg/storage/postgres"
	"github.com/formancehq/go-libs/v5/pkg/types/metadata"
	"github.com/formancehq/go-libs/v5/pkg/types/time"

	ledger "github.com/formancehq/ledger/internal"
	ledgercontroller "github.com/formancehq/ledger/internal/controller/ledger"
	systemcontroller "github.com/formancehq/ledger/internal/controller/system"
	"github.com/formancehq/ledger/internal/storage/common"
	systemstore "github.com/formancehq/ledger/internal/storage/system"
)

type SimDriver struct {
	inc *Incarnation
}

var _ systemcontroller.Driver = (*SimDriver)(nil)

func ledgerFromRow(r *LedgerRow) *ledger.Ledger {
	return &ledger.Ledger{
		Configuration: ledger.Configuration{Bucket: r.Bucket, Metadata: copyMeta(r.Metadata), Features: copyMeta(r.Features)},
		ID:            r.ID,
		Name:          r.Name,
		AddedAt:       time.New(r.AddedAt),
		State:         r.State,
	}
}

// sysCall runs fn as an autocommit statement on a pooled connection of the incarnation.
func (inc *Incarnation) sysCall(ctx context.Context, op, note string, kinds []FaultKind, fn func(sess *Session) error) error {
	w := inc.w
	if f := w.Yield(ctx, op, note, kinds...); f != nil {
		switch f.Kind {
		case FShutdown:
			return errShutdown
		case FStmtErr, FStorageErr, FConnLost:
			return postgres.ResolveError(pgErr("53100", "system store failure (injected)", ""))
		}
	}
	task := taskKeyOf(ctx)
	id := w.registerCall(func(ctx context.Context, c *conn) error {
		return w.runStmt(ctx, c, func() error {
			return c.sess.stmt(task, func() error { return fn(c.sess) })
		})
	})
	_, err := inc.bunDB.ExecContext(ctx, fmt.Sprintf("SIMCALL %d", id))
	w.takeCall(id)
	return postgres.ResolveError(err)
}

func (d *SimDriver) OpenLedger(ctx context.Context, name string) (ledgercontroller.Store, *ledger.Ledger, error) {
	if d.inc.realDriver != nil {
		st, l, err := d.inc.realDriver.OpenLedger(ctx, name)
		if err != nil {
			return nil, nil, err
		}
		return &SimStore{DefaultStoreAdapter: systemcontroller.NewDefaultStoreAdapter(st), w: d.inc.w, l: *l}, l, nil
	}
	var l *ledger.Ledger
	err := d.inc.sysCall(ctx, "OpenLedger", name, []FaultKind{FCrash}, func(sess *Session) error {
		row, _ := sess.get(rowKey{"ledger", "", name}).(*LedgerRow)
		if row == nil {
			return sql.ErrNoRows
		}
		l = ledgerFromRow(row)
		return nil
	})
	if err != nil {
		return nil, nil, err
	}
	return NewSimStore(d.inc.w, d.inc.bunDB, *l), l, nil
}

func (d *SimDriver) CreateLedger(ctx context.Context, l *ledger.Ledger) error {
	if d.inc.realDriver != nil {
		_, err := d.inc.realDriver.CreateLedger(ctx, l)
		return err
	}
	return d.inc.sysCall(ctx, "CreateLedger", l.Name, []FaultKind{FCrash}, func(sess *Session) error {
		k := rowKey{"ledger", "", l.Name}
		if err := sess.lockRow(k); err != nil {
			return err
		}
		if sess.get(k) != nil {
			return systemstore.ErrLedgerAlreadyExists
		}
		id := int(sess.db.nextvalLocked("_system.ledgers_id"))
		now := sess.db.nowLocked()
		sess.put(k, &LedgerRow{ID: id, Name: l.Name, Bucket: l.Bucket, Features: copyMeta(l.Features),
			Metadata: copyMeta(l.Metadata), State: l.State, AddedAt: now})
		l.ID = id
		l.AddedAt = time.New(now)
		// per-ledger sequences (bucket.AddLedger)
		sess.db.seqs[seqName(*l, "transaction_id")] = 0
		sess.db.seqs[seqName(*l, "log_id")] = 0
		return nil
	})
}

func (d *SimDriver) GetSystemStore() systemcontroller.Store { return &simSystemStore{d.inc} }

type simSystemStore struct{ inc *Incarnation }

func (s *simSystemStore) GetLedger(ctx context.Context, name string) (*ledger.Ledger, error) {
	var l *ledger.Ledger
	err := s.inc.sysCall(ctx, "GetLedger", name, nil, func(sess *Session) error {
		row, _ := sess.get(rowKey{"ledger", "", name}).(*LedgerRow)
		if row == nil {
			return sql.ErrNoRows
		}
		l = ledgerFromRow(row)
		return nil
	})
	return l, err
}

type ledgersResource struct{ inc *Incarnation }

func (r ledgersResource) all(ctx context.Context) ([]ledger.Ledger, error) {
	var out []ledger.Ledger
	err := r.inc.sysCall(ctx, "ListLedgers", "", nil, func(sess *Session) error {
		out = nil
		for _, k := range sess.scan("ledger", "") {
			out = append(out, *ledgerFromRow(sess.get(k).(*LedgerRow)))
		}
		sort.Slice(out, func(i, j int) bool { return out[i].ID < out[j].ID })
		return nil
	})
	return out, err
}

func (r ledgersResource) GetOne(ctx context.Context, q common.ResourceQuery[systemstore.ListLedgersQueryPayload]) (*ledger.Ledger, error) {
	all, err := r.all(ctx)
	if err != nil || len(all) == 0 {
		return nil, postgres.ErrNotFound
	}
	return &all[0], nil
}
func (r ledgersResource) Count(ctx context.Context, q common.ResourceQuery[systemstore.ListLedgersQueryPayload]) (int, error) {
	all, err := r.all(ctx)
	return len(all), err
}
func (r ledgersResource) Paginate(ctx context.Context, q common.PaginatedQuery[systemstore.ListLedgersQueryPayload]) (*paginate.Cursor[ledger.Ledger], error) {
	all, err := r.all(ctx)
	if err != nil {
		return nil, err
	}
	return &paginate.Cursor[ledger.Ledger]{PageSize: len(all), Data: all}, nil
}

func (s *simSystemStore) Ledgers() common.PaginatedResource[ledger.Ledger, systemstore.ListLedgersQueryPayload] {
	return ledgersResource{s.inc}
}

func (s *simSystemStore) UpdateLedgerMetadata(ctx context.Context, name string, m metadata.Metadata) error {
	return s.inc.sysCall(ctx, "UpdateLedgerMetadata", name, nil, func(sess *Session) error {
		k := rowKey{"ledger", "", name}
		if err := sess.lockRow(k); err != nil {
			return err
		}
		row, _ := sess.get(k).(*LedgerRow)
		if row == nil {
			return nil
		}
		cp := *row
		cp.Metadata = copyMeta(row.Metadata)
		for kk, v := range m {
			cp.Metadata[kk] = v
		}
		sess.put(k, &cp)
		return nil
	})
}

func (s *simSystemStore) DeleteLedgerMetadata(ctx context.Context, name string, key string) error {
	return s.inc.sysCall(ctx, "DeleteLedgerMetadata", name, nil, func(sess *Session) error {
		k := rowKey{"ledger", "", name}
		if err := sess.lockRow(k); err != nil {
			return err
		}
		row, _ := sess.get(k).(*LedgerRow)
		if row == nil {
			return nil
		}
		cp := *row
		cp.Metadata = copyMeta(row.Metadata)
		delete(cp.Metadata, key)
		sess.put(k, &cp)
		return nil
	})
}

func (s *simSystemStore) DeleteBucket(ctx context.Context, bucket string) error {
	return s.inc.w.harnessErr("simpg: DeleteBucket unsupported")
}
func (s *simSystemStore) RestoreBucket(ctx context.Context, bucket string) error {
	return s.inc.w.harnessErr("simpg: RestoreBucket unsupported")
}

var _ = gotime.Second
