package sim

// sqlmini: the two _system tables behind the replication storage seam (internal/storage/system/store.go:
// pipelines and exporters), declared from internal/storage/system/migrations.go ("add pipelines"), so that
// in half of the C33 runs the real systemstore.DefaultStore methods execute (StorePipelineState,
// UpdatePipeline, CreatePipeline, ListEnabledPipelines, ...): their SQL is interpreted over the same typed
// rows the replication oracles read.

import (
	"context"
	"math/big"

	ledger "github.com/formancehq/ledger/internal"
)

type sysSQLKeyT struct{}

var sysSQLKey sysSQLKeyT

// sysSQL marks a context whose statements go through the SQL interpreter even though the run's ledger
// stores are model-served, and which never yield inside the driver (the caller - the simulated replication
// storage - has already yielded where it must, and the Manager holds its mutex across these calls).
func sysSQL(ctx context.Context) context.Context {
	return context.WithValue(context.WithoutCancel(ctx), sysSQLKey, true)
}

func pipelinesTable() *tableDef {
	d := &tableDef{name: "pipelines", simTable: "pipeline", system: true}
	d.cols = []colDef{
		{name: "id", typ: ctText, notNull: true},
		{name: "ledger", typ: ctText},
		{name: "exporter_id", typ: ctText},
		{name: "created_at", typ: ctTimestamp},
		{name: "enabled", typ: ctBool},
		{name: "last_log_id", typ: ctNumeric},
		{name: "error", typ: ctText},
		{name: "version", typ: ctNumeric},
	}
	d.uniqs = []*uniqDef{
		pkUniq("pipelines_pkey", "id"),
		{name: "pipelines_ledger_exporter_id_idx", cols: []string{"ledger", "exporter_id"}, aux: func(d *tableDef, vals []Val, k rowKey) *rowKey {
			l, e := d.val(vals, "ledger"), d.val(vals, "exporter_id")
			if l == nil || e == nil {
				return nil
			}
			return &rowKey{"pipeline_le", "", strOf(l) + "\x00" + strOf(e)}
		}},
	}
	d.keyOf = func(vals []Val) (rowKey, error) { return pipelineKey(strOf(vals[0])), nil }
	d.toVals = func(k rowKey, row any) ([]Val, error) {
		p := row.(*ledger.Pipeline)
		var last Val
		if p.LastLogID != nil {
			last = new(big.Int).SetUint64(*p.LastLogID)
		}
		return []Val{p.ID, p.Ledger, p.ExporterID, timeVal(p.CreatedAt), p.Enabled, last, p.Error, pipelineVersions.get(k)}, nil
	}
	d.fromVals = func(k rowKey, vals []Val, _ any) (any, error) {
		p := &ledger.Pipeline{ID: strOf(d.val(vals, "id")), CreatedAt: timeOf(d.val(vals, "created_at")), Error: strOf(d.val(vals, "error"))}
		p.Ledger, p.ExporterID = strOf(d.val(vals, "ledger")), strOf(d.val(vals, "exporter_id"))
		p.Enabled, _ = d.val(vals, "enabled").(bool)
		if n, ok := d.val(vals, "last_log_id").(*big.Int); ok && n != nil {
			if !n.IsUint64() {
				return nil, &errUnrepresentable{"last_log_id " + n.String()}
			}
			v := n.Uint64()
			p.LastLogID = &v
		}
		return p, nil
	}
	return d
}

// the version column of _system.pipelines has no counterpart in ledger.Pipeline and nothing reads it
type versionStore struct{}

var pipelineVersions versionStore

func (versionStore) get(rowKey) Val { return nil }

func exportersTable() *tableDef {
	d := &tableDef{name: "exporters", simTable: "exporter", system: true}
	d.cols = []colDef{
		{name: "id", typ: ctText, notNull: true},
		{name: "driver", typ: ctText},
		{name: "config", typ: ctText},
		{name: "created_at", typ: ctTimestamp},
	}
	d.uniqs = []*uniqDef{pkUniq("exporters_pkey", "id")}
	d.keyOf = func(vals []Val) (rowKey, error) { return exporterKey(strOf(vals[0])), nil }
	d.toVals = func(k rowKey, row any) ([]Val, error) {
		e := row.(*ledger.Exporter)
		return []Val{e.ID, e.Driver, string(e.Config), timeVal(e.CreatedAt)}, nil
	}
	d.fromVals = func(k rowKey, vals []Val, _ any) (any, error) {
		e := &ledger.Exporter{ID: strOf(d.val(vals, "id")), CreatedAt: timeOf(d.val(vals, "created_at"))}
		e.Driver = strOf(d.val(vals, "driver"))
		if c, ok := d.val(vals, "config").(string); ok {
			e.Config = []byte(c)
		}
		return e, nil
	}
	// pipelines.exporter_id references exporters(id) on delete cascade
	d.afterDelete = func(x *sqlExec, d *tableDef, vals []Val) error {
		pd := tableDefs["pipelines"]
		for _, k := range x.scanTable(pd, "_system") {
			p := x.get(k).(*ledger.Pipeline)
			if p.ExporterID != strOf(vals[0]) {
				continue
			}
			pv, err := pd.toVals(k, p)
			if err != nil {
				return err
			}
			for _, u := range pd.uniqKeys(pv, k) {
				if u.aux != k {
					x.put(u.aux, tombstone{})
				}
			}
			x.put(k, tombstone{})
		}
		return nil
	}
	return d
}
