package sim

// Scenario generators (one family per property profile). Every random choice comes from the scenario
// PRNG stream of the run.

import (
	"fmt"
	"math/big"
	"strings"
)

var (
	users     = []string{"u:1", "u:2", "u:3"}
	assets    = []string{"USD", "EUR/2"}
	bigAmount = []string{"1", "7", "100", "9007199254740993", "9223372036854775809", "18446744073709551617", "1000000000000000000000000000000"}
	weird     = []string{`q"uote`, `back\slash`, `<b>&amp;`, "é漢字", "tab\there", "nl\nline", "nul\u0001ctl", "emoji😀"}
)

type gen struct {
	r    *RNG
	n    int
	sc   *Scenario
	txN  uint64 // number of transactions created by setup on l1 (ids are 1..txN)
	keys map[string]bool
	// delKeys: (transaction id, setup op id) pairs whose metadata key "d.k<setup op id>" exists and has not been
	// handed to a delete yet (bulk elements that must succeed)
	delKeys [][2]string
}

func (g *gen) id(prefix string) string {
	g.n++
	return fmt.Sprintf("%s%d", prefix, g.n)
}

func (g *gen) amount(small bool) string {
	if small || g.r.Chance(0.8) {
		return fmt.Sprint(1 + g.r.Intn(60))
	}
	return Pick(g.r, bigAmount)
}

func ledgerFeatures(k Knobs) map[string]string {
	f := map[string]string{}
	if k.HashLogs != "" && k.HashLogs != "SYNC" {
		f["HASH_LOGS"] = k.HashLogs
	}
	if len(f) == 0 {
		return nil
	}
	return f
}

func randomKnobs(r *RNG) Knobs {
	k := Knobs{
		NSCache:         Pick(r, []int{0, 1, 2, 1024}),
		Interpreter:     r.Chance(0.3),
		BulkParallelism: 1 + r.Intn(4),
		MaxRetry:        r.Intn(4),
		RetryDelayMs:    Pick(r, []int{1, 50, 1000}),
		BusListener:     r.Bool(),
		HashLogs:        Pick(r, []string{"SYNC", "SYNC", "DISABLED"}),
	}
	return k
}

// baseSetup creates ledger l1 and funds the users; returns the ops. Each funded user gets `funds` of
// each asset. It also creates nTx extra transactions (ids known) usable as revert / metadata targets.
func (g *gen) baseSetup(ledger string, funds string, extraTx int) []Op {
	ops := []Op{{ID: g.id("s"), Kind: KCreateLedger, Ledger: ledger, Feats: ledgerFeatures(g.sc.Knobs)}}
	if funds != "" {
		for _, a := range assets {
			var ps []PostingSpec
			for _, u := range users {
				ps = append(ps, PostingSpec{"world", u, funds, a})
			}
			ops = append(ops, Op{ID: g.id("s"), Kind: KPostings, Ledger: ledger, Postings: ps})
			g.txN++
		}
	}
	for i := 0; i < extraTx; i++ {
		u := Pick(g.r, users)
		v := Pick(g.r, users)
		op := Op{ID: g.id("s"), Kind: KPostings, Ledger: ledger, Postings: []PostingSpec{{"world", u, g.amount(true), "USD"}, {u, v, "1", "USD"}}}
		op.Metadata = map[string]string{"d.k" + op.ID: "x"}
		ops = append(ops, op)
		g.txN++
	}
	return ops
}

func (g *gen) postingsOp(ledger string, maxPostings int, allowWorld, allowBig bool) Op {
	n := 1 + g.r.Intn(maxPostings)
	var ps []PostingSpec
	for i := 0; i < n; i++ {
		src := Pick(g.r, users)
		if allowWorld && g.r.Chance(0.15) {
			src = "world"
		}
		dst := Pick(g.r, append(append([]string{}, users...), "bank"))
		if g.r.Chance(0.05) {
			dst = "world"
		}
		if g.r.Chance(0.05) {
			dst = src
		}
		amt := g.amount(!allowBig)
		if g.r.Chance(0.05) {
			amt = "0"
		}
		ps = append(ps, PostingSpec{src, dst, amt, Pick(g.r, assets)})
	}
	return Op{ID: g.id("o"), Kind: KPostings, Ledger: ledger, Postings: ps, Force: g.r.Chance(0.1)}
}

// scriptOp draws a script from the closed-form family.
func (g *gen) scriptOp(ledger string) Op {
	asset := Pick(g.r, assets)
	amt := fmt.Sprint(1 + g.r.Intn(80))
	src := Pick(g.r, append(append([]string{}, users...), "n:1"))
	dst := Pick(g.r, append(append([]string{}, users...), "bank"))
	for dst == src {
		dst = "bank"
	}
	sem := &ScriptSem{Asset: asset, Amount: amt, Dest: dst}
	var b strings.Builder
	useVars := g.r.Chance(0.3)
	var vars map[string]any
	srcExpr := "@" + src
	if useVars {
		vars = map[string]any{"src": src}
		b.WriteString("vars {\n  account $src\n}\n")
		srcExpr = "$src"
	}
	switch g.r.Intn(6) {
	case 0, 1: // plain bounded by balance
		sem.Sources = []SourceSem{{Account: src}}
		fmt.Fprintf(&b, "send [%s %s] (\n  source = %s\n  destination = @%s\n)\n", asset, amt, srcExpr, dst)
	case 2: // bounded overdraft
		od := fmt.Sprint(1 + g.r.Intn(40))
		sem.Sources = []SourceSem{{Account: src, Overdraft: od}}
		fmt.Fprintf(&b, "send [%s %s] (\n  source = %s allowing overdraft up to [%s %s]\n  destination = @%s\n)\n", asset, amt, srcExpr, asset, od, dst)
	case 3: // unbounded overdraft
		sem.Sources = []SourceSem{{Account: src, Overdraft: "unbounded"}}
		fmt.Fprintf(&b, "send [%s %s] (\n  source = %s allowing unbounded overdraft\n  destination = @%s\n)\n", asset, amt, srcExpr, dst)
	case 4: // two ordered sources
		src2 := Pick(g.r, users)
		for src2 == src {
			src2 = Pick(g.r, users)
		}
		sem.Sources = []SourceSem{{Account: src}, {Account: src2}}
		fmt.Fprintf(&b, "send [%s %s] (\n  source = {\n    %s\n    @%s\n  }\n  destination = @%s\n)\n", asset, amt, srcExpr, src2, dst)
	case 5: // send all
		sem.Sources = []SourceSem{{Account: src}}
		sem.Amount = "*"
		fmt.Fprintf(&b, "send [%s *] (\n  source = %s\n  destination = @%s\n)\n", asset, srcExpr, dst)
	}
	op := Op{ID: g.id("o"), Kind: KScript, Ledger: ledger, Script: b.String(), Vars: vars, Sem: sem}
	if g.r.Chance(0.3) {
		op.Runtime = Pick(g.r, []string{"machine", "experimental-interpreter"})
	}
	return op
}

func (g *gen) revertOp(ledger string, id uint64) Op {
	return Op{ID: g.id("o"), Kind: KRevert, Ledger: ledger, TxID: id, Force: g.r.Chance(0.3), AtEffectiveDate: g.r.Chance(0.3)}
}

func (g *gen) metaOp(ledger string) Op {
	switch g.r.Intn(4) {
	case 0:
		op := Op{ID: g.id("o"), Kind: KTxMetaSet, Ledger: ledger, TxID: 1 + uint64(g.r.Intn(int(g.txN)))}
		op.Metadata = map[string]string{"m." + op.ID: Pick(g.r, weird)}
		return op
	case 1:
		op := Op{ID: g.id("o"), Kind: KAcctMetaSet, Ledger: ledger, Address: Pick(g.r, append(append([]string{}, users...), "fresh:"+fmt.Sprint(g.r.Intn(3))))}
		op.Metadata = map[string]string{"m." + op.ID: Pick(g.r, weird)}
		return op
	case 2:
		// delete a key that no transaction has (fails: not found) or a setup key
		op := Op{ID: g.id("o"), Kind: KTxMetaDel, Ledger: ledger, TxID: 1 + uint64(g.r.Intn(int(g.txN)))}
		op.Key = "d." + op.ID
		return op
	default:
		op := Op{ID: g.id("o"), Kind: KAcctMetaDel, Ledger: ledger, Address: Pick(g.r, users)}
		op.Key = "d." + op.ID
		return op
	}
}

// withSig makes the metadata-delete op target a key that exists (created by setup op sid on tx id).
func delSetupKey(g *gen, ledger string, txID uint64, setupID string) Op {
	op := Op{ID: g.id("o"), Kind: KTxMetaDel, Ledger: ledger, TxID: txID, Key: "d.k" + setupID, Sig: "k" + setupID}
	return op
}

func bigOf(s string) *big.Int {
	b, _ := new(big.Int).SetString(s, 10)
	return b
}

func defaultExplore(seed uint64, faultP float64, maxFaults int, kinds ...FaultKind) *ExploreCfg {
	return &ExploreCfg{Seed: seed, PreemptP: 0.35, FaultP: faultP, MaxFaults: maxFaults, Kinds: kinds, BiasP: faultP}
}
