package sim

// C21 (scope: the listings whose SQL the interpreter executes - transactions and logs by id through the real
// column paginator, accounts by address through the real offset paginator): a client follows the next
// cursors of a listing from the first page to the end, then the previous cursors back, while other clients
// append transactions to the same ledger. The pages are produced by the real API handlers, the real resource
// repository and the real paginators (cursor encoding, bottom / reverse logic, hasMore); only the execution of
// their ORDER BY / LIMIT / OFFSET / `id <= ?` SQL is the interpreter's.
//
// The oracle compares the concatenation of the pages with the committed rows of the ledger:
//   every-entity-exactly-once   no entity twice in the forward walk; when the walk reached the end, every entity
//                               committed before the first page was requested is in it; nothing listed that the
//                               ledger does not hold
//   in-the-requested-order      strictly monotone in the requested order across page boundaries
//   pages-are-full              every page but the last has pageSize items; hasMore iff there is a next cursor
//   previous-returns-the-page-before
//                               following previous from page i gives the entities that immediately precede it:
//                               exactly page i-1, except for entities committed after the walk began (ids do not
//                               always become visible in id order - C16's known findings - so such an entity can
//                               appear inside a page already served; the account set is fixed)

import (
	"fmt"
	"math/big"
	"sort"
	"strings"
)

func init() {
	register(Profile{Property: "C21", Name: "cursor-walks", Gen: func(r *RNG, seed uint64, tier string) (*Scenario, *ExploreCfg) {
		sc := &Scenario{Property: "C21", Profile: "cursor-walks", Knobs: randomKnobs(r), Checks: []string{"pagination", "replay"},
			Params: map[string]string{"lenient_reads": "1", "force_real_sql": "1"}}
		g := &gen{r: r, sc: sc}
		ledgers := []string{"l1"}
		sc.Setup = []Op{{ID: g.id("s"), Kind: KCreateLedger, Ledger: "l1", Feats: ledgerFeatures(sc.Knobs)}}
		if r.Chance(0.5) {
			// a second ledger in the same bucket: the listings carry their ledger predicate
			ledgers = append(ledgers, "l2")
			sc.Setup = append(sc.Setup, Op{ID: g.id("s"), Kind: KCreateLedger, Ledger: "l2", Feats: ledgerFeatures(sc.Knobs)})
		}
		// every account that will ever exist is created here: the walks over accounts see a fixed set
		for _, l := range ledgers {
			n := r.Intn(9)
			for i := 0; i < n; i++ {
				sc.Setup = append(sc.Setup, Op{ID: g.id("s"), Kind: KPostings, Ledger: l, Postings: []PostingSpec{{"world", Pick(r, users), fmt.Sprint(1 + r.Intn(90)), Pick(r, assets)}}})
			}
			if r.Chance(0.3) {
				sc.Setup = append(sc.Setup, Op{ID: g.id("s"), Kind: KAcctMetaSet, Ledger: l, Address: "meta:only", Metadata: map[string]string{"k": "v"}})
			}
		}
		walk := func(id string) Op {
			res := Pick(r, []string{"transactions", "transactions", "logs", "logs", "accounts", "volumes"})
			ws := &WalkSpec{Resource: res, PageSize: 1 + r.Intn(4), Back: r.Chance(0.6)}
			switch res {
			case "accounts":
				ws.Sort = Pick(r, []string{"", "", "address:desc", "address:asc"})
				if r.Chance(0.4) {
					// a filtered listing: the filter travels inside the cursors from the second page on
					ws.Filter, ws.Keep = `{"$match":{"address":"u:"}}`, "u2"
				}
			case "volumes":
				ws.Sort = "" // by account, ascending (ties between the assets of an account: account, then asset)
				// (a filter on volumes by address pattern compiles to a lateral join the interpreter does not run)
			default:
				ws.Sort = Pick(r, []string{"", "", "id:asc", "id:desc"})
			}
			return Op{ID: id, Kind: KWalk, Ledger: Pick(r, ledgers), Walk: ws}
		}
		nw := 1 + r.Intn(2)
		for c := 0; c < nw; c++ {
			var ops []Op
			for i := 0; i < 1+r.Intn(3); i++ {
				ops = append(ops, walk(fmt.Sprintf("c%d.%d", c, i)))
			}
			sc.Clients = append(sc.Clients, ops)
		}
		// writers append transactions between accounts that already exist (world -> world keeps the set fixed
		// even on an empty ledger), and save transaction metadata
		for c := 0; c < r.Intn(3); c++ {
			var ops []Op
			for i := 0; i < 1+r.Intn(4); i++ {
				l := Pick(r, ledgers)
				op := Op{ID: fmt.Sprintf("w%d.%d", c, i), Kind: KPostings, Ledger: l, Postings: []PostingSpec{{"world", "world", fmt.Sprint(1 + r.Intn(9)), "USD"}}}
				if r.Chance(0.2) {
					op = Op{ID: op.ID, Kind: KTxMetaSet, Ledger: l, TxID: 1, Metadata: map[string]string{"m." + op.ID: "v"}}
				}
				ops = append(ops, op)
			}
			sc.Clients = append(sc.Clients, ops)
		}
		ex := defaultExplore(seed, 0, 0)
		ex.PreemptP = 0.5
		return sc, ex
	}})
}

// entityEvents: for a ledger and a resource, the key of every committed entity and the event of the commit
// that created it.
func (r *runner) entityEvents(ledgerName, resource string) map[string]uint64 {
	table := map[string]string{"transactions": "tx", "logs": "log", "accounts": "acct", "volumes": "vol"}[resource]
	out := map[string]uint64{}
	for _, rec := range r.w.db.CommitsSince(0) {
		for _, wr := range rec.Writes {
			if wr.Key.Table != table || wr.Key.Ledger != ledgerName || wr.Before != nil || wr.After == nil {
				continue
			}
			var k string
			switch row := wr.After.(type) {
			case *LogRow:
				k = fmt.Sprint(row.ID)
			case *AcctRow:
				k = row.Address
			case *VolRow:
				k = strings.Replace(wr.Key.Key, "\x00", "/", 1)
			default:
				k = strings.TrimLeft(wr.Key.Key, "0")
				if k == "" {
					k = "0"
				}
			}
			if _, dup := out[k]; !dup {
				out[k] = rec.Event
			}
		}
	}
	return out
}

func checkWalks(r *runner) []Violation {
	var vs []Violation
	prop := r.sc.Property
	for _, or := range r.results {
		if or.Op.Kind != KWalk || len(or.Pages) == 0 {
			continue
		}
		ws := or.Op.Walk
		what := fmt.Sprintf("%s walk of %s on %s (pageSize %d, sort %q)", or.Op.ID, ws.Resource, or.Op.Ledger, ws.PageSize, ws.Sort)
		if ws.Filter != "" {
			what += " filtered by " + ws.Filter
		}
		bad := false
		for i, pg := range or.Pages {
			if pg.Status != 200 {
				vs = append(vs, Violation{prop, "every-page-is-served", fmt.Sprintf("%s: page %d (%s) answered %d %s", what, i, pg.Dir, pg.Status, pg.Code)})
				bad = true
			}
		}
		if bad {
			continue
		}
		desc := ws.Resource != "accounts" && ws.Resource != "volumes"
		if strings.HasSuffix(ws.Sort, ":asc") {
			desc = false
		} else if strings.HasSuffix(ws.Sort, ":desc") {
			desc = true
		}
		less := func(a, b string) bool { // a strictly before b in the requested order
			var c int
			if ws.Resource == "accounts" || ws.Resource == "volumes" {
				c = strings.Compare(strings.Replace(a, "/", "\x00", 1), strings.Replace(b, "/", "\x00", 1))
			} else {
				x, _ := new(big.Int).SetString(a, 10)
				y, _ := new(big.Int).SetString(b, 10)
				if x == nil || y == nil {
					return false
				}
				c = x.Cmp(y)
			}
			if desc {
				return c > 0
			}
			return c < 0
		}
		var fwd, back []WalkPage
		for _, pg := range or.Pages {
			if pg.Dir == "prev" {
				back = append(back, pg)
			} else {
				fwd = append(fwd, pg)
			}
		}
		created := r.entityEvents(or.Op.Ledger, ws.Resource)
		if ws.Keep == "u2" {
			for id := range created {
				account, _, _ := strings.Cut(id, "/")
				segs := strings.Split(account, ":")
				if len(segs) != 2 || segs[0] != "u" || segs[1] == "" {
					delete(created, id)
				}
			}
		}
		// pages-are-full
		for i, pg := range fwd {
			if (pg.Next != "") != pg.HasMore {
				vs = append(vs, Violation{prop, "pages-are-full", fmt.Sprintf("%s: page %d has hasMore=%v and next cursor %q", what, i, pg.HasMore, pg.Next)})
			}
			if i < len(fwd)-1 && len(pg.IDs) != ws.PageSize {
				vs = append(vs, Violation{prop, "pages-are-full", fmt.Sprintf("%s: page %d has %d items %v although a next page follows", what, i, len(pg.IDs), pg.IDs)})
			}
			if len(pg.IDs) > ws.PageSize {
				vs = append(vs, Violation{prop, "pages-are-full", fmt.Sprintf("%s: page %d has %d items %v", what, i, len(pg.IDs), pg.IDs)})
			}
		}
		// exactly once, in order, nothing foreign
		seen := map[string]int{}
		var all []string
		for i, pg := range fwd {
			for _, id := range pg.IDs {
				if j, dup := seen[id]; dup {
					vs = append(vs, Violation{prop, "every-entity-exactly-once", fmt.Sprintf("%s: %s is on page %d and again on page %d; pages %v", what, id, j, i, pagesOf(fwd))})
				}
				seen[id] = i
				if ev, ok := created[id]; !ok || ev > pg.Return {
					vs = append(vs, Violation{prop, "every-entity-exactly-once", fmt.Sprintf("%s: page %d lists %s, which the ledger does not hold (its %s are %v)", what, i, id, ws.Resource, sortedKeys(created))})
				}
				if len(all) > 0 && !less(all[len(all)-1], id) {
					vs = append(vs, Violation{prop, "in-the-requested-order", fmt.Sprintf("%s: %s follows %s; pages %v", what, id, all[len(all)-1], pagesOf(fwd))})
				}
				all = append(all, id)
			}
		}
		last := fwd[len(fwd)-1]
		if last.Next == "" {
			var missing []string
			for id, ev := range created {
				if ev < fwd[0].Invoke {
					if _, ok := seen[id]; !ok {
						missing = append(missing, id)
					}
				}
			}
			sort.Strings(missing)
			if len(missing) > 0 {
				vs = append(vs, Violation{prop, "every-entity-exactly-once", fmt.Sprintf("%s: the walk reached the end without %v, committed before its first page was requested; pages %v", what, missing, pagesOf(fwd))})
			}
		}
		// previous-returns-the-page-before. Ids do not always become visible in id order (C16's known findings: a
		// log or transaction with a smaller id can commit after one with a larger id), so an entity committed after
		// the walk began may appear INSIDE the range already served and shift every backward page. The backward
		// walk is therefore judged as a whole against the entities that existed when the walk began, and page for
		// page only when no such late entity is involved.
		if len(back) > 0 && len(last.IDs) > 0 {
			first := last.IDs[0]
			var oldBefore []string
			for id, ev := range created {
				if ev < fwd[0].Invoke && less(id, first) {
					oldBefore = append(oldBefore, id)
				}
			}
			sort.Slice(oldBefore, func(a, b int) bool { return less(oldBefore[a], oldBefore[b]) })
			var bcat, bOld []string
			late := 0
			for j := len(back) - 1; j >= 0; j-- {
				bcat = append(bcat, back[j].IDs...)
			}
			okOrder := true
			for k, id := range bcat {
				if ev, ok := created[id]; !ok {
					vs = append(vs, Violation{prop, "previous-returns-the-page-before", fmt.Sprintf("%s: a backward page lists %s, which the ledger does not hold", what, id)})
				} else if ev >= fwd[0].Invoke {
					late++
				} else {
					bOld = append(bOld, id)
				}
				if !less(id, first) || (k > 0 && !less(bcat[k-1], id)) {
					okOrder = false
				}
			}
			ended := back[len(back)-1].Previous == ""
			wantOld := oldBefore
			if !ended && len(wantOld) > len(bOld) {
				wantOld = wantOld[len(wantOld)-len(bOld):]
			}
			switch {
			case !okOrder:
				vs = append(vs, Violation{prop, "previous-returns-the-page-before", fmt.Sprintf("%s: walking back from the page starting at %s gives pages %v: not in the requested order before it", what, first, pagesOf(back))})
			case strings.Join(bOld, ",") != strings.Join(wantOld, ","):
				vs = append(vs, Violation{prop, "previous-returns-the-page-before", fmt.Sprintf("%s: walking back from the page starting at %s gives pages %v (backward, as fetched); the entities that existed when the walk began and precede it are %v; forward pages were %v", what, first, pagesOf(back), oldBefore, pagesOf(fwd))})
			default:
				for j, pg := range back {
					if j < len(back)-1 && len(pg.IDs) != ws.PageSize {
						vs = append(vs, Violation{prop, "previous-returns-the-page-before", fmt.Sprintf("%s: backward page %d has %d items %v although a page before it follows", what, j, len(pg.IDs), pg.IDs)})
					}
				}
				if late == 0 {
					for j, pg := range back {
						want := len(fwd) - 2 - j
						if want < 0 {
							break
						}
						if noLate(fwd[want].IDs, created, fwd[0].Invoke) && strings.Join(pg.IDs, ",") != strings.Join(fwd[want].IDs, ",") {
							vs = append(vs, Violation{prop, "previous-returns-the-page-before", fmt.Sprintf("%s: following previous from page %d gives %v; page %d was %v", what, want+1, pg.IDs, want, fwd[want].IDs)})
							break
						}
					}
				}
			}
		}
		if ws.Back && last.Next == "" && len(fwd) > 1 && len(back) == 0 {
			vs = append(vs, Violation{prop, "previous-returns-the-page-before", fmt.Sprintf("%s: %d pages forward, but the last page has no previous cursor", what, len(fwd))})
		}
	}
	return vs
}

func noLate(ids []string, created map[string]uint64, since uint64) bool {
	for _, id := range ids {
		if ev, ok := created[id]; !ok || ev >= since {
			return false
		}
	}
	return true
}

func pagesOf(ps []WalkPage) [][]string {
	var out [][]string
	for _, p := range ps {
		out = append(out, p.IDs)
	}
	return out
}
