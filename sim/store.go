package sim

// SimStore: the ledgercontroller.Store handed to the real controller stack. Transaction control
// (BeginTX / Commit / Rollback / LockLedger) is the REAL storage code (storage/ledger/store.go through
// controller/system/adapters.go) running over the sim database/sql driver; every data method is served by
// simpg on the session of the handle the real code holds (bound through SIMCALL).

import (
	"context"
	"database/sql"
	"encoding/json"
	"errors"
	"fmt"
	"math/big"
	"sort"
	"strconv"
	"strings"
	gotime "time"

	"github.com/uptrace/bun"

	"github.com/formancehq/go-libs/v5/pkg/storage/bun/paginate"
	"github.com/formancehq/go-libs/v5/pkg/storage/migrations"
	"github.com/formancehq/go-libs/v5/pkg/storage/postgres"
	"github.com/formancehq/go-libs/v5/pkg/types/metadata"
	"github.com/formancehq/go-libs/v5/pkg/types/pointer"
	"github.com/formancehq/go-libs/v5/pkg/types/time"

	ledger "github.com/formancehq/ledger/internal"
	ledgercontroller "github.com/formancehq/ledger/internal/controller/ledger"
	systemcontroller "github.com/formancehq/ledger/internal/controller/system"
	"github.com/formancehq/ledger/internal/storage/common"
	ledgerstore "github.com/formancehq/ledger/internal/storage/ledger"
	"github.com/formancehq/ledger/pkg/features"
)

// ---- row types (values stored in simpg are immutable: always copied in and out) ----

type LedgerRow struct {
	ID       int
	Name     string
	Bucket   string
	Features map[string]string
	Metadata map[string]string
	State    string
	AddedAt  gotime.Time
}

type LogRow struct {
	ID            uint64
	Type          ledger.LogType
	DataJSON      []byte
	Date          time.Time
	IK            string
	IKHash        string
	Hash          []byte
	SchemaVersion string
	Memento       []byte // only kept when the row was written through the SQL interpreter
}

type AcctRow struct {
	Address       string
	Metadata      map[string]string
	FirstUsage    time.Time
	InsertionDate time.Time
	UpdatedAt     time.Time
}

type VolRow struct {
	Input  *big.Int
	Output *big.Int
}

func idKey(id uint64) string { return fmt.Sprintf("%020d", id) }

func copyMeta(m map[string]string) map[string]string {
	out := make(map[string]string, len(m))
	for k, v := range m {
		out[k] = v
	}
	return out
}

func copyTx(t *ledger.Transaction) *ledger.Transaction {
	cp := *t
	cp.Postings = make(ledger.Postings, len(t.Postings))
	for i, p := range t.Postings {
		cp.Postings[i] = p
		if p.Amount != nil {
			cp.Postings[i].Amount = new(big.Int).Set(p.Amount)
		}
	}
	cp.Metadata = copyMeta(t.Metadata)
	if t.ID != nil {
		cp.ID = pointer.For(*t.ID)
	}
	if t.RevertedAt != nil {
		cp.RevertedAt = pointer.For(*t.RevertedAt)
	}
	if t.PostCommitVolumes != nil {
		cp.PostCommitVolumes = t.PostCommitVolumes.Copy()
	}
	if t.PostCommitEffectiveVolumes != nil {
		cp.PostCommitEffectiveVolumes = t.PostCommitEffectiveVolumes.Copy()
	}
	return &cp
}

func (s *Session) findLedgerByID(id int) (rowKey, *LedgerRow) {
	for _, k := range s.scan("ledger", "") {
		if r, ok := s.get(k).(*LedgerRow); ok && r.ID == id {
			return k, r
		}
	}
	return rowKey{}, nil
}

// ---- the store ----

type SimStore struct {
	*systemcontroller.DefaultStoreAdapter
	w *World
	l ledger.Ledger
}

var _ ledgercontroller.Store = (*SimStore)(nil)

func NewSimStore(w *World, db bun.IDB, l ledger.Ledger) *SimStore {
	return &SimStore{
		DefaultStoreAdapter: systemcontroller.NewDefaultStoreAdapter(ledgerstore.New(db, nil, l)),
		w:                   w,
		l:                   l,
	}
}

// lctx marks a context with the ledger this store serves: the interpreter audits every row a statement of
// the real storage layer returns, locks or changes on its behalf (sqlmini_exec.go:auditRows).
func (s *SimStore) lctx(ctx context.Context) context.Context {
	return context.WithValue(ctx, stmtLedgerKey, s.l.Name)
}

func (s *SimStore) wrap(st ledgercontroller.Store) *SimStore {
	return &SimStore{DefaultStoreAdapter: st.(*systemcontroller.DefaultStoreAdapter), w: s.w, l: s.l}
}

var errShutdown = errors.New("sim: run is over")

var stmtKinds = []FaultKind{FStmtErr, FConnLost, FDisconnect, FCrash, FClockJump}
var lockStmtKinds = []FaultKind{FStmtErr, FConnLost, FDeadlock, FDisconnect, FCrash, FClockJump}

// onSession runs fn on the simpg session behind the handle the real code holds.
func (s *SimStore) onSession(ctx context.Context, fn func(ctx context.Context, c *conn) error) error {
	id := s.w.registerCall(fn)
	_, err := s.GetDB().ExecContext(ctx, fmt.Sprintf("SIMCALL %d", id))
	s.w.takeCall(id)
	return err
}

// call is one data statement: a yield point (where a fault may strike), then the statement on the
// handle's session, waiting for locks as needed.
func (s *SimStore) call(ctx context.Context, op, note string, kinds []FaultKind, fn func(sess *Session) error) error {
	if f := s.w.Yield(ctx, op, note, kinds...); f != nil {
		switch f.Kind {
		case FShutdown:
			return errShutdown
		case FStmtErr:
			_ = s.onSession(ctx, func(_ context.Context, c *conn) error { c.sess.failStmt(); return nil })
			return postgres.ResolveError(pgErr("53100", "could not extend file: No space left on device (injected)", ""))
		case FConnLost:
			_ = s.onSession(ctx, func(_ context.Context, c *conn) error { c.sess.Kill(); return nil })
			return errConnLost
		case FDeadlock:
			_ = s.onSession(ctx, func(_ context.Context, c *conn) error { c.sess.failStmt(); return nil })
			return postgres.ResolveError(pgErr("40P01", "deadlock detected (injected)", ""))
		case FSerialization:
			_ = s.onSession(ctx, func(_ context.Context, c *conn) error { c.sess.failStmt(); return nil })
			return postgres.ResolveError(pgErr("40001", "could not serialize access (injected)", ""))
		}
	}
	task := taskKeyOf(ctx)
	err := s.onSession(ctx, func(ctx context.Context, c *conn) error {
		return s.w.runStmt(ctx, c, func() error {
			return c.sess.stmt(task, func() error { return fn(c.sess) })
		})
	})
	return postgres.ResolveError(err)
}

// ---- transaction control: real code, wrapped with yield points ----

func (s *SimStore) BeginTX(ctx context.Context, opts *sql.TxOptions) (ledgercontroller.Store, *bun.Tx, error) {
	kinds := []FaultKind{FDisconnect, FCrash}
	if _, top := s.GetDB().(*bun.DB); top {
		kinds = append(kinds, FTooMany, FConnLost)
	}
	if f := s.w.Yield(ctx, "BeginTX", "", kinds...); f != nil {
		switch f.Kind {
		case FShutdown:
			return nil, nil, errShutdown
		case FTooMany:
			return nil, nil, postgres.ResolveError(pgErr("53300", "sorry, too many clients already (injected)", ""))
		case FConnLost:
			return nil, nil, errConnLost
		}
	}
	st, tx, err := s.DefaultStoreAdapter.BeginTX(s.lctx(ctx), opts)
	if err != nil {
		return nil, nil, err
	}
	return s.wrap(st), tx, nil
}

func (s *SimStore) Commit(ctx context.Context) error {
	if f := s.w.Yield(ctx, "Commit", "", FCommitClean, FCommitAmbiguous, FCrash); f != nil {
		switch f.Kind {
		case FShutdown:
			return errShutdown
		case FCommitClean, FCommitAmbiguous:
			k := f.Kind
			_ = s.onSession(ctx, func(_ context.Context, c *conn) error { c.commitFault = k; return nil })
		}
	}
	err := s.DefaultStoreAdapter.Commit(s.lctx(ctx))
	if err == nil {
		s.w.mu.Lock()
		s.w.lastCommitTask = taskKeyOf(ctx)
		s.w.mu.Unlock()
	}
	return err
}

func (s *SimStore) Rollback(ctx context.Context) error {
	if f := s.w.Yield(ctx, "Rollback", "", FCrash); f != nil && f.Kind == FShutdown {
		// still roll back so that database/sql releases its resources
		_ = s.DefaultStoreAdapter.Rollback(s.lctx(ctx))
		return errShutdown
	}
	return s.DefaultStoreAdapter.Rollback(s.lctx(ctx))
}

func (s *SimStore) LockLedger(ctx context.Context) (ledgercontroller.Store, bun.IDB, func() error, error) {
	kinds := []FaultKind{FDisconnect, FCrash, FStmtErr}
	if _, top := s.GetDB().(*bun.DB); top {
		kinds = append(kinds, FTooMany)
	}
	if f := s.w.Yield(ctx, "LockLedger", "", kinds...); f != nil {
		switch f.Kind {
		case FShutdown:
			return nil, nil, nil, errShutdown
		case FTooMany:
			return nil, nil, nil, postgres.ResolveError(pgErr("53300", "sorry, too many clients already (injected)", ""))
		case FStmtErr:
			_ = s.onSession(ctx, func(_ context.Context, c *conn) error { c.sess.failStmt(); return nil })
			return nil, nil, nil, pgErr("53100", "out of shared memory (injected)", "")
		}
	}
	st, db, release, err := s.DefaultStoreAdapter.LockLedger(s.lctx(ctx))
	if err != nil {
		return nil, nil, nil, err
	}
	s.w.probe("ledger_lock_taken")
	return s.wrap(st), db, func() error {
		if f := s.w.Yield(ctx, "UnlockLedger", ""); f != nil && f.Kind == FShutdown {
			_ = release()
			return errShutdown
		}
		return release()
	}, nil
}

func (s *SimStore) IsUpToDate(ctx context.Context) (bool, error) { return true, nil }

func (s *SimStore) GetMigrationsInfo(ctx context.Context) ([]migrations.Info, error) {
	return nil, nil
}

// ---- S3 GetBalances ----

func (s *SimStore) GetBalances(ctx context.Context, q ledgerstore.BalanceQuery) (ledger.Balances, error) {
	if s.w.realSQL {
		return s.DefaultStoreAdapter.GetBalances(s.lctx(ctx), q)
	}
	type pair struct{ account, asset string }
	var pairs []pair
	for account, assets := range q {
		for _, asset := range assets {
			pairs = append(pairs, pair{account, asset})
		}
	}
	sort.Slice(pairs, func(i, j int) bool {
		if pairs[i].account != pairs[j].account {
			return pairs[i].account < pairs[j].account
		}
		return pairs[i].asset < pairs[j].asset
	})
	note := make([]string, len(pairs))
	for i, p := range pairs {
		note[i] = p.account + "/" + p.asset
	}
	ret := ledger.Balances{}
	err := s.call(ctx, "GetBalances", strings.Join(note, ","), lockStmtKinds, func(sess *Session) error {
		for _, p := range pairs {
			if err := sess.lockRow(rowKey{"vol", s.l.Name, p.account + "\x00" + p.asset}); err != nil {
				return err
			}
		}
		for _, p := range pairs {
			k := rowKey{"vol", s.l.Name, p.account + "\x00" + p.asset}
			v, _ := sess.get(k).(*VolRow)
			if v == nil {
				v = &VolRow{Input: new(big.Int), Output: new(big.Int)}
				sess.put(k, v)
			}
			if ret[p.account] == nil {
				ret[p.account] = map[string]*big.Int{}
			}
			ret[p.account][p.asset] = new(big.Int).Sub(v.Input, v.Output)
		}
		return nil
	})
	if err != nil {
		return nil, err
	}
	return ret, nil
}

// ---- S4 CommitTransaction = UpdateVolumes ; InsertTransaction ; (InsertMoves) ----

func (s *SimStore) CommitTransaction(ctx context.Context, tx *ledger.Transaction) error {
	if s.w.realSQL {
		return s.DefaultStoreAdapter.CommitTransaction(s.lctx(ctx), tx)
	}
	updates := tx.VolumeUpdates() // the real Go function feeding the upsert
	pcv := ledger.PostCommitVolumes{}
	err := s.call(ctx, "UpdateVolumes", fmt.Sprintf("%d rows", len(updates)), lockStmtKinds, func(sess *Session) error {
		for _, u := range updates {
			if err := sess.lockRow(rowKey{"vol", s.l.Name, u.Account + "\x00" + u.Asset}); err != nil {
				return err
			}
		}
		for _, u := range updates {
			k := rowKey{"vol", s.l.Name, u.Account + "\x00" + u.Asset}
			old, _ := sess.get(k).(*VolRow)
			nv := &VolRow{Input: new(big.Int), Output: new(big.Int)}
			if old != nil {
				nv.Input.Set(old.Input)
				nv.Output.Set(old.Output)
			}
			nv.Input.Add(nv.Input, u.Input)
			nv.Output.Add(nv.Output, u.Output)
			sess.put(k, nv)
			if pcv[u.Account] == nil {
				pcv[u.Account] = map[string]ledger.Volumes{}
			}
			pcv[u.Account][u.Asset] = ledger.Volumes{Input: new(big.Int).Set(nv.Input), Output: new(big.Int).Set(nv.Output)}
		}
		return nil
	})
	if err != nil {
		return fmt.Errorf("failed to update balances: %w", err)
	}
	tx.PostCommitVolumes = pcv.Copy()

	var refConflict, idConflict bool
	var seqID uint64
	err = s.call(ctx, "InsertTransaction", txNote(tx), lockStmtKinds, func(sess *Session) error {
		refConflict, idConflict = false, false
		var refKey rowKey
		if tx.Reference != "" {
			refKey = rowKey{"tx_ref", s.l.Name, tx.Reference}
			if err := sess.lockRow(refKey); err != nil {
				return err
			}
		}
		var id uint64
		if tx.ID != nil {
			id = *tx.ID
		} else {
			// the sequence is consumed even if the statement later fails or waits again
			if seqID == 0 {
				seqID = uint64(sess.db.nextvalLocked(seqName(s.l, "transaction_id")))
			}
			id = seqID
		}
		k := rowKey{"tx", s.l.Name, idKey(id)}
		if err := sess.lockRow(k); err != nil {
			return err
		}
		if sess.get(k) != nil {
			idConflict = true
			return pgErr("23505", "duplicate key value violates unique constraint \"transactions_ledger\"", "transactions_ledger")
		}
		if tx.Reference != "" && sess.get(refKey) != nil {
			refConflict = true
			return pgErr("23505", "duplicate key value violates unique constraint \"transactions_reference\"", "transactions_reference")
		}
		now := time.New(sess.transactionDate())
		if tx.InsertedAt.IsZero() {
			tx.InsertedAt = now
		}
		if tx.Timestamp.IsZero() {
			tx.Timestamp = now
		}
		if tx.UpdatedAt.IsZero() {
			tx.UpdatedAt = tx.InsertedAt
		}
		tx.ID = pointer.For(id)
		if tx.Metadata == nil {
			tx.Metadata = metadata.Metadata{}
		}
		sess.put(k, copyTx(tx))
		if tx.Reference != "" {
			sess.put(refKey, idKey(id))
		}
		return nil
	})
	if err != nil {
		switch {
		case refConflict:
			return fmt.Errorf("failed to insert transaction: %w", ledgerstore.NewErrTransactionReferenceConflict(tx.Reference))
		case idConflict:
			var dup uint64
			if tx.ID != nil {
				dup = *tx.ID
			} else {
				dup = seqID
			}
			return fmt.Errorf("failed to insert transaction: %w", ledgerstore.NewErrConcurrentTransaction(dup))
		}
		return fmt.Errorf("failed to insert transaction: %w", err)
	}
	if s.l.HasFeature(features.FeatureMovesHistory, "ON") {
		// moves are not modelled (their content is SQL/trigger territory); the statement still exists as a
		// point where a fault can strike.
		if err := s.call(ctx, "InsertMoves", "", stmtKinds, func(sess *Session) error { return nil }); err != nil {
			return fmt.Errorf("failed to insert moves: %w", err)
		}
	}
	return nil
}

func txNote(tx *ledger.Transaction) string {
	b := &strings.Builder{}
	for _, p := range tx.Postings {
		fmt.Fprintf(b, "%s>%s %s %s;", p.Source, p.Destination, p.Amount, p.Asset)
	}
	if tx.Reference != "" {
		fmt.Fprintf(b, " ref=%s", tx.Reference)
	}
	return b.String()
}

func seqName(l ledger.Ledger, kind string) string {
	return fmt.Sprintf(`"%s"."%s_%d"`, l.Bucket, kind, l.ID)
}

// ---- S5 RevertTransaction ----

func (s *SimStore) updateTx(ctx context.Context, op string, id uint64, mutate func(sess *Session, t *ledger.Transaction) bool) (*ledger.Transaction, bool, error) {
	var (
		out      *ledger.Transaction
		modified bool
	)
	err := s.call(ctx, op, strconv.FormatUint(id, 10), lockStmtKinds, func(sess *Session) error {
		out, modified = nil, false
		k := rowKey{"tx", s.l.Name, idKey(id)}
		if sess.get(k) == nil {
			return sql.ErrNoRows
		}
		if err := sess.lockRow(k); err != nil {
			return err
		}
		cur, _ := sess.get(k).(*ledger.Transaction)
		if cur == nil {
			return sql.ErrNoRows
		}
		cp := copyTx(cur)
		if mutate(sess, cp) {
			sess.put(k, cp)
			modified = true
			out = copyTx(cp)
		} else {
			out = copyTx(cur)
		}
		return nil
	})
	if err != nil {
		return nil, false, err
	}
	return out, modified, nil
}

func (s *SimStore) RevertTransaction(ctx context.Context, id uint64, at time.Time) (*ledger.Transaction, bool, error) {
	if s.w.realSQL {
		return s.DefaultStoreAdapter.RevertTransaction(s.lctx(ctx), id, at)
	}
	return s.updateTx(ctx, "RevertTransaction", id, func(sess *Session, t *ledger.Transaction) bool {
		if t.RevertedAt != nil {
			return false
		}
		when := at
		if when.IsZero() {
			when = time.New(sess.transactionDate())
		}
		t.RevertedAt = &when
		t.UpdatedAt = when
		return true
	})
}

func (s *SimStore) UpdateTransactionMetadata(ctx context.Context, id uint64, m metadata.Metadata, at time.Time) (*ledger.Transaction, bool, error) {
	if s.w.realSQL {
		return s.DefaultStoreAdapter.UpdateTransactionMetadata(s.lctx(ctx), id, m, at)
	}
	return s.updateTx(ctx, "UpdateTransactionMetadata", id, func(sess *Session, t *ledger.Transaction) bool {
		contains := true
		for k, v := range m {
			if cur, ok := t.Metadata[k]; !ok || cur != v {
				contains = false
			}
		}
		if contains {
			return false
		}
		for k, v := range m {
			t.Metadata[k] = v
		}
		when := at
		if when.IsZero() {
			when = time.New(sess.transactionDate())
		}
		t.UpdatedAt = when
		return true
	})
}

func (s *SimStore) DeleteTransactionMetadata(ctx context.Context, id uint64, key string, at time.Time) (*ledger.Transaction, bool, error) {
	if s.w.realSQL {
		return s.DefaultStoreAdapter.DeleteTransactionMetadata(s.lctx(ctx), id, key, at)
	}
	return s.updateTx(ctx, "DeleteTransactionMetadata", id, func(sess *Session, t *ledger.Transaction) bool {
		if _, ok := t.Metadata[key]; !ok {
			return false
		}
		delete(t.Metadata, key)
		when := at
		if when.IsZero() {
			when = time.New(sess.transactionDate())
		}
		t.UpdatedAt = when
		return true
	})
}

// ---- S6 accounts ----

func acctKey(l, address string) rowKey { return rowKey{"acct", l, address} }

func (s *SimStore) UpsertAccounts(ctx context.Context, accounts ...ledger.AccountWithDefaultMetadata) error {
	if s.w.realSQL {
		return s.DefaultStoreAdapter.UpsertAccounts(s.lctx(ctx), accounts...)
	}
	note := make([]string, len(accounts))
	for i, a := range accounts {
		note[i] = a.Address
	}
	idx := make([]int, len(accounts))
	for i := range idx {
		idx[i] = i
	}
	sort.Slice(idx, func(i, j int) bool { return accounts[idx[i]].Address < accounts[idx[j]].Address })
	err := s.call(ctx, "UpsertAccounts", strings.Join(note, ","), lockStmtKinds, func(sess *Session) error {
		for _, i := range idx {
			if err := sess.lockRow(acctKey(s.l.Name, accounts[i].Address)); err != nil {
				return err
			}
		}
		for _, a := range accounts {
			k := acctKey(s.l.Name, a.Address)
			cur, _ := sess.get(k).(*AcctRow)
			now := time.New(sess.transactionDate())
			if cur == nil {
				md := copyMeta(a.DefaultMetadata)
				for kk, v := range a.Metadata {
					md[kk] = v
				}
				row := &AcctRow{Address: a.Address, Metadata: md, FirstUsage: a.FirstUsage, InsertionDate: a.InsertionDate, UpdatedAt: a.UpdatedAt}
				if row.FirstUsage.IsZero() {
					row.FirstUsage = now
				}
				if row.InsertionDate.IsZero() {
					row.InsertionDate = now
				}
				if row.UpdatedAt.IsZero() {
					row.UpdatedAt = now
				}
				sess.put(k, row)
				a.Account.Metadata = copyMeta(row.Metadata)
				a.Account.FirstUsage, a.Account.InsertionDate, a.Account.UpdatedAt = row.FirstUsage, row.InsertionDate, row.UpdatedAt
				continue
			}
			contains := true
			for kk, v := range a.Metadata {
				if c, ok := cur.Metadata[kk]; !ok || c != v {
					contains = false
				}
			}
			earlier := !a.FirstUsage.IsZero() && a.FirstUsage.Before(cur.FirstUsage)
			if !earlier && contains {
				continue
			}
			row := &AcctRow{Address: cur.Address, Metadata: copyMeta(cur.Metadata), FirstUsage: cur.FirstUsage, InsertionDate: cur.InsertionDate, UpdatedAt: a.UpdatedAt}
			for kk, v := range a.Metadata {
				row.Metadata[kk] = v
			}
			if earlier {
				row.FirstUsage = a.FirstUsage
			}
			if row.UpdatedAt.IsZero() {
				row.UpdatedAt = now
			}
			sess.put(k, row)
			a.Account.Metadata = copyMeta(row.Metadata)
			a.Account.FirstUsage, a.Account.InsertionDate, a.Account.UpdatedAt = row.FirstUsage, row.InsertionDate, row.UpdatedAt
		}
		return nil
	})
	if err != nil {
		return fmt.Errorf("upserting accounts: %w", err)
	}
	return nil
}

func (s *SimStore) UpdateAccountsMetadata(ctx context.Context, m map[string]metadata.Metadata, at time.Time) error {
	if s.w.realSQL {
		return s.DefaultStoreAdapter.UpdateAccountsMetadata(s.lctx(ctx), m, at)
	}
	addrs := make([]string, 0, len(m))
	for a := range m {
		addrs = append(addrs, a)
	}
	sort.Strings(addrs)
	return s.call(ctx, "UpdateAccountsMetadata", strings.Join(addrs, ","), lockStmtKinds, func(sess *Session) error {
		for _, a := range addrs {
			if err := sess.lockRow(acctKey(s.l.Name, a)); err != nil {
				return err
			}
		}
		for _, a := range addrs {
			k := acctKey(s.l.Name, a)
			cur, _ := sess.get(k).(*AcctRow)
			when := at
			if when.IsZero() {
				when = time.New(sess.transactionDate())
			}
			if cur == nil {
				sess.put(k, &AcctRow{Address: a, Metadata: copyMeta(m[a]), FirstUsage: when, InsertionDate: when, UpdatedAt: when})
				continue
			}
			contains := true
			for kk, v := range m[a] {
				if c, ok := cur.Metadata[kk]; !ok || c != v {
					contains = false
				}
			}
			if contains {
				continue
			}
			row := &AcctRow{Address: a, Metadata: copyMeta(cur.Metadata), FirstUsage: cur.FirstUsage, InsertionDate: cur.InsertionDate, UpdatedAt: when}
			for kk, v := range m[a] {
				row.Metadata[kk] = v
			}
			if when.Before(cur.FirstUsage) {
				row.FirstUsage = when
			}
			sess.put(k, row)
		}
		return nil
	})
}

func (s *SimStore) DeleteAccountMetadata(ctx context.Context, address, key string) error {
	if s.w.realSQL {
		return s.DefaultStoreAdapter.DeleteAccountMetadata(s.lctx(ctx), address, key)
	}
	return s.call(ctx, "DeleteAccountMetadata", address+"#"+key, lockStmtKinds, func(sess *Session) error {
		k := acctKey(s.l.Name, address)
		if sess.get(k) == nil {
			return nil
		}
		if err := sess.lockRow(k); err != nil {
			return err
		}
		cur, _ := sess.get(k).(*AcctRow)
		if cur == nil {
			return nil
		}
		// (updated_at = transaction_date(), since the repair of F40)
		row := &AcctRow{Address: address, Metadata: copyMeta(cur.Metadata), FirstUsage: cur.FirstUsage, InsertionDate: cur.InsertionDate, UpdatedAt: time.New(sess.transactionDate())}
		delete(row.Metadata, key)
		sess.put(k, row)
		return nil
	})
}

// ---- schemas ----

func (s *SimStore) InsertSchema(ctx context.Context, schema *ledger.Schema) error {
	if s.w.realSQL {
		return s.DefaultStoreAdapter.InsertSchema(s.lctx(ctx), schema)
	}
	return s.call(ctx, "InsertSchema", schema.Version, lockStmtKinds, func(sess *Session) error {
		k := rowKey{"schema", s.l.Name, schema.Version}
		if err := sess.lockRow(k); err != nil {
			return err
		}
		if sess.get(k) != nil {
			return pgErr("23505", "duplicate key value violates unique constraint \"schemas_pkey\"", "schemas_pkey")
		}
		if schema.CreatedAt.IsZero() {
			schema.CreatedAt = time.New(sess.db.nowLocked())
		}
		// round trip through JSON like the jsonb columns do
		raw, err := json.Marshal(schema)
		if err != nil {
			return err
		}
		sess.put(k, raw)
		return nil
	})
}

func decodeSchema(raw []byte) (*ledger.Schema, error) {
	out := &ledger.Schema{}
	if err := json.Unmarshal(raw, out); err != nil {
		return nil, err
	}
	return out, nil
}

func (s *SimStore) FindSchema(ctx context.Context, version string) (*ledger.Schema, error) {
	if s.w.realSQL {
		return s.DefaultStoreAdapter.FindSchema(s.lctx(ctx), version)
	}
	var out *ledger.Schema
	err := s.call(ctx, "FindSchema", version, stmtKinds, func(sess *Session) error {
		raw, _ := sess.get(rowKey{"schema", s.l.Name, version}).([]byte)
		if raw == nil {
			return sql.ErrNoRows
		}
		var err error
		out, err = decodeSchema(raw)
		return err
	})
	if err != nil {
		return nil, err
	}
	return out, nil
}

func (s *SimStore) allSchemas(sess *Session) ([]*ledger.Schema, error) {
	var all []*ledger.Schema
	for _, k := range sess.scan("schema", s.l.Name) {
		sc, err := decodeSchema(sess.get(k).([]byte))
		if err != nil {
			return nil, err
		}
		all = append(all, sc)
	}
	sort.SliceStable(all, func(i, j int) bool { return all[i].CreatedAt.After(all[j].CreatedAt) })
	return all, nil
}

func (s *SimStore) FindLatestSchemaVersion(ctx context.Context) (*string, error) {
	if s.w.realSQL {
		return s.DefaultStoreAdapter.FindLatestSchemaVersion(s.lctx(ctx))
	}
	var out *string
	err := s.call(ctx, "FindLatestSchemaVersion", "", stmtKinds, func(sess *Session) error {
		out = nil
		all, err := s.allSchemas(sess)
		if err != nil {
			return err
		}
		if len(all) > 0 {
			out = pointer.For(all[0].Version)
		}
		return nil
	})
	if err != nil {
		return nil, err
	}
	return out, nil
}

func (s *SimStore) FindSchemas(ctx context.Context, q common.PaginatedQuery[any]) (*paginate.Cursor[ledger.Schema], error) {
	var out []ledger.Schema
	err := s.call(ctx, "FindSchemas", "", stmtKinds, func(sess *Session) error {
		out = nil
		all, err := s.allSchemas(sess)
		if err != nil {
			return err
		}
		for _, sc := range all {
			out = append(out, *sc)
		}
		return nil
	})
	if err != nil {
		return nil, err
	}
	return &paginate.Cursor[ledger.Schema]{PageSize: len(out), Data: out}, nil
}

// ---- S7 logs ----

func (s *SimStore) logFromRow(r *LogRow) (ledger.Log, error) {
	payload, err := ledger.HydrateLog(r.Type, r.DataJSON)
	if err != nil {
		return ledger.Log{}, fmt.Errorf("hydrating log data: %w", err)
	}
	return ledger.Log{
		Type: r.Type, Data: payload, Date: r.Date, IdempotencyKey: r.IK, IdempotencyHash: r.IKHash,
		ID: pointer.For(r.ID), Hash: append([]byte(nil), r.Hash...), SchemaVersion: r.SchemaVersion,
	}, nil
}

func (s *SimStore) lastLog(sess *Session) *LogRow {
	ks := sess.scan("log", s.l.Name)
	if len(ks) == 0 {
		return nil
	}
	return sess.get(ks[len(ks)-1]).(*LogRow)
}

func (s *SimStore) InsertLog(ctx context.Context, log *ledger.Log) error {
	if s.w.realSQL {
		return s.DefaultStoreAdapter.InsertLog(s.lctx(ctx), log)
	}
	hashed := s.l.HasFeature(features.FeatureHashLogs, "SYNC")
	if hashed {
		// real code: select pg_advisory_xact_lock(ledger id) as its own statement
		key := fmt.Sprintf("logs:%d", s.l.ID)
		if f := s.w.Yield(ctx, "LockLogs", "", lockStmtKinds...); f != nil {
			switch f.Kind {
			case FShutdown:
				return errShutdown
			case FStmtErr, FDeadlock:
				_ = s.onSession(ctx, func(_ context.Context, c *conn) error { c.sess.failStmt(); return nil })
				if f.Kind == FDeadlock {
					return postgres.ResolveError(pgErr("40P01", "deadlock detected (injected)", ""))
				}
				return postgres.ResolveError(pgErr("53100", "out of shared memory (injected)", ""))
			case FConnLost:
				_ = s.onSession(ctx, func(_ context.Context, c *conn) error { c.sess.Kill(); return nil })
				return errConnLost
			}
		}
		err := s.onSession(ctx, func(ctx context.Context, c *conn) error {
			return s.w.runStmt(ctx, c, func() error { return c.sess.advLockStmt(key, true) })
		})
		if err != nil {
			return postgres.ResolveError(err)
		}
	}
	payloadData, err := json.Marshal(log.Data)
	if err != nil {
		return fmt.Errorf("failed to marshal log data: %w", err)
	}
	ikConflict := false
	var seqID uint64
	err = s.call(ctx, "InsertLog", fmt.Sprintf("%s ik=%s", log.Type, log.IdempotencyKey), lockStmtKinds, func(sess *Session) error {
		ikConflict = false
		var ikKey rowKey
		if log.IdempotencyKey != "" {
			ikKey = rowKey{"log_ik", s.l.Name, log.IdempotencyKey}
			if err := sess.lockRow(ikKey); err != nil {
				s.w.probe("ik_insert_waited")
				return err
			}
		}
		var id uint64
		if log.ID != nil {
			id = *log.ID
		} else {
			if seqID == 0 {
				seqID = uint64(sess.db.nextvalLocked(seqName(s.l, "log_id")))
			}
			id = seqID
		}
		k := rowKey{"log", s.l.Name, idKey(id)}
		if err := sess.lockRow(k); err != nil {
			return err
		}
		if sess.get(k) != nil {
			return pgErr("23505", "duplicate key value violates unique constraint \"logs_ledger\"", "logs_ledger")
		}
		if log.IdempotencyKey != "" && sess.get(ikKey) != nil {
			ikConflict = true
			s.w.probe("ik_conflict_at_insert")
			return pgErr("23505", "duplicate key value violates unique constraint \"logs_idempotency_key\"", "logs_idempotency_key")
		}
		if log.Date.IsZero() {
			log.Date = time.New(sess.transactionDate())
		}
		log.ID = pointer.For(id)
		if hashed {
			// trigger set_log_hash: hash over the previous visible log (Go and SQL hashing are assumed to
			// agree - that is property C10, not decided here)
			var prev *ledger.Log
			if pr := s.lastLog(sess); pr != nil {
				pl, err := s.logFromRow(pr)
				if err != nil {
					return err
				}
				prev = &pl
			}
			cp := *log
			cp.Hash = nil
			cp.ComputeHash(prev)
			log.Hash = cp.Hash
		}
		sess.put(k, &LogRow{ID: id, Type: log.Type, DataJSON: payloadData, Date: log.Date, IK: log.IdempotencyKey,
			IKHash: log.IdempotencyHash, Hash: append([]byte(nil), log.Hash...), SchemaVersion: log.SchemaVersion})
		if log.IdempotencyKey != "" {
			sess.put(ikKey, idKey(id))
		}
		return nil
	})
	if err != nil {
		if ikConflict {
			return ledgerstore.NewErrIdempotencyKeyConflict(log.IdempotencyKey)
		}
		if errors.Is(err, postgres.ErrConstraintsFailed{}) {
			return nil // mirrors the real InsertLog, which swallows other constraint failures
		}
		return fmt.Errorf("inserting log: %w", err)
	}
	return nil
}

func (s *SimStore) ReadLogWithIdempotencyKey(ctx context.Context, ik string) (*ledger.Log, error) {
	if s.w.realSQL {
		return s.DefaultStoreAdapter.ReadLogWithIdempotencyKey(s.lctx(ctx), ik)
	}
	var out *ledger.Log
	err := s.call(ctx, "ReadLogWithIdempotencyKey", ik, stmtKinds, func(sess *Session) error {
		out = nil
		ref, _ := sess.get(rowKey{"log_ik", s.l.Name, ik}).(string)
		if ref == "" {
			return sql.ErrNoRows
		}
		row, _ := sess.get(rowKey{"log", s.l.Name, ref}).(*LogRow)
		if row == nil {
			return sql.ErrNoRows
		}
		l, err := s.logFromRow(row)
		if err != nil {
			return err
		}
		out = &l
		return nil
	})
	if err != nil {
		return nil, err
	}
	return out, nil
}

// ---- S8 resources ----

type filter struct {
	op, key string
	val     any
}

func filtersOf(q common.ResourceQuery[any]) ([]filter, error) {
	var fs []filter
	if q.Builder == nil {
		return nil, nil
	}
	err := q.Builder.Walk(func(operator, key string, value *any) error {
		fs = append(fs, filter{operator, key, *value})
		return nil
	})
	return fs, err
}

func toUint(v any) (uint64, bool) {
	switch x := v.(type) {
	case uint64:
		return x, true
	case int:
		return uint64(x), true
	case int64:
		return uint64(x), true
	case float64:
		return uint64(x), true
	case json.Number:
		n, err := strconv.ParseUint(string(x), 10, 64)
		return n, err == nil
	case string:
		n, err := strconv.ParseUint(x, 10, 64)
		return n, err == nil
	case *big.Int:
		return x.Uint64(), true
	}
	return 0, false
}

func matchID(fs []filter, id uint64) (bool, error) {
	for _, f := range fs {
		if f.key != "id" {
			return false, common.NewErrInvalidQuery("simpg: unsupported filter key %q", f.key)
		}
		v, ok := toUint(f.val)
		if !ok {
			return false, common.NewErrInvalidQuery("simpg: unsupported filter value %T", f.val)
		}
		switch f.op {
		case "$match":
			if id != v {
				return false, nil
			}
		case "$gt":
			if !(id > v) {
				return false, nil
			}
		case "$gte":
			if !(id >= v) {
				return false, nil
			}
		case "$lt":
			if !(id < v) {
				return false, nil
			}
		case "$lte":
			if !(id <= v) {
				return false, nil
			}
		default:
			return false, common.NewErrInvalidQuery("simpg: unsupported operator %q", f.op)
		}
	}
	return true, nil
}

// paginateByID implements column pagination on a numeric id, producing cursors the real
// common.UnmarshalCursor understands.
func paginateByID[T any](q common.PaginatedQuery[any], defaultOrder paginate.Order, ids []uint64, load func(id uint64) (T, error)) (*paginate.Cursor[T], error) {
	var cq common.ColumnPaginatedQuery[any]
	switch v := q.(type) {
	case common.InitialPaginatedQuery[any]:
		cq.InitialPaginatedQuery = v
	case *common.InitialPaginatedQuery[any]:
		cq.InitialPaginatedQuery = *v
	case common.ColumnPaginatedQuery[any]:
		cq = v
	case *common.ColumnPaginatedQuery[any]:
		cq = *v
	default:
		return nil, common.NewErrInvalidQuery("simpg: unsupported pagination query %T", q)
	}
	if cq.Column != "" && cq.Column != "id" {
		return nil, common.NewErrInvalidQuery("simpg: unsupported pagination column %q", cq.Column)
	}
	if cq.Reverse {
		return nil, common.NewErrInvalidQuery("simpg: reverse pagination unsupported")
	}
	order := defaultOrder
	if cq.Order != nil {
		order = *cq.Order
	}
	pageSize := cq.PageSize
	if pageSize == 0 {
		pageSize = paginate.QueryDefaultPageSize
	}
	fs, err := filtersOf(cq.Options)
	if err != nil {
		return nil, err
	}
	sort.Slice(ids, func(i, j int) bool {
		if order == paginate.OrderAsc {
			return ids[i] < ids[j]
		}
		return ids[i] > ids[j]
	})
	var sel []uint64
	for _, id := range ids {
		ok, err := matchID(fs, id)
		if err != nil {
			return nil, err
		}
		if !ok {
			continue
		}
		if cq.PaginationID != nil {
			pid := cq.PaginationID.Uint64()
			if order == paginate.OrderAsc && id < pid {
				continue
			}
			if order == paginate.OrderDesc && id > pid {
				continue
			}
		}
		sel = append(sel, id)
	}
	cur := &paginate.Cursor[T]{PageSize: int(pageSize)}
	if uint64(len(sel)) > pageSize {
		next := cq
		next.Order = &order
		next.PageSize = pageSize
		next.Column = "id"
		next.PaginationID = new(big.Int).SetUint64(sel[pageSize])
		if next.Bottom == nil {
			next.Bottom = new(big.Int).SetUint64(sel[0])
		}
		cur.HasMore = true
		cur.Next = paginate.EncodeCursor(next)
		sel = sel[:pageSize]
	}
	cur.Data = make([]T, 0, len(sel))
	for _, id := range sel {
		v, err := load(id)
		if err != nil {
			return nil, err
		}
		cur.Data = append(cur.Data, v)
	}
	return cur, nil
}

type logsResource struct{ s *SimStore }

func (r logsResource) GetOne(ctx context.Context, q common.ResourceQuery[any]) (*ledger.Log, error) {
	cur, err := r.Paginate(ctx, common.InitialPaginatedQuery[any]{PageSize: 1, Options: q})
	if err != nil {
		return nil, err
	}
	if len(cur.Data) == 0 {
		return nil, postgres.ErrNotFound
	}
	return &cur.Data[0], nil
}

func (r logsResource) Count(ctx context.Context, q common.ResourceQuery[any]) (int, error) {
	cur, err := r.Paginate(ctx, common.InitialPaginatedQuery[any]{PageSize: 1 << 30, Options: q})
	if err != nil {
		return 0, err
	}
	return len(cur.Data), nil
}

func (r logsResource) Paginate(ctx context.Context, q common.PaginatedQuery[any]) (*paginate.Cursor[ledger.Log], error) {
	var out *paginate.Cursor[ledger.Log]
	err := r.s.call(ctx, "ListLogs", "", stmtKinds, func(sess *Session) error {
		var ids []uint64
		for _, k := range sess.scan("log", r.s.l.Name) {
			ids = append(ids, sess.get(k).(*LogRow).ID)
		}
		var err error
		out, err = paginateByID(q, paginate.OrderDesc, ids, func(id uint64) (ledger.Log, error) {
			return r.s.logFromRow(sess.get(rowKey{"log", r.s.l.Name, idKey(id)}).(*LogRow))
		})
		if err != nil {
			return r.s.w.unmodelled("%v", err)
		}
		return nil
	})
	if err != nil {
		return nil, err
	}
	return out, nil
}

func (s *SimStore) Logs() common.PaginatedResource[ledger.Log, any] {
	if s.w.realSQL {
		return realFirst[ledger.Log, any]{real: s.DefaultStoreAdapter.Logs(), model: logsResource{s}, w: s.w, l: &s.l}
	}
	return logsResource{s}
}

type txResource struct{ s *SimStore }

func (r txResource) GetOne(ctx context.Context, q common.ResourceQuery[any]) (*ledger.Transaction, error) {
	cur, err := r.Paginate(ctx, common.InitialPaginatedQuery[any]{PageSize: 1, Options: q})
	if err != nil {
		return nil, err
	}
	if len(cur.Data) == 0 {
		return nil, postgres.ErrNotFound
	}
	return &cur.Data[0], nil
}

func (r txResource) Count(ctx context.Context, q common.ResourceQuery[any]) (int, error) {
	cur, err := r.Paginate(ctx, common.InitialPaginatedQuery[any]{PageSize: 1 << 30, Options: q})
	if err != nil {
		return 0, err
	}
	return len(cur.Data), nil
}

func (r txResource) Paginate(ctx context.Context, q common.PaginatedQuery[any]) (*paginate.Cursor[ledger.Transaction], error) {
	var out *paginate.Cursor[ledger.Transaction]
	err := r.s.call(ctx, "ListTransactions", "", stmtKinds, func(sess *Session) error {
		var ids []uint64
		for _, k := range sess.scan("tx", r.s.l.Name) {
			ids = append(ids, *sess.get(k).(*ledger.Transaction).ID)
		}
		var err error
		out, err = paginateByID(q, paginate.OrderDesc, ids, func(id uint64) (ledger.Transaction, error) {
			return *copyTx(sess.get(rowKey{"tx", r.s.l.Name, idKey(id)}).(*ledger.Transaction)), nil
		})
		if err != nil {
			return r.s.w.unmodelled("%v", err)
		}
		return nil
	})
	if err != nil {
		return nil, err
	}
	return out, nil
}

func (s *SimStore) Transactions() common.PaginatedResource[ledger.Transaction, any] {
	if s.w.realSQL {
		return realFirst[ledger.Transaction, any]{real: s.DefaultStoreAdapter.Transactions(), model: txResource{s}, w: s.w, l: &s.l}
	}
	return txResource{s}
}

type acctResource struct{ s *SimStore }

func (r acctResource) GetOne(ctx context.Context, q common.ResourceQuery[any]) (*ledger.Account, error) {
	fs, err := filtersOf(q)
	if err != nil {
		return nil, err
	}
	if len(fs) != 1 || fs[0].key != "address" || fs[0].op != "$match" {
		return nil, r.s.w.unmodelled("simpg: unsupported account query %+v", fs)
	}
	address, _ := fs[0].val.(string)
	var out *ledger.Account
	err = r.s.call(ctx, "GetAccount", address, stmtKinds, func(sess *Session) error {
		out = nil
		row, _ := sess.get(acctKey(r.s.l.Name, address)).(*AcctRow)
		if row == nil {
			return sql.ErrNoRows
		}
		out = &ledger.Account{Address: row.Address, Metadata: copyMeta(row.Metadata), FirstUsage: row.FirstUsage,
			InsertionDate: row.InsertionDate, UpdatedAt: row.UpdatedAt}
		return nil
	})
	if err != nil {
		return nil, err
	}
	return out, nil
}

func (r acctResource) Count(ctx context.Context, q common.ResourceQuery[any]) (int, error) {
	return 0, r.s.w.unmodelled("simpg: account count unsupported")
}

func (r acctResource) Paginate(ctx context.Context, q common.PaginatedQuery[any]) (*paginate.Cursor[ledger.Account], error) {
	return nil, r.s.w.unmodelled("simpg: account listing unsupported")
}

func (s *SimStore) Accounts() common.PaginatedResource[ledger.Account, any] {
	if s.w.realSQL {
		return realFirst[ledger.Account, any]{real: s.DefaultStoreAdapter.Accounts(), model: acctResource{s}, w: s.w, l: &s.l}
	}
	return acctResource{s}
}

type unsupportedAgg struct{ s *SimStore }

func (r unsupportedAgg) GetOne(ctx context.Context, q common.ResourceQuery[ledger.GetAggregatedVolumesOptions]) (*ledger.AggregatedVolumes, error) {
	return nil, r.s.w.unmodelled("simpg: aggregated balances unsupported")
}
func (r unsupportedAgg) Count(ctx context.Context, q common.ResourceQuery[ledger.GetAggregatedVolumesOptions]) (int, error) {
	return 0, r.s.w.unmodelled("simpg: aggregated balances unsupported")
}

func (s *SimStore) AggregatedBalances() common.Resource[ledger.AggregatedVolumes, ledger.GetAggregatedVolumesOptions] {
	if s.w.realSQL {
		// no model behind it: the real handler decides (feature refusals come before any SQL); what it sends is audited
		return realFirstRes[ledger.AggregatedVolumes, ledger.GetAggregatedVolumesOptions]{real: s.DefaultStoreAdapter.AggregatedBalances(), model: unsupportedAgg{s}, w: s.w, l: &s.l}
	}
	return unsupportedAgg{s}
}

type unsupportedVol struct{ s *SimStore }

func (r unsupportedVol) GetOne(ctx context.Context, q common.ResourceQuery[ledger.GetVolumesOptions]) (*ledger.VolumesWithBalanceByAssetByAccount, error) {
	return nil, r.s.w.unmodelled("simpg: volumes unsupported")
}
func (r unsupportedVol) Count(ctx context.Context, q common.ResourceQuery[ledger.GetVolumesOptions]) (int, error) {
	return 0, r.s.w.unmodelled("simpg: volumes unsupported")
}
func (r unsupportedVol) Paginate(ctx context.Context, q common.PaginatedQuery[ledger.GetVolumesOptions]) (*paginate.Cursor[ledger.VolumesWithBalanceByAssetByAccount], error) {
	return nil, r.s.w.unmodelled("simpg: volumes unsupported")
}

func (s *SimStore) Volumes() common.PaginatedResource[ledger.VolumesWithBalanceByAssetByAccount, ledger.GetVolumesOptions] {
	if s.w.realSQL {
		return realFirst[ledger.VolumesWithBalanceByAssetByAccount, ledger.GetVolumesOptions]{real: s.DefaultStoreAdapter.Volumes(), model: unsupportedVol{s}, w: s.w, l: &s.l}
	}
	return unsupportedVol{s}
}
