package sim

// C02 (scope: reads without a point in time or a filter): what account reads, volume listings and balance queries
// report equals the fold of the committed postings. The reads run through the real API handlers, controller,
// resource repository and resource handlers (resource_accounts.go with its volumes expansion, resource_volumes.go,
// resource_aggregated_balances.go); their SQL - CTEs, the composite volumes type, json_build_object, GROUP BY with
// sum and aggregate_objects, LEFT JOIN, DISTINCT ON - is executed by the interpreter over the rows the real write
// path produced. Readers race writers (postings, scripts, reverts, refused and dry-run writes) under the seeded
// scheduler, so the property decided is the concurrent one: every answer is the fold of the postings committed at
// ONE point between the request and its answer (a read is one statement: one read-committed snapshot).
//
// The reference fold is computed from the committed transaction rows (their postings), not from the volume rows
// the reads go through.

import (
	"encoding/json"
	"fmt"
	"math/big"
	"sort"
	"strings"

	ledger "github.com/formancehq/ledger/internal"
)

func init() {
	register(Profile{Property: "C02", Name: "volume-reads", Gen: func(r *RNG, seed uint64, tier string) (*Scenario, *ExploreCfg) {
		sc := &Scenario{Property: "C02", Profile: "volume-reads", Knobs: randomKnobs(r), Checks: []string{"volume-reads", "logs-match-ops", "conservation"},
			Params: map[string]string{"lenient_reads": "1", "force_real_sql": "1"}}
		g := &gen{r: r, sc: sc}
		sc.Setup = g.baseSetup("l1", Pick(r, []string{"20", "100"}), 2)
		if r.Chance(0.4) {
			// a sibling ledger in the same bucket with the same accounts and other amounts
			sc.Setup = append(sc.Setup, Op{ID: g.id("s"), Kind: KCreateLedger, Ledger: "l2", Feats: ledgerFeatures(sc.Knobs)},
				Op{ID: g.id("s"), Kind: KPostings, Ledger: "l2", Postings: []PostingSpec{{"world", "u:1", "7777", "USD"}, {"world", "u:2", "5", "EUR/2"}}})
		}
		if r.Chance(0.3) {
			id := g.id("s")
			sc.Setup = append(sc.Setup, Op{ID: id, Kind: KAcctMetaSet, Ledger: "l1", Address: "meta:only", Metadata: map[string]string{"m." + id: "v"}})
		}
		for c := 0; c < 1+r.Intn(2); c++ {
			var ops []Op
			for i := 0; i < 1+r.Intn(4); i++ {
				var op Op
				switch x := r.Intn(10); {
				case x < 5:
					op = g.postingsOp("l1", 3, true, true)
				case x < 6:
					op = g.postingsOp("l1", 2, true, false)
					op.DryRun = true
				case x < 7:
					op = Op{Kind: KPostings, Ledger: "l1", Postings: []PostingSpec{{"poor:1", "bank", "1000000", "USD"}}}
				case x < 8:
					op = g.scriptOp("l1")
				default:
					op = g.revertOp("l1", 1+uint64(r.Intn(int(g.txN))))
				}
				op.ID = fmt.Sprintf("w%d.%d", c, i)
				ops = append(ops, op)
			}
			sc.Clients = append(sc.Clients, ops)
		}
		for c := 0; c < 1+r.Intn(2); c++ {
			var ops []Op
			for i := 0; i < 2+r.Intn(4); i++ {
				path := Pick(r, []string{"/v2/l1/accounts/" + Pick(r, users) + "?expand=volumes", "/v2/l1/accounts/world?expand=volumes", "/v2/l1/accounts?expand=volumes&pageSize=100",
					"/v2/l1/volumes?pageSize=100", "/v2/l1/volumes?pageSize=100", "/v2/l1/aggregate/balances", "/l1/accounts/" + Pick(r, users), "/l1/balances?pageSize=100", "/l1/aggregate/balances",
					"/v2/l1/accounts/meta:only?expand=volumes"})
				op := Op{ID: fmt.Sprintf("r%d.%d", c, i), Kind: KRaw, Ledger: "l1", Raw: &Request{Method: "GET", Path: path}}
				if r.Chance(0.35) {
					// the same reads restricted to one exact address (Op.Address tells the oracle which)
					a := Pick(r, append(append([]string{}, users...), "world", "bank"))
					hdr := map[string]string{"Content-Type": "application/json"}
					switch x := r.Intn(5); x {
					case 0:
						op.Raw = &Request{Method: "GET", Path: "/v2/l1/aggregate/balances", Body: `{"$match":{"address":"` + a + `"}}`, Header: hdr}
					case 1:
						op.Raw = &Request{Method: "GET", Path: "/l1/aggregate/balances?address=" + a}
					case 2:
						op.Raw = &Request{Method: "GET", Path: "/v2/l1/volumes?pageSize=100", Body: `{"$match":{"account":"` + a + `"}}`, Header: hdr}
					case 3:
						op.Raw = &Request{Method: "GET", Path: "/v2/l1/accounts?expand=volumes&pageSize=100", Body: `{"$match":{"address":"` + a + `"}}`, Header: hdr}
					default:
						op.Raw = &Request{Method: "GET", Path: "/l1/balances?pageSize=100&address=" + a}
					}
					op.Address = a
				}
				ops = append(ops, op)
			}
			sc.Clients = append(sc.Clients, ops)
		}
		ex := defaultExplore(seed, 0, 0)
		if r.Chance(0.3) {
			// store faults strike writers and readers alike
			ex = defaultExplore(seed, 0.03, 2, FDeadlock, FStmtErr, FConnLost, FCommitClean, FCommitAmbiguous)
		}
		ex.PreemptP = 0.5
		return sc, ex
	}})
}

type volState map[string]map[string][2]*big.Int // account -> asset -> (input, output)

func (s volState) clone() volState {
	out := volState{}
	for a, m := range s {
		out[a] = map[string][2]*big.Int{}
		for as, v := range m {
			out[a][as] = [2]*big.Int{new(big.Int).Set(v[0]), new(big.Int).Set(v[1])}
		}
	}
	return out
}

func (s volState) add(account, asset string, in, out *big.Int) {
	if s[account] == nil {
		s[account] = map[string][2]*big.Int{}
	}
	v, ok := s[account][asset]
	if !ok {
		v = [2]*big.Int{new(big.Int), new(big.Int)}
	}
	s[account][asset] = [2]*big.Int{new(big.Int).Add(v[0], in), new(big.Int).Add(v[1], out)}
}

// render: a canonical text of (part of) a state, comparable with what a read reported
func (s volState) render(only string) string {
	var lines []string
	for a, m := range s {
		if only != "" && a != only {
			continue
		}
		for as, v := range m {
			lines = append(lines, fmt.Sprintf("%s %s in=%s out=%s", a, as, v[0], v[1]))
		}
	}
	sort.Strings(lines)
	return strings.Join(lines, "; ")
}

// volumeStates: the fold of the committed postings of a ledger after each commit, with the commit's event number.
func (r *runner) volumeStates(ledgerName string) ([]uint64, []volState) {
	events := []uint64{0}
	states := []volState{{}}
	cur := volState{}
	for _, rec := range r.w.db.CommitsSince(0) {
		changed := false
		for _, wr := range rec.Writes {
			if wr.Key.Table != "tx" || wr.Key.Ledger != ledgerName || wr.Before != nil {
				continue
			}
			t, ok := wr.After.(*ledger.Transaction)
			if !ok {
				continue
			}
			for _, p := range t.Postings {
				cur.add(p.Source, p.Asset, new(big.Int), p.Amount)
				cur.add(p.Destination, p.Asset, p.Amount, new(big.Int))
			}
			changed = true
		}
		if changed {
			events = append(events, rec.Event)
			states = append(states, cur.clone())
		}
	}
	return events, states
}

type volJSON struct {
	Input   json.Number `json:"input"`
	Output  json.Number `json:"output"`
	Balance json.Number `json:"balance"`
}

func bigNum(n json.Number) *big.Int {
	b, ok := new(big.Int).SetString(n.String(), 10)
	if !ok {
		return nil
	}
	return b
}

func checkVolumeReads(r *runner) []Violation {
	var vs []Violation
	prop := r.sc.Property
	cache := map[string]struct {
		ev []uint64
		st []volState
	}{}
	for _, or := range r.results {
		// (a read struck by an injected fault may fail; one that is nevertheless answered 200 is judged like any other:
		// a fault may cost an answer, never make it wrong)
		if or.Op.Kind != KRaw || or.Op.Raw == nil || or.Op.Raw.Method != "GET" || or.Out.Class != "ok" {
			continue
		}
		if len(or.Faults) > 0 {
			r.w.probe("volume_read_answered_despite_a_fault")
		}
		path, _, _ := strings.Cut(or.Op.Raw.Path, "?")
		parts := strings.Split(strings.Trim(path, "/"), "/")
		v1 := parts[0] != "v2"
		if !v1 {
			parts = parts[1:]
		}
		if len(parts) < 2 {
			continue
		}
		ledgerName := parts[0]
		c, ok := cache[ledgerName]
		if !ok {
			c.ev, c.st = r.volumeStates(ledgerName)
			cache[ledgerName] = c
		}
		// the read as a list of lines "account asset in= out=" (or "asset balance=" for the aggregated forms),
		// and a function rendering a candidate state the same way
		var got []string
		var want func(s volState) []string
		dec := func(raw []byte, into any) bool {
			d := json.NewDecoder(strings.NewReader(string(raw)))
			d.UseNumber()
			return d.Decode(into) == nil
		}
		volLines := func(account string, m map[string]volJSON) []string {
			var out []string
			for as, v := range m {
				in, o, b := bigNum(v.Input), bigNum(v.Output), bigNum(v.Balance)
				line := fmt.Sprintf("%s %s in=%s out=%s", account, as, in, o)
				if in == nil || o == nil || b == nil || new(big.Int).Sub(in, o).Cmp(b) != 0 {
					line += " BALANCE=" + v.Balance.String()
				}
				out = append(out, line)
			}
			return out
		}
		stateLines := func(s volState, only string) []string {
			var out []string
			for a, m := range s {
				if only != "" && a != only {
					continue
				}
				for as, v := range m {
					out = append(out, fmt.Sprintf("%s %s in=%s out=%s", a, as, v[0], v[1]))
				}
			}
			return out
		}
		balLines := func(s volState, only string, perAccount bool) []string {
			agg := map[string]*big.Int{}
			for a, m := range s {
				if only != "" && a != only {
					continue
				}
				for as, v := range m {
					k := as
					if perAccount {
						k = a + " " + as
					}
					if agg[k] == nil {
						agg[k] = new(big.Int)
					}
					agg[k].Add(agg[k], new(big.Int).Sub(v[0], v[1]))
				}
			}
			var out []string
			for k, b := range agg {
				out = append(out, fmt.Sprintf("%s balance=%s", k, b))
			}
			return out
		}
		switch {
		case parts[1] == "accounts" && len(parts) == 3:
			var env struct {
				Data struct {
					Volumes  map[string]volJSON     `json:"volumes"`
					Balances map[string]json.Number `json:"balances"`
				} `json:"data"`
			}
			if !dec(or.Out.Body, &env) {
				continue
			}
			account := parts[2]
			got = volLines(account, env.Data.Volumes)
			if v1 {
				for as, b := range env.Data.Balances {
					got = append(got, fmt.Sprintf("%s %s balance=%s", account, as, b))
				}
			}
			want = func(s volState) []string {
				out := stateLines(s, account)
				if v1 {
					out = append(out, balLines(s, account, true)...)
				}
				return out
			}
		case parts[1] == "accounts" && len(parts) == 2 && !v1:
			var env struct {
				Cursor struct {
					HasMore bool `json:"hasMore"`
					Data    []struct {
						Address string             `json:"address"`
						Volumes map[string]volJSON `json:"volumes"`
					} `json:"data"`
				} `json:"cursor"`
			}
			if !dec(or.Out.Body, &env) || env.Cursor.HasMore {
				continue
			}
			for _, a := range env.Cursor.Data {
				got = append(got, volLines(a.Address, a.Volumes)...)
			}
			want = func(s volState) []string { return stateLines(s, or.Op.Address) }
		case parts[1] == "volumes":
			var env struct {
				Cursor struct {
					HasMore bool `json:"hasMore"`
					Data    []struct {
						Account string `json:"account"`
						Asset   string `json:"asset"`
						volJSON
					} `json:"data"`
				} `json:"cursor"`
			}
			if !dec(or.Out.Body, &env) || env.Cursor.HasMore {
				continue
			}
			for _, v := range env.Cursor.Data {
				got = append(got, volLines(v.Account, map[string]volJSON{v.Asset: v.volJSON})...)
			}
			want = func(s volState) []string { return stateLines(s, or.Op.Address) }
		case parts[1] == "balances" && v1:
			var env struct {
				Cursor struct {
					HasMore bool                                `json:"hasMore"`
					Data    []map[string]map[string]json.Number `json:"data"`
				} `json:"cursor"`
			}
			if !dec(or.Out.Body, &env) || env.Cursor.HasMore {
				continue
			}
			for _, item := range env.Cursor.Data {
				for a, m := range item {
					for as, b := range m {
						got = append(got, fmt.Sprintf("%s %s balance=%s", a, as, b))
					}
				}
			}
			want = func(s volState) []string { return balLines(s, or.Op.Address, true) }
		case parts[1] == "aggregate":
			var env struct {
				Data map[string]json.Number `json:"data"`
			}
			if !dec(or.Out.Body, &env) {
				continue
			}
			for as, b := range env.Data {
				got = append(got, fmt.Sprintf("%s balance=%s", as, b))
			}
			want = func(s volState) []string { return balLines(s, or.Op.Address, false) }
		default:
			continue
		}
		// an account / asset pair with no movement at all (a volume row created to lock a balance, a posting of
		// amount 0) says the same thing present or absent
		dropZero := func(lines []string) []string {
			var out []string
			for _, l := range lines {
				if strings.HasSuffix(l, " in=0 out=0") || strings.HasSuffix(l, " balance=0") {
					continue
				}
				out = append(out, l)
			}
			return out
		}
		got = dropZero(got)
		sort.Strings(got)
		gs := strings.Join(got, "; ")
		// candidate snapshots: the state when the request was sent, and after every commit until it was answered
		matched := false
		var cands []string
		for i := range c.st {
			next := ^uint64(0)
			if i+1 < len(c.ev) {
				next = c.ev[i+1]
			}
			if next < or.Out.Invoke || c.ev[i] > or.Out.Return {
				continue // this state ended before the request was sent / began after it was answered
			}
			w := dropZero(want(c.st[i]))
			sort.Strings(w)
			ws := strings.Join(w, "; ")
			cands = append(cands, ws)
			if ws == gs {
				matched = true
				break
			}
		}
		if !matched {
			r.w.probe("volume_read_judged")
			vs = append(vs, Violation{prop, "reads-report-the-fold-of-committed-postings", fmt.Sprintf("%s GET %s reported {%s}; the fold of the postings committed at any point between the request and its answer is one of %q", or.Op.ID, or.Op.Raw.Path, gs, cands)})
		} else {
			r.w.probe("volume_read_matches_a_snapshot")
			if len(cands) > 1 {
				r.w.probe("volume_read_raced_a_commit")
			}
		}
	}
	return vs
}
