package sim

// The replication world (C33): the REAL Manager, PipelineHandler, DriverFacade, batching driver factory
// and driver registry over a simulated system store and a recording terminal exporter.

import (
	"context"
	"database/sql"
	"encoding/json"
	"fmt"
	"sort"
	"sync"
	gotime "time"

	logging "github.com/formancehq/go-libs/v5/pkg/observe/log"
	"github.com/formancehq/go-libs/v5/pkg/storage/bun/paginate"
	"github.com/formancehq/go-libs/v5/pkg/storage/postgres"

	ledger "github.com/formancehq/ledger/internal"
	systemcontroller "github.com/formancehq/ledger/internal/controller/system"
	"github.com/formancehq/ledger/internal/replication"
	"github.com/formancehq/ledger/internal/replication/drivers"
	"github.com/formancehq/ledger/internal/storage/common"
	systemstore "github.com/formancehq/ledger/internal/storage/system"
)

type WorkerSpec struct {
	Enabled        bool `json:"enabled"`
	PullMs         int  `json:"pull_ms"`
	PushRetryMs    int  `json:"push_retry_ms"`
	PageSize       int  `json:"page_size"`
	SyncMs         int  `json:"sync_ms"`
	BatchMaxItems  int  `json:"batch_max_items"`
	BatchFlushMs   int  `json:"batch_flush_ms"`
	ExporterFaultP int  `json:"exporter_fault_permille,omitempty"`
}

// AcceptRec is one Accept call seen by the terminal exporter.
type AcceptRec struct {
	Seq      uint64
	Exporter string
	Ledger   string
	IDs      []uint64 // the logs of this ledger in the call, in call order (a call can carry one log twice)
	Refused  []bool   // per position: the exporter refused this item individually (per-item error)
	Acked    bool     // the call as a whole succeeded (no global error)
	Prints   []string // per position: fingerprint of the log as the exporter received it (logPrint)
	Epoch    int
}

// logPrint: what identifies the content of a log (type, hash, idempotency key, date, payload).
func logPrint(l ledger.Log) string {
	data, _ := json.Marshal(l.Data)
	return fmt.Sprintf("%s|%x|%s|%s|%s", l.Type, l.Hash, l.IdempotencyKey, l.Date.UTC().Format(gotime.RFC3339Nano), data)
}

// acked: the ids the exporter accepted in this call.
func (a AcceptRec) acked() []uint64 {
	if !a.Acked {
		return nil
	}
	var out []uint64
	for i, id := range a.IDs {
		if !a.Refused[i] {
			out = append(out, id)
		}
	}
	return out
}

type workerWorld struct {
	mu          sync.Mutex
	spec        *WorkerSpec
	r           *runner
	manager     *replication.Manager
	accepts     []AcceptRec
	resets      []resetRec // completed ResetPipeline calls
	opens       int
	vars        map[string]string // $exporter, $pipeline
	lastSeen    int
	lastOwnSeen int
	// a last_log_id older than the reset was persisted after it (finding D4): later symptoms are its consequences
	staleAfterReset bool
	managers        []*replication.Manager
}

type resetRec struct {
	Seq      uint64
	Pipeline string
}

// ---- simulated replication storage ----

type simReplStorage struct {
	ww    *workerWorld
	inc   func() *Incarnation
	epoch int
}

func (s *simReplStorage) fenced() bool { return s.ww.r.w.epochDead(s.epoch) }

// Calls made by a dead incarnation (its goroutines cannot be killed) fail fast and have no effect: the
// old Manager keeps its mutex discipline and never waits for ever on something only the scheduler could
// give it.

// quiet runs fn on a pooled connection without yielding: the Manager holds its mutex across these calls
// (DESIGN.md 3.7a), so they must never park.
func (s *simReplStorage) quiet(ctx context.Context, fn func(sess *Session) error) error {
	if s.fenced() {
		return errSessionDead
	}
	w := s.ww.r.w
	id := w.registerCall(func(ctx context.Context, c *conn) error {
		return c.sess.stmt("worker", func() error { return fn(c.sess) })
	})
	_, err := s.inc().bunDB.ExecContext(context.WithoutCancel(ctx), fmt.Sprintf("SIMCALL %d", id))
	w.takeCall(id)
	return postgres.ResolveError(err)
}

// realSys: in half of the replication runs the data part of every storage call is the REAL
// internal/storage/system DefaultStore method, its SQL interpreted by sqlmini (sqlmini_system.go); yields,
// fencing of dead incarnations and the oracle's bookkeeping stay in this wrapper.
func (s *simReplStorage) realSys(ctx context.Context) (*systemstore.DefaultStore, context.Context, bool) {
	if !s.ww.r.sc.Knobs.RealSysSQL {
		return nil, ctx, false
	}
	return systemstore.New(s.inc().bunDB), sysSQL(ctx), true
}

func pipelineKey(id string) rowKey { return rowKey{"pipeline", "", id} }
func exporterKey(id string) rowKey { return rowKey{"exporter", "", id} }

func copyPipeline(p *ledger.Pipeline) *ledger.Pipeline {
	cp := *p
	if p.LastLogID != nil {
		v := *p.LastLogID
		cp.LastLogID = &v
	}
	return &cp
}

type logFetcher struct {
	s     *simReplStorage
	store *SimStore
	key   string
	// real-SQL runs: the store the REAL storage driver opened for the pipeline (real factory, real
	// alone-in-bucket hint); its Logs().Paginate serves the pipeline, as internal/replication/store.go does
	real replication.LogFetcher
}

func (f logFetcher) ListLogs(ctx context.Context, q common.PaginatedQuery[any]) (*paginate.Cursor[ledger.Log], error) {
	if f.s.fenced() {
		return nil, errSessionDead
	}
	ctx = WithTask(ctx, f.key)
	if flt := f.s.ww.r.w.Yield(ctx, "worker.ListLogs", "", FStorageErr, FCrash); flt != nil {
		switch flt.Kind {
		case FShutdown:
			return nil, errShutdown
		case FStorageErr:
			return nil, fmt.Errorf("listing logs: connection refused (injected)")
		}
	}
	if f.s.fenced() {
		return nil, errSessionDead
	}
	if f.real != nil {
		f.s.ww.r.w.probe("pipeline_logs_through_real_sql")
		out, err := f.real.ListLogs(sysSQL(ctx), q)
		return out, err
	}
	var out *paginate.Cursor[ledger.Log]
	err := f.s.quiet(ctx, func(sess *Session) error {
		var ids []uint64
		for _, k := range sess.scan("log", f.store.l.Name) {
			ids = append(ids, sess.get(k).(*LogRow).ID)
		}
		var err error
		out, err = paginateByID(q, paginate.OrderDesc, ids, func(id uint64) (ledger.Log, error) {
			return f.store.logFromRow(sess.get(rowKey{"log", f.store.l.Name, idKey(id)}).(*LogRow))
		})
		return err
	})
	return out, err
}

func (s *simReplStorage) OpenLedger(ctx context.Context, name string) (replication.LogFetcher, *ledger.Ledger, error) {
	if s.fenced() {
		return nil, nil, errSessionDead
	}
	if d := s.inc().workerDriver; d != nil {
		// the REAL internal/replication storage adapter opens the ledger (real storage driver of the worker
		// process); no yield inside: the Manager holds its mutex here
		st, l, err := replication.NewStorageAdapter(d, systemstore.New(s.inc().bunDB)).OpenLedger(sysSQL(ctx), name)
		if err != nil {
			return nil, nil, err
		}
		s.ww.mu.Lock()
		s.ww.opens++
		key := fmt.Sprintf("pipeline:%s:%d", name, s.ww.opens)
		s.ww.mu.Unlock()
		return logFetcher{s: s, store: NewSimStore(s.ww.r.w, s.inc().bunDB, *l), key: key, real: st}, l, nil
	}
	var l *ledger.Ledger
	err := s.quiet(ctx, func(sess *Session) error {
		row, _ := sess.get(rowKey{"ledger", "", name}).(*LedgerRow)
		if row == nil {
			return sql.ErrNoRows
		}
		l = ledgerFromRow(row)
		return nil
	})
	if err != nil {
		return nil, nil, err
	}
	s.ww.mu.Lock()
	s.ww.opens++
	key := fmt.Sprintf("pipeline:%s:%d", name, s.ww.opens)
	s.ww.mu.Unlock()
	return logFetcher{s: s, store: NewSimStore(s.ww.r.w, s.inc().bunDB, *l), key: key}, l, nil
}

func (s *simReplStorage) StorePipelineState(ctx context.Context, id string, lastLogID uint64) error {
	if s.fenced() {
		return errSessionDead
	}
	w := s.ww.r.w
	key := "state:" + id
	w.mu.Lock()
	for i := 0; w.parked[key] != nil; i++ {
		key = fmt.Sprintf("state:%s'%d", id, i)
	}
	w.mu.Unlock()
	ctx = WithTask(ctx, key)
	if flt := w.Yield(ctx, "worker.StorePipelineState", fmt.Sprint(lastLogID), FStorageErr, FCrash); flt != nil {
		switch flt.Kind {
		case FShutdown:
			return errShutdown
		case FStorageErr:
			return fmt.Errorf("updating state in database: connection refused (injected)")
		}
	}
	if s.fenced() {
		return errSessionDead
	}
	if st, rctx, ok := s.realSys(ctx); ok {
		return st.StorePipelineState(rctx, id, lastLogID)
	}
	return s.quiet(ctx, func(sess *Session) error {
		k := pipelineKey(id)
		row, _ := sess.get(k).(*ledger.Pipeline)
		if row == nil {
			return postgres.ErrNotFound
		}
		if err := sess.lockRow(k); err != nil {
			return err
		}
		cp := copyPipeline(row)
		cp.LastLogID = &lastLogID
		sess.put(k, cp)
		return nil
	})
}

func (s *simReplStorage) listPipelines(ctx context.Context, enabledOnly bool) ([]ledger.Pipeline, error) {
	if st, rctx, ok := s.realSys(ctx); ok {
		if s.fenced() {
			return nil, errSessionDead
		}
		var ps []ledger.Pipeline
		if enabledOnly {
			var err error
			if ps, err = st.ListEnabledPipelines(rctx); err != nil {
				return nil, err
			}
		} else {
			cur, err := st.ListPipelines(rctx)
			if err != nil {
				return nil, err
			}
			ps = cur.Data
		}
		sort.Slice(ps, func(i, j int) bool { return ps[i].ID < ps[j].ID })
		return ps, nil
	}
	var out []ledger.Pipeline
	err := s.quiet(ctx, func(sess *Session) error {
		out = nil
		for _, k := range sess.scan("pipeline", "") {
			p := sess.get(k).(*ledger.Pipeline)
			if enabledOnly && !p.Enabled {
				continue
			}
			out = append(out, *copyPipeline(p))
		}
		sort.Slice(out, func(i, j int) bool { return out[i].ID < out[j].ID })
		return nil
	})
	return out, err
}

func (s *simReplStorage) ListEnabledPipelines(ctx context.Context) ([]ledger.Pipeline, error) {
	return s.listPipelines(ctx, true)
}

func (s *simReplStorage) ListPipelines(ctx context.Context) (*paginate.Cursor[ledger.Pipeline], error) {
	ps, err := s.listPipelines(ctx, false)
	if err != nil {
		return nil, err
	}
	return &paginate.Cursor[ledger.Pipeline]{PageSize: len(ps), Data: ps}, nil
}

func (s *simReplStorage) GetPipeline(ctx context.Context, id string) (out *ledger.Pipeline, err error) {
	// Called under the Manager's lock this never parks (DESIGN 3.7a). Called OUTSIDE of it - which the unchanged
	// code only does for the plain GET of a pipeline - the answer travels back to a caller that holds nothing:
	// other requests may run before it goes on (for instance before it takes the lock).
	defer func() {
		if m := s.ww.currentManager(); err == nil && m != nil && !m.SimLockHeld() && taskKeyOf(ctx) != "" {
			s.ww.r.w.probe("pipeline_read_outside_the_manager_lock")
			s.ww.r.w.Yield(ctx, "worker.GetPipeline:reply", id)
		}
	}()
	if st, rctx, ok := s.realSys(ctx); ok {
		if s.fenced() {
			return nil, errSessionDead
		}
		return st.GetPipeline(rctx, id)
	}
	err = s.quiet(ctx, func(sess *Session) error {
		row, _ := sess.get(pipelineKey(id)).(*ledger.Pipeline)
		if row == nil {
			return sql.ErrNoRows
		}
		out = copyPipeline(row)
		return nil
	})
	return out, err
}

// currentManager: the Manager of the live incarnation.
func (ww *workerWorld) currentManager() *replication.Manager {
	ww.mu.Lock()
	defer ww.mu.Unlock()
	return ww.manager
}

func (s *simReplStorage) CreatePipeline(ctx context.Context, pipeline ledger.Pipeline) error {
	if st, rctx, ok := s.realSys(ctx); ok {
		if s.fenced() {
			return errSessionDead
		}
		return st.CreatePipeline(rctx, pipeline)
	}
	return s.quiet(ctx, func(sess *Session) error {
		for _, k := range sess.scan("pipeline", "") {
			p := sess.get(k).(*ledger.Pipeline)
			if p.Ledger == pipeline.Ledger && p.ExporterID == pipeline.ExporterID {
				return ledger.NewErrPipelineAlreadyExists(pipeline.PipelineConfiguration)
			}
		}
		sess.put(pipelineKey(pipeline.ID), copyPipeline(&pipeline))
		return nil
	})
}

func (s *simReplStorage) DeletePipeline(ctx context.Context, id string) error {
	if st, rctx, ok := s.realSys(ctx); ok {
		if s.fenced() {
			return errSessionDead
		}
		return st.DeletePipeline(rctx, id)
	}
	return s.quiet(ctx, func(sess *Session) error {
		if sess.get(pipelineKey(id)) == nil {
			return postgres.ErrNotFound
		}
		sess.del(pipelineKey(id))
		return nil
	})
}

func (s *simReplStorage) UpdatePipeline(ctx context.Context, id string, o map[string]any) (*ledger.Pipeline, error) {
	if st, rctx, ok := s.realSys(ctx); ok {
		if s.fenced() {
			return nil, errSessionDead
		}
		if v, has := o["last_log_id"]; has && v == nil {
			// the exact moment of a reset (stamped before the statement that performs it, as in the model)
			seq := s.ww.r.w.Event()
			s.ww.mu.Lock()
			s.ww.resets = append(s.ww.resets, resetRec{Seq: seq, Pipeline: id})
			s.ww.mu.Unlock()
		}
		return st.UpdatePipeline(rctx, id, o)
	}
	var out *ledger.Pipeline
	err := s.quiet(ctx, func(sess *Session) error {
		k := pipelineKey(id)
		row, _ := sess.get(k).(*ledger.Pipeline)
		if row == nil {
			return sql.ErrNoRows
		}
		cp := copyPipeline(row)
		for f, v := range o {
			switch f {
			case "enabled":
				cp.Enabled, _ = v.(bool)
			case "last_log_id":
				if v == nil {
					cp.LastLogID = nil
					// the exact moment of a reset: everything acknowledged from here on belongs to the new pass
					s.ww.mu.Lock()
					s.ww.resets = append(s.ww.resets, resetRec{Seq: s.ww.r.w.eventCtrLocked(), Pipeline: id})
					s.ww.mu.Unlock()
				} else if n, ok := toUint(v); ok {
					cp.LastLogID = &n
				}
			case "error":
				cp.Error, _ = v.(string)
			default:
				return s.ww.r.w.harnessErr("simpg: UpdatePipeline field %q unsupported", f)
			}
		}
		sess.put(k, cp)
		out = copyPipeline(cp)
		return nil
	})
	return out, err
}

func (s *simReplStorage) ListExporters(ctx context.Context) (*paginate.Cursor[ledger.Exporter], error) {
	if st, rctx, ok := s.realSys(ctx); ok {
		if s.fenced() {
			return nil, errSessionDead
		}
		return st.ListExporters(rctx)
	}
	var out []ledger.Exporter
	err := s.quiet(ctx, func(sess *Session) error {
		out = nil
		for _, k := range sess.scan("exporter", "") {
			out = append(out, *sess.get(k).(*ledger.Exporter))
		}
		return nil
	})
	return &paginate.Cursor[ledger.Exporter]{PageSize: len(out), Data: out}, err
}

func (s *simReplStorage) CreateExporter(ctx context.Context, exporter ledger.Exporter) error {
	if st, rctx, ok := s.realSys(ctx); ok {
		if s.fenced() {
			return errSessionDead
		}
		return st.CreateExporter(rctx, exporter)
	}
	return s.quiet(ctx, func(sess *Session) error {
		cp := exporter
		sess.put(exporterKey(exporter.ID), &cp)
		return nil
	})
}

func (s *simReplStorage) DeleteExporter(ctx context.Context, id string) error {
	if st, rctx, ok := s.realSys(ctx); ok {
		if s.fenced() {
			return errSessionDead
		}
		return st.DeleteExporter(rctx, id)
	}
	return s.quiet(ctx, func(sess *Session) error {
		if sess.get(exporterKey(id)) == nil {
			return postgres.ErrNotFound
		}
		sess.del(exporterKey(id))
		return nil
	})
}

func (s *simReplStorage) GetExporter(ctx context.Context, id string) (*ledger.Exporter, error) {
	if st, rctx, ok := s.realSys(ctx); ok {
		if s.fenced() {
			return nil, errSessionDead
		}
		return st.GetExporter(rctx, id)
	}
	var out *ledger.Exporter
	err := s.quiet(ctx, func(sess *Session) error {
		row, _ := sess.get(exporterKey(id)).(*ledger.Exporter)
		if row == nil {
			return sql.ErrNoRows
		}
		cp := *row
		out = &cp
		return nil
	})
	return out, err
}

func (s *simReplStorage) UpdateExporter(ctx context.Context, exporter ledger.Exporter) error {
	if st, rctx, ok := s.realSys(ctx); ok {
		if s.fenced() {
			return errSessionDead
		}
		return st.UpdateExporter(rctx, exporter)
	}
	return s.quiet(ctx, func(sess *Session) error {
		cp := exporter
		sess.put(exporterKey(exporter.ID), &cp)
		return nil
	})
}

// ---- the recording terminal exporter ----

type recConfig struct {
	Name string `json:"name"`
}

type recDriver struct {
	ww    *workerWorld
	id    string
	epoch int
}

func (d *recDriver) Start(ctx context.Context) error { return nil }
func (d *recDriver) Stop(ctx context.Context) error  { return nil }

func (d *recDriver) Accept(ctx context.Context, logs ...drivers.LogWithLedger) ([]error, error) {
	w := d.ww.r.w
	if w.epochDead(d.epoch) {
		return nil, errSessionDead
	}
	key := "exporter:" + d.id
	w.mu.Lock()
	for i := 0; w.parked[key] != nil; i++ {
		key = fmt.Sprintf("exporter:%s'%d", d.id, i)
	}
	w.mu.Unlock()
	// one call may carry logs of several ledgers (pipelines that share the exporter share its batcher)
	var order []string
	byLedger := map[string][]uint64{}
	for _, l := range logs {
		if _, ok := byLedger[l.Ledger]; !ok {
			order = append(order, l.Ledger)
		}
		byLedger[l.Ledger] = append(byLedger[l.Ledger], *l.ID)
	}
	note := ""
	for i, l := range order {
		if i > 0 {
			note += " "
		}
		if len(order) > 1 {
			note += l + ":"
		}
		note += fmt.Sprint(byLedger[l])
	}
	flt := w.Yield(Cancellable(WithTask(ctx, key)), "exporter.Accept", note, FExporterErr, FExporterItemErr, FCrash)
	if w.epochDead(d.epoch) {
		return nil, errSessionDead
	}
	var (
		errs []error
		err  error
	)
	if flt != nil {
		switch flt.Kind {
		case FShutdown:
			return nil, errShutdown
		case FCancelled:
			return nil, ctx.Err()
		case FExporterErr:
			err = fmt.Errorf("exporter unavailable (injected)")
		case FExporterItemErr:
			errs = make([]error, len(logs))
			errs[flt.Arg%len(logs)] = fmt.Errorf("item refused (injected)")
		}
	}
	seq := w.Event()
	d.ww.mu.Lock()
	for _, l := range order {
		rec := AcceptRec{Seq: seq, Exporter: d.id, Ledger: l, IDs: byLedger[l], Epoch: d.epoch, Acked: err == nil}
		for i := range logs {
			if logs[i].Ledger == l {
				rec.Refused = append(rec.Refused, i < len(errs) && errs[i] != nil)
				rec.Prints = append(rec.Prints, logPrint(logs[i].Log))
			}
		}
		d.ww.accepts = append(d.ww.accepts, rec)
	}
	d.ww.mu.Unlock()
	if errs == nil && err == nil {
		errs = make([]error, len(logs))
	}
	return errs, err
}

// ---- lifecycle ----

func newWorkerWorld(r *runner, spec *WorkerSpec) *workerWorld {
	return &workerWorld{spec: spec, r: r, vars: map[string]string{}}
}

func (ww *workerWorld) build(r *runner) *replication.Manager {
	w := r.w
	w.mu.Lock()
	epoch := w.epoch
	w.mu.Unlock()
	storage := &simReplStorage{ww: ww, inc: r.curInc, epoch: epoch}
	logger := logging.Testing()
	registry := drivers.NewRegistry(logger, storage)
	registry.RegisterDriver("rec", func(cfg recConfig, _ logging.Logger) (*recDriver, error) {
		return &recDriver{ww: ww, id: cfg.Name, epoch: epoch}, nil
	})
	factory := drivers.NewWithBatchingDriverFactory(registry, logger)
	ms := func(n int) gotime.Duration { return gotime.Duration(n) * gotime.Millisecond }
	return replication.NewManager(storage, factory, logger, registry,
		replication.WithSyncPeriod(ms(ww.spec.SyncMs)),
		replication.WithPipelineOptions(
			replication.WithPullPeriod(ms(ww.spec.PullMs)),
			replication.WithPushRetryPeriod(ms(ww.spec.PushRetryMs)),
			replication.WithLogsPageSize(uint64(ww.spec.PageSize)),
		),
	)
}

func (r *runner) replBackend() systemcontroller.ReplicationBackend {
	if r.worker == nil {
		return nil
	}
	if r.worker.manager == nil {
		r.worker.manager = r.worker.build(r)
	}
	return r.worker.manager
}

func (ww *workerWorld) start(r *runner) {
	m := ww.manager
	ww.mu.Lock()
	ww.managers = append(ww.managers, m)
	ww.mu.Unlock()
	ctx := logging.ContextWithLogger(WithTask(context.Background(), "worker"), logging.Testing())
	go m.Run(ctx)
}

// stop ends every Manager ever started (dead incarnations included): their Run loops live on timers and
// would keep the bubble alive for ever.
func (ww *workerWorld) stop(r *runner) {
	ww.mu.Lock()
	ms := ww.managers
	ww.managers = nil
	ww.mu.Unlock()
	for _, m := range ms {
		m := m
		go func() {
			ctx, cancel := context.WithTimeout(context.Background(), gotime.Hour)
			defer cancel()
			_ = m.Stop(ctx)
		}()
	}
}

// onCrash: the old manager dies with its incarnation; a new one is built (and started) over the same data.
func (ww *workerWorld) onCrash(r *runner) {
	ww.manager = ww.build(r)
}

// ackedBy returns the ids of a ledger that an exporter acknowledged at or after event seq.
func (ww *workerWorld) ackedBy(exporter, ledgerName string, seq uint64) map[uint64]bool {
	ww.mu.Lock()
	defer ww.mu.Unlock()
	out := map[uint64]bool{}
	for _, a := range ww.accepts {
		if a.Seq < seq || a.Exporter != exporter || a.Ledger != ledgerName {
			continue
		}
		for _, id := range a.acked() {
			out[id] = true
		}
	}
	return out
}

// lastResetSeq: the event number of the last reset of a pipeline ("" = of any pipeline), 0 if none.
func (ww *workerWorld) lastResetSeq(pipeline string) uint64 {
	return ww.lastResetBefore(^uint64(0), pipeline)
}

func (ww *workerWorld) lastResetBefore(event uint64, pipeline string) uint64 {
	ww.mu.Lock()
	defer ww.mu.Unlock()
	var seq uint64
	for _, r := range ww.resets {
		if r.Seq <= event && (pipeline == "" || r.Pipeline == pipeline) {
			seq = r.Seq
		}
	}
	return seq
}

// exporterName resolves the name the recording driver was configured with (AcceptRec.Exporter) from an
// exporter id, in a snapshot of the committed rows.
func exporterName(snap map[rowKey]any, id string) string {
	e, _ := snap[exporterKey(id)].(*ledger.Exporter)
	if e == nil {
		return ""
	}
	var cfg recConfig
	_ = json.Unmarshal(e.Config, &cfg)
	return cfg.Name
}

// quiescent: every committed log of every ledger with an enabled pipeline has been acknowledged since
// the last reset (used to end the run early; the liveness oracle is separate).
func (ww *workerWorld) quiescent(r *runner) bool {
	return len(ww.missing(r)) == 0
}

func (ww *workerWorld) missing(r *runner) []string {
	snap := r.w.db.CommittedSnapshot()
	var missing []string
	for k, v := range snap {
		if k.Table != "pipeline" {
			continue
		}
		p := v.(*ledger.Pipeline)
		if !p.Enabled {
			continue
		}
		x := exporterName(snap, p.ExporterID)
		acked := ww.ackedBy(x, p.Ledger, ww.lastResetSeq(p.ID))
		for lk, lv := range snap {
			if lk.Table == "log" && lk.Ledger == p.Ledger {
				id := lv.(*LogRow).ID
				if !acked[id] {
					missing = append(missing, fmt.Sprintf("%s>%s:%d", p.Ledger, x, id))
				}
			}
		}
	}
	sort.Strings(missing)
	return missing
}

// catchUpBudget: simulated time granted, once clients and faults have stopped, for the worker to deliver
// everything: several full retry cycles of the configured periods (each period may be stretched by 50%
// jitter) - never a bound expressed in steps while faults still flow.
func (ww *workerWorld) catchUpBudget() gotime.Duration {
	cycle := gotime.Duration(ww.spec.PullMs+ww.spec.PushRetryMs+ww.spec.SyncMs+ww.spec.BatchFlushMs) * gotime.Millisecond * 3 / 2
	return 6*cycle + 10*gotime.Second
}
