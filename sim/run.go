package sim

// One simulated run: scenario + plan (or exploration knobs) -> event log, outcomes, violations.

import (
	"context"
	"crypto/sha256"
	"encoding/base64"
	"encoding/hex"
	"encoding/json"
	"fmt"
	"math/rand"
	"regexp"
	"runtime/debug"
	"sort"
	"strings"
	"testing"
	"testing/synctest"
	"time"

	"github.com/google/uuid"
)

type Scenario struct {
	Property string      `json:"property"`
	Profile  string      `json:"profile"`
	Seed     uint64      `json:"seed"`
	Knobs    Knobs       `json:"knobs"`
	Setup    []Op        `json:"setup,omitempty"`
	Clients  [][]Op      `json:"clients,omitempty"`
	Post     []Op        `json:"post,omitempty"`
	Checks   []string    `json:"checks"`
	MaxSteps int         `json:"max_steps,omitempty"`
	Worker   *WorkerSpec `json:"worker,omitempty"`
	// free-form parameters of profile specific oracles
	Params map[string]string `json:"params,omitempty"`
}

type ExploreCfg struct {
	Seed      uint64      `json:"seed"`
	PreemptP  float64     `json:"preempt_p"`
	StallP    float64     `json:"stall_p,omitempty"`
	DelayP    float64     `json:"delay_p,omitempty"`
	FaultP    float64     `json:"fault_p"`
	BiasP     float64     `json:"bias_p,omitempty"`
	MaxFaults int         `json:"max_faults"`
	Kinds     []FaultKind `json:"kinds,omitempty"`
}

type Stats struct {
	Steps            int
	SimTime          time.Duration
	Commits          int
	Fired            map[FaultKind]int
	Probes           map[string]int
	TraceDigest      string
	Nontrivial       bool
	Crashes          int
	Leaked           bool
	PorcupineUnknown int
	// reach: how often each (request kind, store call) site was stepped through, and with which fault
	Sites      map[string]int
	SiteFaults map[string]int
}

type RunResult struct {
	Violations []Violation
	Digest     string
	Log        []string
	Results    []*OpResult
	Recorded   Plan
	Stats      Stats
	Harness    error
	// Unsupported: the SQL interpreter met a statement outside its grammar; the run decides nothing
	Unsupported string
	Yields      []YieldSite    // fault enumeration: the yields of the run that admit a fault
	Snapshot    map[rowKey]any // committed state at the end (only when Params["keep_snapshot"] is set)
	post        []func() ([]Violation, bool)
}

type runner struct {
	t             *testing.T
	w             *World
	sc            *Scenario
	inc           *Incarnation
	rec           *recorder
	results       []*OpResult
	byID          map[string]*OpResult
	exports       map[string]string
	viol          []Violation
	seenCommits   int
	state         map[rowKey]any // committed state as of the last examined commit
	bySig         map[string]*Op
	crashedOps    map[string]bool
	worker        *workerWorld
	phase         string
	running       int
	crashes       int
	doneLines     []string
	post          []func() ([]Violation, bool)
	imp           *importTrack
	started       map[string]*Op
	importCommits map[string]int
	committedBy   map[rowKey]string // (ids check) which request's commit added the row
}

func (r *runner) curInc() *Incarnation {
	r.w.mu.Lock()
	defer r.w.mu.Unlock()
	return r.inc
}

func (r *runner) has(check string) bool {
	for _, c := range r.sc.Checks {
		if c == check {
			return true
		}
	}
	return false
}

func (r *runner) addV(vs ...Violation) {
	r.viol = append(r.viol, vs...)
}

// execOp performs one client operation (called on a client goroutine).
func (r *runner) execOp(op *Op, phase string) {
	res := &OpResult{Op: op, Phase: phase}
	r.w.mu.Lock()
	r.started[op.ID] = op
	r.w.mu.Unlock()
	if op.Kind == KSleep {
		time.Sleep(time.Duration(op.SleepMs) * time.Millisecond)
		res.Out = Outcome{Class: "ok", Invoke: r.w.Event(), Return: r.w.Event()}
		r.w.mu.Lock()
		r.results = append(r.results, res)
		r.byID[op.ID] = res
		r.w.mu.Unlock()
		return
	}
	if op.Kind == KWalk {
		r.execWalk(op, res)
		return
	}
	if op.Kind == KRaw && r.worker != nil {
		// administrative requests refer to ids handed out by earlier answers
		cp := *op.Raw
		r.worker.mu.Lock()
		for k, v := range r.worker.vars {
			cp.Path = strings.ReplaceAll(cp.Path, "$"+k, v)
			cp.Body = strings.ReplaceAll(cp.Body, "$"+k, v)
		}
		r.worker.mu.Unlock()
		r.w.mu.Lock()
		r.w.adminInFlight++
		r.w.mu.Unlock()
		resp := r.w.Do(r.curInc(), op.ID, cp)
		r.w.mu.Lock()
		r.w.adminInFlight--
		r.w.mu.Unlock()
		res.Out = ParseOutcome(op, resp, resp.Hit)
		if op.Capture != "" && op.Capture != "reset" && res.Out.Class == "ok" {
			var d struct {
				ID string `json:"id"`
			}
			_ = json.Unmarshal(res.Out.Data, &d)
			r.worker.mu.Lock()
			r.worker.vars[op.Capture] = d.ID
			r.worker.mu.Unlock()
		}
		r.w.mu.Lock()
		r.results = append(r.results, res)
		r.byID[op.ID] = res
		r.doneLines = append(r.doneLines, fmt.Sprintf("done %s %s %s -> %s %d %s", op.ID, cp.Method, op.Raw.Path, res.Out.Class, res.Out.Status, res.Out.Code))
		r.w.mu.Unlock()
		return
	}
	if op.Kind == KImport && op.Remainder {
		// the client resumes after the last log the destination holds
		max := 0
		for k := range r.w.db.CommittedSnapshot() {
			if k.Table == "log" && k.Ledger == op.Ledger {
				if id := int(u64(strings.TrimLeft(k.Key, "0"))); id > max {
					max = id
				}
			}
		}
		op.ImportFrom = max + 1
	}
	r.w.mu.Lock()
	exports := map[string]string{}
	for k, v := range r.exports {
		exports[k] = v
	}
	r.w.mu.Unlock()
	req := op.Render(exports)
	resp := r.w.Do(r.curInc(), op.ID, req)
	res.Out = ParseOutcome(op, resp, resp.Hit)
	if op.Kind == KExport && res.Out.Class == "ok" {
		r.w.mu.Lock()
		r.exports[op.Ledger] = string(resp.Body)
		r.w.mu.Unlock()
	}
	r.w.mu.Lock()
	r.results = append(r.results, res)
	r.byID[op.ID] = res
	r.w.mu.Unlock()
	body := string(resp.Body)
	if len(body) > 160 {
		body = body[:160] + "..."
	}
	r.w.mu.Lock()
	r.doneLines = append(r.doneLines, fmt.Sprintf("done %s %s -> %s %d %s hit=%v", op.ID, op.Kind, res.Out.Class, res.Out.Status, res.Out.Code, res.Out.Hit))
	r.w.mu.Unlock()
}

// runPhase runs client op lists concurrently under the scheduler until all are finished or the system
// is stuck. It returns false if stuck.
func (r *runner) runPhase(phase string, clients [][]Op, explore *Explore) bool {
	r.phase = phase
	r.w.explore = explore
	r.w.quiet = false
	done := 0
	total := 0
	for ci, ops := range clients {
		if len(ops) == 0 {
			continue
		}
		total++
		ops := ops
		key := fmt.Sprintf("client:%s%d", phase, ci)
		r.w.Spawn(key, func(ctx context.Context) {
			for i := range ops {
				if f := r.w.Yield(ctx, "op-start", ops[i].ID); f != nil && f.Kind == FShutdown {
					return
				}
				r.execOp(&ops[i], phase)
			}
			r.w.mu.Lock()
			done++
			r.w.mu.Unlock()
		})
	}
	finished := func() bool {
		r.w.mu.Lock()
		defer r.w.mu.Unlock()
		return done == total
	}
	maxSteps := r.sc.MaxSteps
	if maxSteps == 0 {
		maxSteps = 4000
	}
	idle := 0
	idleTime := time.Duration(0)
	quantum := 37 * time.Millisecond
	doneAt := time.Duration(-1)
	for r.w.steps < maxSteps {
		if r.w.harness != nil {
			return true
		}
		if r.worker != nil && finished() {
			// the clients are done: give the worker a bounded amount of simulated time to catch up
			if doneAt < 0 {
				doneAt = r.w.simTime
				// faults and deliberate delays stop here: from now on the default policy runs whatever is
				// runnable, and only idle time counts against the liveness budget
				r.w.explore = nil
				r.w.quiet = true
			}
			if r.worker.quiescent(r) || r.w.simTime-doneAt > r.worker.catchUpBudget() {
				return true
			}
		}
		if r.w.Step() {
			idle = 0
			idleTime = 0
			quantum = 37 * time.Millisecond
			synctest.Wait()
			r.afterStep()
			continue
		}
		if finished() {
			if r.worker == nil || r.worker.quiescent(r) {
				return true
			}
		}
		// nothing runnable: let simulated time pass (timers: retries, pipelines)
		idle++
		idleTime += quantum
		if idle > 60 || (r.worker != nil && idleTime > r.worker.catchUpBudget()) {
			return finished()
		}
		r.w.sleep(quantum)
		if quantum < time.Minute {
			quantum *= 2
		}
	}
	return finished()
}

// afterStep examines the commits made by the last step (commit-sequence invariants).
func (r *runner) afterStep() {
	r.w.mu.Lock()
	lines := r.doneLines
	r.doneLines = nil
	for _, k := range r.w.selfWoken {
		lines = append(lines, "cancelled "+k)
	}
	r.w.selfWoken = nil
	r.w.mu.Unlock()
	sort.Strings(lines)
	for _, l := range lines {
		r.w.logf("%s", l)
	}
	recs := r.w.db.CommitsSince(r.seenCommits)
	for _, rec := range recs {
		r.seenCommits++
		var before map[rowKey]any
		if r.has("ids") {
			before = make(map[rowKey]any, len(r.state))
			for k, v := range r.state {
				before[k] = v
			}
		}
		for _, wr := range rec.Writes {
			if before != nil && wr.Before == nil && wr.After != nil && (wr.Key.Table == "tx" || wr.Key.Table == "log") {
				if r.committedBy == nil {
					r.committedBy = map[rowKey]string{}
				}
				r.committedBy[wr.Key] = opIDOf(rec.Task)
			}
			if wr.After == nil {
				delete(r.state, wr.Key)
			} else {
				r.state[wr.Key] = wr.After
			}
		}
		r.w.logf("commit %d by %s: %s", rec.Seq, rec.Task, commitSummary(rec))
		if r.has("overdraft") {
			r.addV(CheckOverdraftAtCommit(r.sc.Property, rec, r.bySig)...)
		}
		if r.has("conservation") {
			r.addV(CheckConservation(r.sc.Property, ViewOf(r.state), fmt.Sprintf("after commit %d", rec.Seq))...)
		}
		if r.has("import-exclusive") {
			r.addV(checkImportInterleave(r, rec)...)
		}
		if r.has("pcv") {
			r.addV(checkPCVAtCommit(r, rec)...)
		}
		if r.has("hash-chain") {
			r.addV(checkHashChain(r.sc.Property, ViewOf(r.state), fmt.Sprintf("after commit %d", rec.Seq))...)
		}
		if r.has("references") {
			r.addV(checkReferencesAtCommit(r.sc.Property, rec, r.state)...)
		}
		if r.has("ids") {
			r.addV(checkIDsAtCommit(r, rec, before)...)
		}
		if r.has("accounts") {
			r.addV(checkAccountsAtCommit(r.sc.Property, rec, r.w.fired[FClockJump] > 0)...)
		}
		if r.has("isolation") {
			r.addV(checkIsolationAtCommit(r, rec)...)
		}
	}
	if r.worker != nil && r.has("replication") {
		r.addV(r.worker.checkStep(r, recs)...)
	}
	if r.worker != nil && r.has("pipeline-reads-own-ledger") {
		r.addV(r.worker.checkOwn(r)...)
	}
}

func commitSummary(rec CommitRec) string {
	parts := make([]string, 0, len(rec.Writes))
	for _, w := range rec.Writes {
		k := strings.ReplaceAll(w.Key.Key, "\x00", "/")
		k = strings.TrimLeft(k, "0")
		parts = append(parts, w.Key.Table+":"+w.Key.Ledger+":"+k)
	}
	return strings.Join(parts, ",")
}

func indexSigs(sc *Scenario) map[string]*Op {
	m := map[string]*Op{}
	var add func(ledger string, op *Op)
	add = func(ledger string, op *Op) {
		l := op.Ledger
		if l == "" {
			l = ledger
		}
		if op.Kind == KBulk {
			for i := range op.Elements {
				add(l, &op.Elements[i])
			}
			return
		}
		k := l + "|" + op.sig()
		if _, dup := m[k]; !dup {
			m[k] = op
		}
	}
	for i := range sc.Setup {
		add("", &sc.Setup[i])
	}
	for _, c := range sc.Clients {
		for i := range c {
			add("", &c[i])
		}
	}
	for i := range sc.Post {
		add("", &sc.Post[i])
	}
	return m
}

// RunScenario executes the scenario in a fresh synctest bubble. plan != nil replays; explore != nil
// explores (recording the plan it generated).
func RunScenario(t *testing.T, sc *Scenario, plan *Plan, ex *ExploreCfg) (res *RunResult) {
	res = &RunResult{}
	defer func() {
		if p := recover(); p != nil {
			msg := fmt.Sprint(p)
			if strings.Contains(msg, "deadlock: main bubble goroutine has exited") {
				res.Stats.Leaked = true
				return
			}
			res.Harness = fmt.Errorf("panic in run: %v\n%s", p, debug.Stack())
		}
	}()
	synctest.Test(t, func(t *testing.T) {
		runInBubble(t, sc, plan, ex, res)
	})
	// checks that need real time or their own goroutines (porcupine) run outside the bubble
	for _, f := range res.post {
		vs, unknown := f()
		if unknown {
			res.Stats.PorcupineUnknown++
		}
		res.Violations = dedupViolations(append(res.Violations, vs...))
	}
	res.post = nil
	return res
}

func runInBubble(t *testing.T, sc *Scenario, plan *Plan, ex *ExploreCfg, res *RunResult) {
	w := NewWorld()
	w.lenientReads = sc.Params["lenient_reads"] == "1"
	w.realSQL = sc.Knobs.RealSQL
	w.recordYields = sc.Params["record_yields"] == "1"
	seed := sc.Seed
	if ex != nil {
		seed = ex.Seed
		sc.Seed = seed
	}
	base := NewRNG(seed)
	rand.Seed(int64(base.Derive(100).Uint64() >> 1))
	uuid.SetRand(base.Derive(101))
	defer uuid.SetRand(nil)

	r := &runner{t: t, w: w, sc: sc, byID: map[string]*OpResult{}, exports: map[string]string{}, state: map[rowKey]any{}, bySig: indexSigs(sc), crashedOps: map[string]bool{}, started: map[string]*Op{}, importCommits: map[string]int{}}
	lis, rec := w.NewListener(sc.Knobs)
	r.rec = rec
	if sc.Worker != nil {
		r.worker = newWorkerWorld(r, sc.Worker)
	}
	var repl = r.replBackend()
	r.inc = w.NewIncarnation(sc.Knobs, lis, repl)
	incs := []*Incarnation{r.inc}
	w.onCrash = func() {
		r.crashes++
		old := r.inc
		close(old.crashed)
		if r.worker != nil {
			r.worker.onCrash(r)
		}
		ninc := w.NewIncarnation(sc.Knobs, lis, r.replBackend())
		w.mu.Lock()
		r.inc = ninc
		w.mu.Unlock()
		incs = append(incs, ninc)
		if r.worker != nil {
			r.worker.start(r)
		}
	}
	if plan != nil {
		w.SetPlan(*plan)
	}
	var explore *Explore
	if ex != nil {
		kinds := map[FaultKind]bool{}
		for _, k := range ex.Kinds {
			kinds[k] = true
		}
		explore = &Explore{Sched: base.Derive(1), Fault: base.Derive(2), PreemptP: ex.PreemptP, StallP: ex.StallP, DelayP: ex.DelayP, FaultP: ex.FaultP, MaxFaults: ex.MaxFaults, Kinds: kinds, BiasP: ex.BiasP}
	}

	w.scheduling = true
	ok := true
	if len(sc.Setup) > 0 {
		ok = r.runPhase("setup", [][]Op{sc.Setup}, nil)
		if !ok {
			r.addV(Violation{sc.Property, "harness-setup-stuck", fmt.Sprintf("setup did not finish; parked=%v", w.ParkedKeys())})
		}
	}
	if ok && r.worker != nil {
		r.worker.start(r)
	}
	if ok {
		ok = r.runPhase("main", sc.Clients, explore)
		if !ok && w.harness == nil {
			r.addV(Violation{sc.Property, "progress-after-faults-stop", fmt.Sprintf("operations still pending after faults stopped and %v of simulated time; parked=%v", w.simTime, w.ParkedKeys())})
		}
	}
	if ok && sc.Params["restart-before-post"] != "" {
		w.Crash()
	}
	if ok && len(sc.Post) > 0 {
		ok = r.runPhase("post", [][]Op{sc.Post}, nil)
		if !ok && w.harness == nil {
			var pending []string
			for i := range sc.Post {
				if r.byID[sc.Post[i].ID] == nil {
					pending = append(pending, sc.Post[i].ID+":"+sc.Post[i].Kind)
				}
			}
			r.addV(Violation{sc.Property, "progress-after-faults-stop", fmt.Sprintf("post-phase operations never complete: %v; parked=%v", pending, w.ParkedKeys())})
		}
	}
	synctest.Wait()
	r.afterStep()
	sort.SliceStable(r.results, func(i, j int) bool { return r.results[i].Op.ID < r.results[j].Op.ID })
	// attribute fired faults to ops
	for _, f := range w.firedAt {
		if or := r.byID[opIDOf(f.Task)]; or != nil {
			or.Faults = append(or.Faults, f)
		}
		if f.Kind == FCrash {
			r.crashedOps[opIDOf(f.Task)] = true
		}
	}
	for _, or := range r.results {
		if or.Out.Class == "crashed" {
			r.crashedOps[or.Op.ID] = true
		}
	}
	r.finalChecks()

	res.Violations = dedupViolations(r.viol)
	res.post = r.post
	res.Log = append([]string(nil), w.log...)
	res.Digest = w.Digest()
	res.Results = r.results
	res.Recorded = w.recorded
	res.Harness = w.harness
	res.Yields = w.yields
	if sc.Params["keep_snapshot"] == "1" {
		res.Snapshot = w.db.CommittedSnapshot()
	}
	w.mu.Lock()
	res.Unsupported = w.sqlUnsupported
	w.mu.Unlock()
	w.db.mu.Lock()
	if res.Unsupported == "" {
		res.Unsupported = w.sqlUnsupportedTaint
	}
	w.db.mu.Unlock()
	if res.Unsupported != "" {
		res.Violations, res.post = nil, nil
	}
	h := sha256.New()
	for _, s := range w.trace {
		h.Write([]byte(s))
		h.Write([]byte{0})
	}
	w.mu.Lock()
	res.Stats = Stats{Steps: w.steps, SimTime: w.simTime, Commits: r.seenCommits, Fired: w.fired, Probes: w.probes, TraceDigest: hex.EncodeToString(h.Sum(nil))[:16], Crashes: r.crashes}
	switched := false
	for _, d := range w.recorded.Deviations {
		if d.SwitchTo != "" {
			switched = true
		}
	}
	if plan != nil {
		for _, d := range plan.Deviations {
			if d.SwitchTo != "" {
				switched = true
			}
		}
	}
	res.Stats.Nontrivial = w.probes["lock_wait"] > 0 || len(w.firedAt) > 0 || switched
	res.Stats.Sites, res.Stats.SiteFaults = map[string]int{}, map[string]int{}
	for _, st := range w.sites {
		kind := st[0]
		if op := r.started[opIDOf(st[0])]; op != nil {
			kind = op.Kind
			if op.Kind == KRaw && op.Raw != nil {
				kind = "raw"
			}
		} else if i := strings.IndexAny(kind, ":#"); i > 0 {
			kind = kind[:i] // pipeline:…, exporter:…, state:…, client:…
		} else if strings.HasPrefix(kind, "e") {
			kind = "bulk-element"
		}
		site := kind + "@" + st[1]
		res.Stats.Sites[site]++
		if st[2] != "" {
			res.Stats.SiteFaults[site+"!"+st[2]]++
		}
	}
	w.mu.Unlock()

	w.Shutdown()
	if r.worker != nil {
		r.worker.stop(r)
		synctest.Wait()
	}
	for _, inc := range incs {
		_ = inc.sqlDB.Close()
	}
	synctest.Wait()
}

func dedupViolations(vs []Violation) []Violation {
	seen := map[string]bool{}
	var out []Violation
	for _, v := range vs {
		k := v.Property + "|" + v.Clause + "|" + v.Detail
		if !seen[k] {
			seen[k] = true
			out = append(out, v)
		}
	}
	sort.SliceStable(out, func(i, j int) bool {
		if out[i].Clause != out[j].Clause {
			return out[i].Clause < out[j].Clause
		}
		return out[i].Detail < out[j].Detail
	})
	return out
}

// finalChecks runs the history oracles selected by the scenario.
func (r *runner) finalChecks() {
	sc := r.sc
	snap := r.w.db.CommittedSnapshot()
	views := ViewOf(snap)
	commits := r.w.db.CommitsSince(0)
	if r.has("logs-match-ops") {
		r.addV(CheckLogsMatchOps(sc.Property, views, r.results)...)
	}
	if r.has("replay") {
		r.addV(CheckReplay(sc.Property, views, r.has("schema-defaults"))...)
	}
	if r.has("conservation") {
		r.addV(CheckConservation(sc.Property, views, "final state")...)
	}
	if r.has("events") {
		r.addV(CheckEvents(sc.Property, commits, r.rec.Events(), r.crashedOps)...)
	}
	if r.has("reverts") {
		r.addV(CheckReverts(sc.Property, views)...)
		r.addV(checkRevertDates(r, views)...)
	}
	if r.has("log-order") {
		r.addV(CheckLogOrder(sc.Property, commits, views)...)
	}
	if r.has("pcv") {
		r.addV(checkPCVAnswers(r, views)...)
	}
	if r.has("hash-chain") {
		r.addV(checkHashChain(sc.Property, views, "final state")...)
	}
	if r.has("references") {
		r.addV(checkReferenceAnswers(r, views)...)
	}
	if r.has("ids") {
		r.addV(checkIDsFinal(r, views)...)
	}
	if r.has("accounts") {
		r.addV(checkAccounts(r, views)...)
	}
	if r.has("reads-stay-in-ledger") {
		r.addV(checkReadsStayInLedger(r, views)...)
	}
	if r.has("import-exclusive") {
		r.addV(checkWritesRacingImport(r)...)
	}
	if r.has("current-metadata") {
		r.addV(checkMetadataWritesSurvive(r, views)...)
	}
	if r.has("current-metadata") {
		r.addV(checkCurrentMetadata(r, views)...)
	}
	if r.has("feature-equivalence") {
		r.addV(checkFeatureEquivalence(r, views)...)
	}
	if r.has("no-5xx-without-fault") {
		r.addV(checkNo5xx(r)...)
	}
	if r.has("no-5xx-in-fault-free-runs") && r.sc.Params["faults"] == "" {
		// (C16: an id handed out twice surfaces as a unique violation, i.e. as a write refused with an internal error)
		for _, v := range checkNo5xx(r) {
			v.Clause = "a-write-is-never-refused-for-its-own-ids"
			r.addV(v)
		}
	}
	if r.has("import-reference") {
		r.addV(checkImportReference(r)...)
	}
	if r.has("conservation-reads") {
		r.addV(checkConservationReads(r)...)
	}
	if r.has("pit-reads") {
		r.addV(checkPITReads(r)...)
	}
	if r.has("volume-reads") {
		r.addV(checkVolumeReads(r)...)
	}
	if r.has("pagination") {
		r.addV(checkWalks(r)...)
	}
	if r.has("statements-stay-in-ledger") {
		r.addV(checkStatementsStayInLedger(r)...)
	}
	if r.has("reads-are-scoped") {
		r.addV(checkReadsAreScoped(r)...)
	}
	if r.has("metadata-at-pit") {
		r.addV(checkMetadataAtPIT(r)...)
	}
	if r.has("metadata-history-rows") {
		r.addV(checkMetadataHistoryRows(r)...)
	}
	if r.has("metadata-history-reads") {
		r.addV(checkMetadataHistoryReads(r)...)
	}
	if r.has("reads-respect-features") {
		r.addV(checkReadsRespectFeatures(r)...)
	}
	if r.has("replication") {
		r.addV(checkReplicationFinal(r)...)
	}
	if r.has("no-leaked-locks") {
		r.addV(checkNoLeaks(r)...)
	}
	r.profileChecks(views, commits)
}

// CheckLogOrder: log ids strictly increase in commit order (only where the store contract serialises
// log insertion: HASH_LOGS=SYNC ledgers), and the hash chain recomputes.
func CheckLogOrder(prop string, commits []CommitRec, views map[string]*LedgerView) []Violation {
	var vs []Violation
	last := map[string]uint64{}
	for _, c := range commits {
		ids := map[string][]uint64{}
		for _, w := range c.Writes {
			if w.Key.Table == "log" && w.Before == nil && w.After != nil {
				ids[w.Key.Ledger] = append(ids[w.Key.Ledger], w.After.(*LogRow).ID)
			}
		}
		for l, xs := range ids {
			if v := views[l]; v == nil || v.Feats["HASH_LOGS"] != "SYNC" {
				// without synchronous hashing nothing in the store contract serialises log insertion
				continue
			}
			sort.Slice(xs, func(i, j int) bool { return xs[i] < xs[j] })
			if xs[0] <= last[l] {
				vs = append(vs, Violation{prop, "log-ids-increase-in-commit-order", fmt.Sprintf("ledger %s: commit %d appends log %d after log %d was committed", l, c.Seq, xs[0], last[l])})
			}
			last[l] = xs[len(xs)-1]
		}
	}
	return vs
}

func checkNo5xx(r *runner) []Violation {
	var vs []Violation
	for _, or := range r.results {
		storeFault := false
		for _, f := range or.Faults {
			switch f.Kind {
			case FBodyCut, FBodyErr, FDisconnect:
			default:
				storeFault = true
			}
		}
		if storeFault {
			continue
		}
		switch or.Out.Class {
		case "server_err", "panic":
			what := or.Op.Kind
			if or.Op.Kind == KRaw && or.Op.Raw != nil {
				what = fmt.Sprintf("%s %s body=%s", or.Op.Raw.Method, or.Op.Raw.Path, truncate(or.Op.Raw.Body, 400))
			}
			vs = append(vs, Violation{r.sc.Property, "client-side-fault-never-answered-5xx", fmt.Sprintf("%s %s answered %d %s %s %s with faults %v%s", or.Op.ID, what, or.Out.Status, or.Out.Code, or.Out.Msg, or.Out.Class, or.Faults, requestShape(or.Op))})
		}
	}
	return vs
}

func checkNoLeaks(r *runner) []Violation {
	rows, adv, open := r.w.db.LockSummary()
	if rows == 0 && len(adv) == 0 && open == 0 {
		return nil
	}
	return []Violation{{r.sc.Property, "no-session-or-lock-held-after-response", fmt.Sprintf("after every request was answered: %d row locks, advisory locks %v, %d open transactions; parked=%v", rows, adv, open, r.w.ParkedKeys())}}
}

func maskID(path, id string) string {
	if id == "" {
		return path
	}
	return strings.ReplaceAll(path, id, "$pipeline")
}

// organicVictim: how often a statement of the request was aborted as the victim of an organic deadlock
// (a request that gave up after too many of them fails for that reason, whatever else it would have met).
func (r *runner) organicVictim(opID string) int {
	r.w.db.mu.Lock()
	defer r.w.db.mu.Unlock()
	return r.w.victims[opID]
}

// execWalk follows a listing's next cursors from the first page to the end (or MaxPages), then - if asked -
// the previous cursors back from the last page. Every page is one request of the same client task.
func (r *runner) execWalk(op *Op, res *OpResult) {
	ws := op.Walk
	base := "/v2/" + op.Ledger + "/" + ws.Resource
	first := base + fmt.Sprintf("?pageSize=%d", ws.PageSize)
	if ws.Sort != "" {
		first += "&sort=" + ws.Sort
	}
	max := ws.MaxPages
	if max == 0 {
		max = 40
	}
	fetch := func(dir, path string) (WalkPage, bool) {
		req := Request{Method: "GET", Path: path}
		if dir == "first" && ws.Filter != "" {
			req.Body, req.Header = ws.Filter, map[string]string{"Content-Type": "application/json"}
		}
		resp := r.w.Do(r.curInc(), op.ID, req)
		pg := WalkPage{Dir: dir, Status: resp.Status, Invoke: resp.Invoke, Return: resp.Return}
		if resp.Crashed || resp.Aborted || resp.Panic != "" {
			pg.Code = "no-answer"
			return pg, false
		}
		var env struct {
			Cursor struct {
				PageSize int               `json:"pageSize"`
				HasMore  bool              `json:"hasMore"`
				Next     string            `json:"next"`
				Previous string            `json:"previous"`
				Data     []json.RawMessage `json:"data"`
			} `json:"cursor"`
			ErrorCode string `json:"errorCode"`
		}
		dec := json.NewDecoder(strings.NewReader(string(resp.Body)))
		dec.UseNumber()
		_ = dec.Decode(&env)
		pg.Code = env.ErrorCode
		pg.HasMore, pg.Next, pg.Previous, pg.PageSize = env.Cursor.HasMore, env.Cursor.Next, env.Cursor.Previous, env.Cursor.PageSize
		for _, raw := range env.Cursor.Data {
			var it struct {
				ID      json.Number `json:"id"`
				Address string      `json:"address"`
				Account string      `json:"account"`
				Asset   string      `json:"asset"`
			}
			d := json.NewDecoder(strings.NewReader(string(raw)))
			d.UseNumber()
			_ = d.Decode(&it)
			if ws.Resource == "accounts" {
				pg.IDs = append(pg.IDs, it.Address)
			} else if ws.Resource == "volumes" {
				pg.IDs = append(pg.IDs, it.Account+"/"+it.Asset)
			} else {
				pg.IDs = append(pg.IDs, it.ID.String())
			}
		}
		return pg, resp.Status == 200
	}
	pg, ok := fetch("first", first)
	res.Pages = append(res.Pages, pg)
	for ok && pg.Next != "" && len(res.Pages) < max {
		pg, ok = fetch("next", base+"?cursor="+pg.Next)
		res.Pages = append(res.Pages, pg)
	}
	if ok && ws.Back {
		for n := 0; ok && pg.Previous != "" && n < max; n++ {
			pg, ok = fetch("prev", base+"?cursor="+pg.Previous)
			res.Pages = append(res.Pages, pg)
		}
	}
	res.Out = Outcome{Class: "ok", Status: 200, Invoke: res.Pages[0].Invoke, Return: res.Pages[len(res.Pages)-1].Return}
	if !ok {
		res.Out.Class, res.Out.Status, res.Out.Code = "client_err", pg.Status, pg.Code
		if pg.Status >= 500 || pg.Status == 0 {
			res.Out.Class = "server_err"
		}
	}
	r.w.mu.Lock()
	r.results = append(r.results, res)
	r.byID[op.ID] = res
	r.doneLines = append(r.doneLines, fmt.Sprintf("done %s walk %s size=%d sort=%s -> %d pages, last %d %s", op.ID, ws.Resource, ws.PageSize, ws.Sort, len(res.Pages), pg.Status, pg.Code))
	r.w.mu.Unlock()
}

var (
	reShapeNum = regexp.MustCompile(`[0-9]+`)
	reShapeKey = regexp.MustCompile(`"(\$[a-z]+)":\{"([a-z_]+)`)
)

// cursorColumn: "{column=<c>}" for a cursor that decodes to a JSON object naming a column, "" otherwise.
func cursorColumn(cursor string) string {
	raw, err := base64.RawURLEncoding.DecodeString(cursor)
	if err != nil {
		return ""
	}
	var c struct {
		Column string `json:"column"`
	}
	if json.Unmarshal(raw, &c) != nil || c.Column == "" {
		return ""
	}
	return "{column=" + c.Column + "}"
}

// requestShape: a stable tag for a raw request - method, path without its numbers, the names of its query
// parameters, the operator:field pairs of a filter body - so that different requests failing for different
// reasons are reported (and can be listed as known findings) separately.
func requestShape(op *Op) string {
	if op.Kind != KRaw || op.Raw == nil {
		return ""
	}
	path, query, _ := strings.Cut(op.Raw.Path, "?")
	var names []string
	for _, kv := range strings.Split(query, "&") {
		if kv == "" {
			continue
		}
		k, v, _ := strings.Cut(kv, "=")
		if k == "sort" || k == "expand" {
			k += "=" + v
		}
		if k == "cursor" {
			k += cursorColumn(v)
		}
		names = append(names, k)
	}
	if op.Raw.Method == "POST" && strings.Contains(op.Raw.Body, `"cursor"`) {
		var b struct {
			Cursor string `json:"cursor"`
		}
		if json.Unmarshal([]byte(op.Raw.Body), &b) == nil && b.Cursor != "" {
			names = append(names, "body.cursor"+cursorColumn(b.Cursor))
		}
	}
	sort.Strings(names)
	var keys []string
	for _, m := range reShapeKey.FindAllStringSubmatch(op.Raw.Body, -1) {
		keys = append(keys, m[1]+":"+m[2])
	}
	return fmt.Sprintf(" [%s %s ?%s %s]", op.Raw.Method, reShapeNum.ReplaceAllString(path, "N"), strings.Join(names, ","), strings.Join(keys, ","))
}
