package sim

// C32 (bulk semantics), C11 (export/import round trip), C12 (import exclusivity).

import (
	"fmt"
	"strings"

	ledger "github.com/formancehq/ledger/internal"
)

// Expect annotates an element with the answer the same request would get on its own, valid because
// the generator keeps concurrent clients on disjoint accounts and transactions: "ok" or an API error code.
func (g *gen) bulkElements(ledgerName, user string, targets []uint64, n int, parallel bool) ([]Op, []string) {
	var els []Op
	var expect []string
	usedTargets := 0
	for i := 0; i < n; i++ {
		acct := user
		if parallel {
			// elements of a parallel bulk touch disjoint accounts
			acct = fmt.Sprintf("%s:p%d", user, i)
		}
		var op Op
		exp := "ok"
		switch x := g.r.Intn(10); {
		case x < 3: // funded posting from world
			op = Op{Kind: KPostings, Postings: []PostingSpec{{"world", acct, g.amount(true), "USD"}}}
		case x < 4: // spend more than anything the account can have
			op = Op{Kind: KPostings, Postings: []PostingSpec{{acct + ":poor", "bank", "1000000", "USD"}}}
			exp = "INSUFFICIENT_FUND"
		case x < 5:
			op = Op{Kind: KScript, Script: fmt.Sprintf("send [USD %d] (\n  source = @world\n  destination = @%s\n)\n", 1+g.r.Intn(50), acct)}
		case x < 6 && usedTargets < len(targets) && !parallel:
			op = Op{Kind: KRevert, TxID: targets[usedTargets], Force: true}
			usedTargets++
		case x < 7:
			op = Op{Kind: KRevert, TxID: 999999, Force: true}
			exp = "NOT_FOUND"
		case x < 8:
			op = Op{Kind: KAcctMetaSet, Address: acct}
			if !parallel && g.txN > 0 && g.r.Chance(0.4) {
				op = Op{Kind: KTxMetaSet, TxID: 1 + uint64(g.r.Intn(int(g.txN)))}
			}
		case x < 9 && len(g.delKeys) > 0 && !parallel && g.r.Chance(0.6):
			// a delete that succeeds: a key that setup put on a transaction, handed out once
			k := g.delKeys[0]
			g.delKeys = g.delKeys[1:]
			op = delSetupKey(g, ledgerName, u64(k[0]), k[1])
		case x < 9:
			op = Op{Kind: KTxMetaDel, TxID: 1}
			exp = "NOT_FOUND"
		default:
			op = Op{Kind: KAcctMetaDel, Address: acct}
		}
		op.ID = g.id("e")
		op.Ledger = ledgerName
		switch op.Kind {
		case KAcctMetaSet, KTxMetaSet:
			op.Metadata = map[string]string{"m." + op.ID: Pick(g.r, weird)}
		case KTxMetaDel, KAcctMetaDel:
			if op.Key == "" {
				op.Key = "d." + op.ID
			}
		}
		op.Expect = exp
		els = append(els, op)
		expect = append(expect, exp)
	}
	return els, expect
}

func init() {
	register(Profile{Property: "C32", Name: "bulk", Gen: func(r *RNG, seed uint64, tier string) (*Scenario, *ExploreCfg) {
		sc := &Scenario{Property: "C32", Profile: "bulk", Knobs: randomKnobs(r), Checks: []string{"logs-match-ops", "replay", "bulk", "events"}, Params: map[string]string{}}
		g := &gen{r: r, sc: sc}
		sc.Setup = g.baseSetup("l1", "100", 4)
		txID := uint64(0)
		for _, so := range sc.Setup {
			if so.Kind != KPostings {
				continue
			}
			txID++
			for k := range so.Metadata {
				if k == "d.k"+so.ID {
					g.delKeys = append(g.delKeys, [2]string{fmt.Sprint(txID), so.ID})
				}
			}
		}
		nc := 1 + r.Intn(2)
		nextTarget := uint64(3) // extra txs are ids 3..6 (two funding txs first)
		for c := 0; c < nc; c++ {
			var ops []Op
			nb := 1 + r.Intn(2)
			for b := 0; b < nb; b++ {
				op := Op{ID: fmt.Sprintf("c%d.%d", c, b), Kind: KBulk, Ledger: "l1"}
				// every combination of the three options (atomic+parallel is refused as a whole)
				op.Atomic = r.Chance(0.35)
				op.ContinueOnFailure = r.Chance(0.4)
				op.Parallel = r.Chance(0.3)
				if op.Atomic && op.Parallel && r.Chance(0.8) {
					op.Parallel = false
				}
				if r.Chance(0.3) {
					op.ContentType = "json-stream"
				}
				var targets []uint64
				if nextTarget <= 6 {
					targets = []uint64{nextTarget}
					nextTarget++
				}
				els, exp := g.bulkElements("l1", fmt.Sprintf("b%d", c), targets, 2+r.Intn(4), op.Parallel)
				op.Elements = els
				sc.Params["expect:"+op.ID] = strings.Join(exp, ",")
				ops = append(ops, op)
			}
			sc.Clients = append(sc.Clients, ops)
		}
		ex := defaultExplore(seed, 0, 0)
		if r.Chance(0.35) {
			ex = defaultExplore(seed, 0.03, 2, FStmtErr, FConnLost, FDeadlock, FCommitClean, FDisconnect)
		}
		return sc, ex
	}})
}

// checkBulk implements the C32 clauses on the recorded history.
func checkBulk(r *runner, views map[string]*LedgerView) []Violation {
	var vs []Violation
	prop := r.sc.Property
	for _, or := range r.results {
		op := or.Op
		if op.Kind != KBulk {
			continue
		}
		if uncertain(or) || or.Out.Class == "server_err" || or.Out.Class == "crashed" {
			continue
		}
		faulted := len(or.Faults) > 0
		v := views[op.Ledger]
		has := map[string]int{}
		if v != nil {
			for _, lr := range v.Logs {
				if li, err := logInfo(lr); err == nil {
					has[li.Sig]++
				}
			}
		}
		n := len(op.Elements)
		if len(or.Out.Bulk) != n {
			if or.Out.Class == "client_err" && len(or.Out.Bulk) == 0 {
				continue // rejected as a whole
			}
			vs = append(vs, Violation{prop, "one-result-per-element", fmt.Sprintf("%s: %d elements but %d results", op.ID, n, len(or.Out.Bulk))})
			continue
		}
		applied := 0
		for i := range op.Elements {
			if has[op.Elements[i].sig()] > 0 {
				applied++
			}
		}
		anyFail := false
		for _, e := range or.Out.Bulk {
			if !e.OK {
				anyFail = true
			}
		}
		if op.Atomic && anyFail && applied != 0 && !faulted {
			vs = append(vs, Violation{prop, "atomic-bulk-all-or-nothing", fmt.Sprintf("%s: an element failed but %d of %d elements are applied", op.ID, applied, n)})
		}
		if op.Atomic && applied != 0 && applied != n {
			vs = append(vs, Violation{prop, "atomic-bulk-all-or-nothing", fmt.Sprintf("%s: %d of %d elements applied", op.ID, applied, n)})
		}
		expect := make([]string, len(op.Elements))
		for i := range op.Elements {
			expect[i] = op.Elements[i].Expect
		}
		firstFail := -1
		for i, e := range or.Out.Bulk {
			if !e.OK && firstFail < 0 {
				firstFail = i
			}
		}
		for i := range op.Elements {
			el := &op.Elements[i]
			e := or.Out.Bulk[i]
			// result i describes element i
			wantType := map[string]string{KPostings: "CREATE_TRANSACTION", KScript: "CREATE_TRANSACTION", KRevert: "REVERT_TRANSACTION",
				KAcctMetaSet: "ADD_METADATA", KTxMetaSet: "ADD_METADATA", KTxMetaDel: "DELETE_METADATA", KAcctMetaDel: "DELETE_METADATA"}[el.Kind]
			if e.OK {
				if e.Type != wantType {
					vs = append(vs, Violation{prop, "result-i-describes-element-i", fmt.Sprintf("%s element %d is %s but its result is of type %s", op.ID, i, el.Kind, e.Type)})
				}
				if (el.Kind == KPostings || el.Kind == KScript) && e.Tx != nil && e.Tx.Metadata[sigKey] != el.sig() {
					vs = append(vs, Violation{prop, "result-i-describes-element-i", fmt.Sprintf("%s element %d (%s): result carries the transaction of element %q", op.ID, i, el.sig(), e.Tx.Metadata[sigKey])})
				}
				if el.Kind == KRevert && e.Tx != nil && e.Tx.Metadata["com.formance.spec/state/reverts"] != fmt.Sprint(el.TxID) {
					vs = append(vs, Violation{prop, "result-i-describes-element-i", fmt.Sprintf("%s element %d reverts %d but result is %v", op.ID, i, el.TxID, e.Tx.Metadata)})
				}
			}
			if faulted {
				continue
			}
			// each result equals what the request alone would get
			if i < len(expect) && expect[i] != "" {
				skipped := !op.Parallel && !op.ContinueOnFailure && firstFail >= 0 && i > firstFail
				atomicAbort := op.Atomic && firstFail >= 0
				switch {
				case skipped:
					if e.OK {
						vs = append(vs, Violation{prop, "no-element-applied-after-first-failure", fmt.Sprintf("%s: element %d answered ok after element %d failed (no continueOnFailure)", op.ID, i, firstFail)})
					}
				case expect[i] == "ok" && !e.OK && !atomicAbort && !op.Parallel:
					vs = append(vs, Violation{prop, "element-result-equals-standalone", fmt.Sprintf("%s element %d (%s) should succeed on its own but got %s %s", op.ID, i, el.Kind, e.Code, e.Msg)})
				case expect[i] == "ok" && !e.OK && op.Parallel && (op.ContinueOnFailure || firstFail < 0):
					vs = append(vs, Violation{prop, "element-result-equals-standalone", fmt.Sprintf("%s element %d (%s) should succeed on its own but got %s %s", op.ID, i, el.Kind, e.Code, e.Msg)})
				case expect[i] != "ok" && e.OK:
					vs = append(vs, Violation{prop, "element-result-equals-standalone", fmt.Sprintf("%s element %d (%s) should fail with %s but succeeded", op.ID, i, el.Kind, expect[i])})
				case expect[i] != "ok" && !e.OK && e.Code != expect[i] && !(e.Code == "INTERNAL" && skipped):
					if !(op.Parallel && !op.ContinueOnFailure) { // a parallel bulk may cancel elements after a failure
						vs = append(vs, Violation{prop, "element-result-equals-standalone", fmt.Sprintf("%s element %d (%s) should fail with %s but failed with %s %s", op.ID, i, el.Kind, expect[i], e.Code, e.Msg)})
					}
				}
			}
			// effects: sequential non atomic
			if !op.Atomic && !op.Parallel && !faulted {
				shouldApply := e.OK
				if shouldApply && has[el.sig()] == 0 {
					vs = append(vs, Violation{prop, "successful-element-is-applied", fmt.Sprintf("%s element %d answered ok but has no effect", op.ID, i)})
				}
				if !shouldApply && has[el.sig()] > 0 {
					vs = append(vs, Violation{prop, "failed-element-not-applied", fmt.Sprintf("%s element %d answered an error but has an effect", op.ID, i)})
				}
			}
		}
	}
	return vs
}

var _ = ledger.WORLD
