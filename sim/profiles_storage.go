package sim

// Profiles and oracles for the properties that became decidable (within stated limits) once the write
// path of internal/storage/ledger runs for real over the SQL interpreter (DESIGN.md section 15):
//   C03 post-commit volumes and moves      C09 hash chain linear under concurrency
//   C14 transaction references unique      C16 ids unique / ordered / independent
//   C18 account existence and first usage  C19 no write crosses a ledger boundary
// Every oracle here is a commit-sequence invariant or a final-state check over simpg's committed rows; none
// of them reads through the repository's read SQL (which does not run here).

import (
	"bytes"
	"fmt"
	"math/big"
	"sort"
	"strings"
	gotime "time"

	"github.com/formancehq/go-libs/v5/pkg/types/pointer"

	ledger "github.com/formancehq/ledger/internal"
)

// ---------------------------------------------------------------- generators

func storageFaults(r *RNG, seed uint64, p float64) *ExploreCfg {
	ex := defaultExplore(seed, 0, 0)
	if r.Chance(p) {
		ex = defaultExplore(seed, 0.03, 3, FDeadlock, FStmtErr, FConnLost, FCommitClean, FCommitAmbiguous, FCrash, FDisconnect)
	}
	return ex
}

// featureMix draws a feature set for a ledger (nil = defaults).
func featureMix(r *RNG, hash string) map[string]string {
	f := map[string]string{}
	if hash != "" && hash != "SYNC" {
		f["HASH_LOGS"] = hash
	}
	if r.Chance(0.3) {
		f["MOVES_HISTORY"] = "OFF"
		f["MOVES_HISTORY_POST_COMMIT_EFFECTIVE_VOLUMES"] = "DISABLED"
	} else if r.Chance(0.3) {
		f["MOVES_HISTORY_POST_COMMIT_EFFECTIVE_VOLUMES"] = "DISABLED"
	}
	if r.Chance(0.3) {
		f["ACCOUNT_METADATA_HISTORY"] = "DISABLED"
	}
	if r.Chance(0.3) {
		f["TRANSACTION_METADATA_HISTORY"] = "DISABLED"
	}
	if len(f) == 0 {
		return nil
	}
	return f
}

func (g *gen) timestamp() string {
	// back-dated, equal and future-dated effective timestamps around the simulated "now" (2000-01-01)
	return Pick(g.r, []string{"1999-12-31T23:59:59Z", "1999-06-01T00:00:00Z", "1999-06-01T00:00:00Z", "1990-01-01T12:00:00.123456Z", "2000-01-02T00:00:00Z", "2030-01-01T00:00:00Z"})
}

func init() {
	// C03: transactions touching the same account several times, source == destination, several
	// transactions in one SQL transaction (atomic bulks), concurrent writers on shared accounts.
	register(Profile{Property: "C03", Name: "post-commit-volumes", Gen: func(r *RNG, seed uint64, tier string) (*Scenario, *ExploreCfg) {
		sc := &Scenario{Property: "C03", Profile: "post-commit-volumes", Knobs: randomKnobs(r), Checks: []string{"pcv", "conservation", "logs-match-ops"}}
		g := &gen{r: r, sc: sc}
		feats := featureMix(r, sc.Knobs.HashLogs)
		sc.Setup = []Op{{ID: g.id("s"), Kind: KCreateLedger, Ledger: "l1", Feats: feats}}
		for _, a := range assets {
			var ps []PostingSpec
			for _, u := range users {
				ps = append(ps, PostingSpec{"world", u, "500", a})
			}
			sc.Setup = append(sc.Setup, Op{ID: g.id("s"), Kind: KPostings, Ledger: "l1", Postings: ps})
			g.txN++
		}
		nc := 1 + r.Intn(3)
		for c := 0; c < nc; c++ {
			var ops []Op
			n := 1 + r.Intn(4)
			for i := 0; i < n; i++ {
				var op Op
				switch x := r.Intn(10); {
				case x < 5:
					op = g.postingsOp("l1", 4, true, r.Chance(0.2))
					// make repeated accounts and self postings frequent
					for j := range op.Postings {
						if r.Chance(0.3) {
							op.Postings[j].Destination = op.Postings[j].Source
						}
						if j > 0 && r.Chance(0.4) {
							op.Postings[j].Source = op.Postings[j-1].Destination
							op.Postings[j].Asset = op.Postings[j-1].Asset
						}
					}
					if r.Chance(0.3) {
						op.Timestamp = g.timestamp()
					}
				case x < 7:
					op = g.scriptOp("l1")
				case x < 8:
					op = g.revertOp("l1", 1+uint64(r.Intn(int(g.txN))))
				default:
					op = Op{Kind: KBulk, Ledger: "l1", Atomic: true}
					for e := 0; e < 2+r.Intn(2); e++ {
						el := g.postingsOp("l1", 2, true, false)
						el.ID = g.id("e")
						el.Force = true
						op.Elements = append(op.Elements, el)
					}
				}
				op.ID = fmt.Sprintf("c%d.%d", c, i)
				ops = append(ops, op)
			}
			sc.Clients = append(sc.Clients, ops)
		}
		return sc, storageFaults(r, seed, 0.4)
	}})

	// C09: concurrent writers of every kind on a ledger that hashes its logs synchronously.
	register(Profile{Property: "C09", Name: "hash-chain", Gen: func(r *RNG, seed uint64, tier string) (*Scenario, *ExploreCfg) {
		sc := mixedScenario(r, "C09", "hash-chain", mixOpts{clients: [2]int{2, 4}, opsPer: [2]int{1, 4}, wPostings: 4, wScript: 2, wRevert: 2, wMeta: 4, wIK: 0.1,
			funds: "300", extraTx: 3, v1: 0.1, wBulk: 1, pristine: 0.2, forceSync: true}, "hash-chain", "logs-match-ops", "log-order")
		if r.Chance(0.4) {
			// hashing is decided by HASH_LOGS alone: the other features of the ledger switched off in every
			// combination (wave 15, C09d: the hash trigger installed under another feature's condition)
			for i := range sc.Setup {
				if sc.Setup[i].Kind == KCreateLedger {
					sc.Setup[i].Feats = featureMix(r, "SYNC")
				}
			}
		}
		ex := defaultExplore(seed, 0, 0)
		if r.Chance(0.5) {
			ex = defaultExplore(seed, 0.03, 3, FDeadlock, FStmtErr, FConnLost, FCommitClean, FCommitAmbiguous, FCrash, FDisconnect)
		}
		ex.PreemptP = 0.5
		return sc, ex
	}})

	// C14: creates (postings, scripts, bulk elements) sharing a small pool of references on two ledgers of
	// one bucket; every such write draws from world so that the reference is the only thing that can refuse it.
	register(Profile{Property: "C14", Name: "references", Gen: func(r *RNG, seed uint64, tier string) (*Scenario, *ExploreCfg) {
		sc := &Scenario{Property: "C14", Profile: "references", Knobs: randomKnobs(r), Checks: []string{"references", "logs-match-ops"}}
		g := &gen{r: r, sc: sc}
		ledgers := []string{"l1", "l2"}
		for _, l := range ledgers {
			sc.Setup = append(sc.Setup, Op{ID: g.id("s"), Kind: KCreateLedger, Ledger: l, Feats: ledgerFeatures(sc.Knobs)})
		}
		if r.Chance(0.5) {
			// a reference that is already taken before the concurrent phase
			sc.Setup = append(sc.Setup, Op{ID: g.id("s"), Kind: KPostings, Ledger: "l1", Reference: "ref-0", Postings: []PostingSpec{{"world", "u:1", "5", "USD"}}})
		}
		refs := []string{"ref-0", "ref-1", `ref "q" é`}
		nc := 2 + r.Intn(3)
		for c := 0; c < nc; c++ {
			var ops []Op
			n := 1 + r.Intn(3)
			for i := 0; i < n; i++ {
				l := Pick(r, ledgers)
				mk := func(id string) Op {
					var op Op
					if r.Chance(0.3) {
						op = Op{Kind: KScript, Ledger: l, Script: fmt.Sprintf("send [USD %d] (\n  source = @world\n  destination = @%s\n)\n", 1+r.Intn(50), Pick(r, users))}
					} else {
						op = Op{Kind: KPostings, Ledger: l, Postings: []PostingSpec{{"world", Pick(r, users), g.amount(true), "USD"}}}
					}
					op.ID = id
					if r.Chance(0.75) {
						op.Reference = Pick(r, refs)
					}
					return op
				}
				var op Op
				if r.Chance(0.2) {
					op = Op{Kind: KBulk, Ledger: l, Atomic: r.Bool(), ContinueOnFailure: r.Bool()}
					for e := 0; e < 2; e++ {
						op.Elements = append(op.Elements, mk(g.id("e")))
					}
				} else {
					op = mk("")
					if r.Chance(0.15) {
						op.API = "v1"
					}
				}
				op.ID = fmt.Sprintf("c%d.%d", c, i)
				ops = append(ops, op)
			}
			sc.Clients = append(sc.Clients, ops)
		}
		ex := defaultExplore(seed, 0, 0)
		if r.Chance(0.35) {
			ex = defaultExplore(seed, 0.03, 2, FDeadlock, FStmtErr, FConnLost, FCommitClean, FDisconnect, FCrash)
		}
		ex.PreemptP = 0.5
		return sc, ex
	}})

	// C16: concurrent writers on two ledgers of one bucket, on shared and on disjoint accounts, with
	// writes that fail and roll back (and so burn sequence values).
	register(Profile{Property: "C16", Name: "ids", Gen: func(r *RNG, seed uint64, tier string) (*Scenario, *ExploreCfg) {
		sc := &Scenario{Property: "C16", Profile: "ids", Knobs: randomKnobs(r), Checks: []string{"ids", "logs-match-ops", "no-5xx-in-fault-free-runs"}, Params: map[string]string{}}
		g := &gen{r: r, sc: sc}
		ledgers := []string{"l1", "l2"}
		for _, l := range ledgers {
			sc.Setup = append(sc.Setup, Op{ID: g.id("s"), Kind: KCreateLedger, Ledger: l, Feats: ledgerFeatures(sc.Knobs)})
		}
		nc := 2 + r.Intn(3)
		for c := 0; c < nc; c++ {
			var ops []Op
			n := 1 + r.Intn(4)
			for i := 0; i < n; i++ {
				l := Pick(r, ledgers)
				var op Op
				switch x := r.Intn(10); {
				case x < 4: // disjoint accounts: nothing but the log lock orders these writers
					op = Op{Kind: KPostings, Ledger: l, Force: true, Postings: []PostingSpec{{fmt.Sprintf("src:c%d", c), fmt.Sprintf("dst:c%d", c), g.amount(true), "USD"}}}
				case x < 7: // shared source row
					op = Op{Kind: KPostings, Ledger: l, Postings: []PostingSpec{{"world", Pick(r, users), g.amount(true), "USD"}}}
				case x < 8: // fails after having drawn its ids? (insufficient funds is detected before any insert)
					op = Op{Kind: KPostings, Ledger: l, Postings: []PostingSpec{{"poor:1", "bank", "1000", "USD"}}}
				case x < 9:
					op = Op{Kind: KAcctMetaSet, Ledger: l, Address: Pick(r, users)}
					if r.Chance(0.4) {
						// the same request under the same idempotency key on both ledgers of the bucket: each ledger
						// answers with a transaction of its own (wave 15, C16d)
						op = Op{Kind: KPostings, Ledger: l, IK: "k-shared", Sig: "k-shared", Postings: []PostingSpec{{"world", "u:1", "7", "USD"}}}
					}
				default:
					op = Op{Kind: KBulk, Ledger: l, Atomic: true}
					for e := 0; e < 2; e++ {
						el := Op{ID: g.id("e"), Kind: KPostings, Ledger: l, Postings: []PostingSpec{{"world", Pick(r, users), g.amount(true), "USD"}}}
						if e == 1 && r.Chance(0.5) {
							// the second element fails: the first one's ids are burnt
							el.Postings = []PostingSpec{{"poor:1", "bank", "1000", "USD"}}
						}
						op.Elements = append(op.Elements, el)
					}
				}
				op.ID = fmt.Sprintf("c%d.%d", c, i)
				if op.Kind == KAcctMetaSet {
					op.Metadata = map[string]string{"m." + op.ID: "v"}
				}
				ops = append(ops, op)
			}
			sc.Clients = append(sc.Clients, ops)
		}
		ex := defaultExplore(seed, 0, 0)
		if r.Chance(0.3) {
			ex = defaultExplore(seed, 0.03, 2, FDeadlock, FStmtErr, FConnLost, FCommitClean, FDisconnect)
			sc.Params["faults"] = "1"
		}
		ex.PreemptP = 0.5
		return sc, ex
	}})

	// C18: back-dated and future-dated transactions, metadata-only accounts, accounts touched again later.
	register(Profile{Property: "C18", Name: "accounts", Gen: func(r *RNG, seed uint64, tier string) (*Scenario, *ExploreCfg) {
		sc := &Scenario{Property: "C18", Profile: "accounts", Knobs: randomKnobs(r), Checks: []string{"accounts", "logs-match-ops"}}
		g := &gen{r: r, sc: sc}
		sc.Setup = []Op{{ID: g.id("s"), Kind: KCreateLedger, Ledger: "l1", Feats: featureMix(r, sc.Knobs.HashLogs)}}
		accts := []string{"a:1", "a:2", "a:3", "only:meta"}
		nc := 1 + r.Intn(3)
		for c := 0; c < nc; c++ {
			var ops []Op
			n := 2 + r.Intn(4)
			for i := 0; i < n; i++ {
				var op Op
				switch x := r.Intn(10); {
				case x < 5:
					op = Op{Kind: KPostings, Ledger: "l1", Postings: []PostingSpec{{"world", Pick(r, accts[:3]), g.amount(true), "USD"}}}
					if r.Chance(0.3) {
						op.Postings = append(op.Postings, PostingSpec{op.Postings[0].Destination, Pick(r, accts[:3]), "1", "USD"})
					}
					if r.Chance(0.6) {
						op.Timestamp = g.timestamp()
					}
				case x < 6:
					dst := Pick(r, accts[:3])
					op = Op{Kind: KScript, Ledger: "l1", Script: fmt.Sprintf("send [USD %d] (\n  source = @world\n  destination = @%s\n)\nset_account_meta(@%s, \"k\", \"v\")\n", 1+r.Intn(50), dst, Pick(r, accts))}
					if r.Chance(0.5) {
						op.Timestamp = g.timestamp()
					}
				case x < 8:
					op = Op{Kind: KAcctMetaSet, Ledger: "l1", Address: Pick(r, accts)}
				case x < 9:
					op = Op{Kind: KAcctMetaDel, Ledger: "l1", Address: Pick(r, append(append([]string{}, accts...), "never:seen"))}
				default:
					op = Op{Kind: KPostings, Ledger: "l1", Postings: []PostingSpec{{"poor:1", "a:1", "1000", "USD"}}} // fails: creates nothing
				}
				op.ID = fmt.Sprintf("c%d.%d", c, i)
				switch op.Kind {
				case KAcctMetaSet:
					op.Metadata = map[string]string{"m." + op.ID: "v"}
				case KAcctMetaDel:
					op.Key = "d." + op.ID
				}
				ops = append(ops, op)
			}
			sc.Clients = append(sc.Clients, ops)
		}
		return sc, storageFaults(r, seed, 0.35)
	}})

	// C19: three ledgers sharing a bucket (and one alone in another), same account names, references,
	// idempotency keys and transaction ids everywhere; a ledger is added to the bucket mid-history.
	register(Profile{Property: "C19", Name: "write-isolation", Gen: func(r *RNG, seed uint64, tier string) (*Scenario, *ExploreCfg) {
		sc := &Scenario{Property: "C19", Profile: "write-isolation", Knobs: randomKnobs(r), Checks: []string{"isolation", "logs-match-ops", "replay", "conservation", "statements-stay-in-ledger", "reads-are-scoped"}}
		g := &gen{r: r, sc: sc}
		ledgers := []string{"l1", "l2", "l3", "solo"}
		for _, l := range ledgers[:2] {
			sc.Setup = append(sc.Setup, Op{ID: g.id("s"), Kind: KCreateLedger, Ledger: l, Feats: ledgerFeatures(sc.Knobs)})
		}
		sc.Setup = append(sc.Setup, Op{ID: g.id("s"), Kind: KCreateLedger, Ledger: "solo", Feats: ledgerFeatures(sc.Knobs), Bucket: "other"})
		for _, l := range []string{"l1", "l2", "solo"} {
			sc.Setup = append(sc.Setup, Op{ID: g.id("s"), Kind: KPostings, Ledger: l, Postings: []PostingSpec{{"world", "u:1", "100", "USD"}, {"world", "u:2", "100", "USD"}}})
		}
		nc := 2 + r.Intn(2)
		for c := 0; c < nc; c++ {
			var ops []Op
			if c == 0 {
				// the bucket gets one more ledger while the others are being written
				ops = append(ops, Op{ID: fmt.Sprintf("c%d.new", c), Kind: KCreateLedger, Ledger: "l3", Feats: ledgerFeatures(sc.Knobs), Keep: true})
			}
			n := 2 + r.Intn(4)
			for i := 0; i < n; i++ {
				l := Pick(r, []string{"l1", "l2", "solo"})
				if c == 0 && r.Chance(0.4) {
					l = "l3"
				}
				var op Op
				switch x := r.Intn(10); {
				case x < 4:
					op = Op{Kind: KPostings, Ledger: l, Postings: []PostingSpec{{"world", Pick(r, users[:2]), g.amount(true), "USD"}}}
					if r.Chance(0.4) {
						op.Reference = Pick(r, []string{"ref-a", "ref-b"})
					}
				case x < 5:
					op = Op{Kind: KPostings, Ledger: l, Postings: []PostingSpec{{"u:1", "u:2", g.amount(true), "USD"}}}
				case x < 6 && l != "l3":
					op = Op{Kind: KRevert, Ledger: l, TxID: 1, Force: true}
				case x < 7 && l != "l3":
					op = Op{Kind: KTxMetaSet, Ledger: l, TxID: 1}
				case x < 8 && l != "l3":
					op = Op{Kind: KTxMetaDel, Ledger: l, TxID: 1}
				case x < 9:
					op = Op{Kind: KAcctMetaSet, Ledger: l, Address: "u:1"}
				default:
					op = Op{Kind: KAcctMetaDel, Ledger: l, Address: "u:1"}
				}
				if op.Kind == "" {
					op = Op{Kind: KAcctMetaSet, Ledger: l, Address: "u:1"}
				}
				op.ID = fmt.Sprintf("c%d.%d", c, i)
				switch op.Kind {
				case KAcctMetaSet, KTxMetaSet:
					op.Metadata = map[string]string{"m." + op.ID: "v", "shared": "of-" + l}
				case KAcctMetaDel, KTxMetaDel:
					op.Key = "shared"
					op.Sig = "" // identified by its key below
					op.Key = "d." + op.ID
				}
				if r.Chance(0.25) && op.Kind != KRevert {
					op.IK = Pick(r, []string{"ik-a", "ik-b"}) + "-" + op.Kind // same keys on every ledger
				}
				ops = append(ops, op)
			}
			sc.Clients = append(sc.Clients, ops)
		}
		return sc, storageFaults(r, seed, 0.3)
	}})
}

// ---------------------------------------------------------------- oracles

func volKeyParts(k rowKey) (account, asset string) {
	parts := strings.SplitN(k.Key, "\x00", 2)
	if len(parts) != 2 {
		return k.Key, ""
	}
	return parts[0], parts[1]
}

func volOfRow(v any) (in, out *big.Int) {
	if r, ok := v.(*VolRow); ok && r != nil {
		return new(big.Int).Set(r.Input), new(big.Int).Set(r.Output)
	}
	return new(big.Int), new(big.Int)
}

func sameVolumes(a ledger.Volumes, in, out *big.Int) bool {
	return a.Input != nil && a.Output != nil && a.Input.Cmp(in) == 0 && a.Output.Cmp(out) == 0
}

// checkPCVAtCommit (C03): for the transactions a commit adds, taken in id order, the stored post-commit
// volumes are the committed volumes right before the commit plus the postings applied so far; nothing but
// the touched (account, asset) pairs appears; every move's post-commit volumes are the running volumes after
// its half of its posting; stored values of older transactions do not change.
func checkPCVAtCommit(r *runner, rec CommitRec) []Violation {
	var vs []Violation
	prop := r.sc.Property
	type lv struct{ in, out *big.Int }
	before := map[string]map[string]*lv{} // ledger -> account\x00asset
	after := map[string]map[string]*lv{}
	newTxs := map[string][]*ledger.Transaction{}
	moves := map[string]map[uint64][]*MoveRow{}
	for _, wr := range rec.Writes {
		switch wr.Key.Table {
		case "vol":
			if before[wr.Key.Ledger] == nil {
				before[wr.Key.Ledger], after[wr.Key.Ledger] = map[string]*lv{}, map[string]*lv{}
			}
			bi, bo := volOfRow(wr.Before)
			ai, ao := volOfRow(wr.After)
			before[wr.Key.Ledger][wr.Key.Key] = &lv{bi, bo}
			after[wr.Key.Ledger][wr.Key.Key] = &lv{ai, ao}
		case "tx":
			if wr.Before == nil && wr.After != nil {
				newTxs[wr.Key.Ledger] = append(newTxs[wr.Key.Ledger], wr.After.(*ledger.Transaction))
			} else if wr.Before != nil && wr.After != nil {
				b, a := wr.Before.(*ledger.Transaction), wr.After.(*ledger.Transaction)
				if fmt.Sprint(b.PostCommitVolumes) != fmt.Sprint(a.PostCommitVolumes) {
					vs = append(vs, Violation{prop, "post-commit-volumes-never-change", fmt.Sprintf("commit %d: ledger %s tx %d: stored post-commit volumes changed from %v to %v", rec.Seq, wr.Key.Ledger, *a.ID, b.PostCommitVolumes, a.PostCommitVolumes)})
				}
			}
		case "move":
			if wr.Before == nil && wr.After != nil {
				m := wr.After.(*MoveRow)
				if moves[wr.Key.Ledger] == nil {
					moves[wr.Key.Ledger] = map[uint64][]*MoveRow{}
				}
				moves[wr.Key.Ledger][m.TxID] = append(moves[wr.Key.Ledger][m.TxID], m)
			}
		}
	}
	for _, l := range sortedKeys(newTxs) {
		txs := newTxs[l]
		sort.Slice(txs, func(i, j int) bool { return *txs[i].ID < *txs[j].ID })
		running := map[string]*lv{}
		get := func(account, asset string) *lv {
			k := account + "\x00" + asset
			if v := running[k]; v != nil {
				return v
			}
			v := &lv{new(big.Int), new(big.Int)}
			if b := before[l][k]; b != nil {
				v = &lv{new(big.Int).Set(b.in), new(big.Int).Set(b.out)}
			} else if cur, ok := r.state[rowKey{"vol", l, k}].(*VolRow); ok {
				// not written by this commit: unchanged committed row (cannot be touched by a new tx, kept for safety)
				v = &lv{new(big.Int).Set(cur.Input), new(big.Int).Set(cur.Output)}
			}
			running[k] = v
			return v
		}
		movesOn := false
		if lr, ok := r.state[rowKey{"ledger", "", l}].(*LedgerRow); ok {
			movesOn = lr.Features["MOVES_HISTORY"] == "ON"
		}
		for _, t := range txs {
			type exp struct {
				src     bool
				account string
				asset   string
				amount  *big.Int
				in, out *big.Int
			}
			// per posting: the two moves in the order the repository writes them (source, then destination), and
			// the other order (destination first) - within one posting either order is "applying the posting"
			var want, alt []exp
			touched := map[string]bool{}
			for _, p := range t.Postings {
				s := get(p.Source, p.Asset)
				sIn0, sOut0 := new(big.Int).Set(s.in), new(big.Int).Set(s.out)
				d0 := get(p.Destination, p.Asset)
				dIn0, dOut0 := new(big.Int).Set(d0.in), new(big.Int).Set(d0.out)
				s.out.Add(s.out, p.Amount)
				want = append(want, exp{true, p.Source, p.Asset, p.Amount, new(big.Int).Set(s.in), new(big.Int).Set(s.out)})
				d := get(p.Destination, p.Asset)
				d.in.Add(d.in, p.Amount)
				want = append(want, exp{false, p.Destination, p.Asset, p.Amount, new(big.Int).Set(d.in), new(big.Int).Set(d.out)})
				// destination first
				aDstIn := new(big.Int).Add(dIn0, p.Amount)
				alt = append(alt, exp{false, p.Destination, p.Asset, p.Amount, aDstIn, dOut0})
				if p.Source == p.Destination {
					alt = append(alt, exp{true, p.Source, p.Asset, p.Amount, aDstIn, new(big.Int).Add(sOut0, p.Amount)})
				} else {
					alt = append(alt, exp{true, p.Source, p.Asset, p.Amount, sIn0, new(big.Int).Add(sOut0, p.Amount)})
				}
				touched[p.Source+"\x00"+p.Asset] = true
				touched[p.Destination+"\x00"+p.Asset] = true
			}
			n := 0
			for account, byAsset := range t.PostCommitVolumes {
				for asset, v := range byAsset {
					n++
					k := account + "\x00" + asset
					if !touched[k] {
						vs = append(vs, Violation{prop, "post-commit-volumes-right-after-the-transaction", fmt.Sprintf("commit %d: ledger %s tx %d: post-commit volumes mention %s/%s, which the transaction does not touch", rec.Seq, l, *t.ID, account, asset)})
						continue
					}
					w := get(account, asset)
					if !sameVolumes(v, w.in, w.out) {
						vs = append(vs, Violation{prop, "post-commit-volumes-right-after-the-transaction", fmt.Sprintf("commit %d: ledger %s tx %d: post-commit volumes of %s/%s are (in %v, out %v); the volumes right after this transaction in commit order are (in %v, out %v)", rec.Seq, l, *t.ID, account, asset, v.Input, v.Output, w.in, w.out)})
					}
				}
			}
			if n != len(touched) {
				vs = append(vs, Violation{prop, "post-commit-volumes-right-after-the-transaction", fmt.Sprintf("commit %d: ledger %s tx %d: post-commit volumes cover %d account/asset pairs, the postings touch %d", rec.Seq, l, *t.ID, n, len(touched))})
			}
			if !r.sc.Knobs.RealSQL {
				continue // the contract model does not keep moves
			}
			got := moves[l][*t.ID]
			sort.Slice(got, func(i, j int) bool { return got[i].Seq < got[j].Seq })
			if !movesOn {
				if len(got) > 0 {
					vs = append(vs, Violation{prop, "moves-follow-the-postings", fmt.Sprintf("commit %d: ledger %s (MOVES_HISTORY off) tx %d recorded %d moves", rec.Seq, l, *t.ID, len(got))})
				}
				continue
			}
			if len(got) != len(want) {
				vs = append(vs, Violation{prop, "moves-follow-the-postings", fmt.Sprintf("commit %d: ledger %s tx %d: %d moves recorded for %d postings", rec.Seq, l, *t.ID, len(got), len(t.Postings))})
				continue
			}
			match := func(m *MoveRow, w exp) bool {
				return m.IsSource == w.src && m.Account == w.account && m.Asset == w.asset && m.Amount.Cmp(w.amount) == 0 && m.PCV != nil && sameVolumes(*m.PCV, w.in, w.out) &&
					m.EffectiveDate.Equal(t.Timestamp) && m.InsertionDate.Equal(t.InsertedAt)
			}
			for i, m := range got {
				w := want[i]
				pi := i - i%2
				ok := (match(got[pi], want[pi]) && match(got[pi+1], want[pi+1])) || (match(got[pi], alt[pi]) && match(got[pi+1], alt[pi+1]))
				if !ok {
					pcv := "nil"
					if m.PCV != nil {
						pcv = fmt.Sprintf("(in %v, out %v)", m.PCV.Input, m.PCV.Output)
					}
					vs = append(vs, Violation{prop, "moves-follow-the-postings", fmt.Sprintf("commit %d: ledger %s tx %d move %d is {source:%v %s %s %v pcv %s eff %s}; applying the postings in order gives {source:%v %s %s %v pcv (in %v, out %v) eff %s}", rec.Seq, l, *t.ID, i, m.IsSource, m.Account, m.Asset, m.Amount, pcv, m.EffectiveDate, w.src, w.account, w.asset, w.amount, w.in, w.out, t.Timestamp)})
					break
				}
			}
		}
		// the running volumes must end where the commit's volume rows end
		for k, v := range running {
			if a := after[l][k]; a != nil && (a.in.Cmp(v.in) != 0 || a.out.Cmp(v.out) != 0) {
				acc, asset := volKeyParts(rowKey{Key: k})
				vs = append(vs, Violation{prop, "post-commit-volumes-right-after-the-transaction", fmt.Sprintf("commit %d: ledger %s: volume row %s/%s ends at (in %v, out %v), the commit's transactions add up to (in %v, out %v)", rec.Seq, l, acc, asset, a.in, a.out, v.in, v.out)})
			}
		}
	}
	return vs
}

// checkPCVAnswers (C03): the volumes a create-transaction answer shows are the stored ones, and its
// pre-commit volumes are those minus the transaction's own postings.
func checkPCVAnswers(r *runner, views map[string]*LedgerView) []Violation {
	var vs []Violation
	for _, or := range r.results {
		if or.Out.Class != "ok" || or.Op.DryRun || or.Op.API == "v1" || (or.Op.Kind != KPostings && or.Op.Kind != KScript) || or.Out.Tx == nil || len(or.Out.Data) == 0 {
			continue
		}
		v := views[or.Op.Ledger]
		if v == nil {
			continue
		}
		stored := v.Txs[or.Out.Tx.ID]
		if stored == nil {
			continue // logs-match-ops reports lost writes
		}
		j, err := parseJSON(string(or.Out.Data))
		if err != nil {
			continue
		}
		m, _ := j.v.(map[string]any)
		post, _ := m["postCommitVolumes"].(map[string]any)
		pre, _ := m["preCommitVolumes"].(map[string]any)
		if post == nil || pre == nil {
			continue
		}
		num := func(x any) *big.Int {
			n, _ := coerce(jsonVal{x}, ctNumeric)
			b, _ := n.(*big.Int)
			return b
		}
		for account, byAsset := range stored.PostCommitVolumes {
			for asset, sv := range byAsset {
				pa, _ := post[account].(map[string]any)
				pv, _ := pa[asset].(map[string]any)
				if pv == nil || num(pv["input"]) == nil || num(pv["input"]).Cmp(sv.Input) != 0 || num(pv["output"]).Cmp(sv.Output) != 0 {
					vs = append(vs, Violation{r.sc.Property, "answer-shows-the-stored-volumes", fmt.Sprintf("%s: tx %d %s/%s: answered post-commit volumes %v, stored (in %v, out %v)", or.Op.ID, or.Out.Tx.ID, account, asset, pv, sv.Input, sv.Output)})
					continue
				}
				// pre = post - own postings
				in, out := new(big.Int).Set(sv.Input), new(big.Int).Set(sv.Output)
				for _, p := range stored.Postings {
					if p.Asset != asset {
						continue
					}
					if p.Source == account {
						out.Sub(out, p.Amount)
					}
					if p.Destination == account {
						in.Sub(in, p.Amount)
					}
				}
				ra, _ := pre[account].(map[string]any)
				rv, _ := ra[asset].(map[string]any)
				if rv == nil || num(rv["input"]) == nil || num(rv["input"]).Cmp(in) != 0 || num(rv["output"]).Cmp(out) != 0 {
					vs = append(vs, Violation{r.sc.Property, "pre-commit-volumes-are-post-minus-own-postings", fmt.Sprintf("%s: tx %d %s/%s: answered pre-commit volumes %v, post-commit minus own postings is (in %v, out %v)", or.Op.ID, or.Out.Tx.ID, account, asset, rv, in, out)})
				}
			}
		}
	}
	return vs
}

// checkHashChain (C09): on a ledger that hashes synchronously, every committed log carries the hash of
// (previous committed log by id, itself) - so no two logs chain from the same predecessor - and ledgers that
// do not hash carry none. The digest is the repository's Go Log.ComputeHash (that PostgreSQL computes the
// same bytes is C10, assumed).
func checkHashChain(prop string, views map[string]*LedgerView, when string) []Violation {
	var vs []Violation
	for _, name := range sortedKeys(views) {
		v := views[name]
		if v.Feats == nil {
			continue
		}
		if v.Feats["HASH_LOGS"] != "SYNC" {
			for _, l := range v.Logs {
				if len(l.Hash) > 0 {
					vs = append(vs, Violation{prop, "hash-only-when-hashing-is-on", fmt.Sprintf("%s: ledger %s (HASH_LOGS=%s) log %d carries a hash", when, name, v.Feats["HASH_LOGS"], l.ID)})
					break
				}
			}
			continue
		}
		var prev *ledger.Log
		for _, row := range v.Logs {
			payload, err := ledger.HydrateLog(row.Type, row.DataJSON)
			if err != nil {
				vs = append(vs, Violation{prop, "hash-chain-is-linear", fmt.Sprintf("%s: ledger %s log %d does not hydrate: %v", when, name, row.ID, err)})
				break
			}
			cur := ledger.Log{Type: row.Type, Data: payload, Date: row.Date, IdempotencyKey: row.IK, SchemaVersion: row.SchemaVersion}
			cur.ComputeHash(prev)
			if !bytes.Equal(cur.Hash, row.Hash) {
				from := "no predecessor"
				if prev != nil {
					from = fmt.Sprintf("log %d", *prev.ID)
				}
				vs = append(vs, Violation{prop, "hash-chain-is-linear", fmt.Sprintf("%s: ledger %s log %d: stored hash %x is not the chain hash over its predecessor in id order (%s)", when, name, row.ID, row.Hash, from)})
				break
			}
			cur.ID = pointer.For(row.ID)
			prev = &cur
		}
	}
	return vs
}

// checkHashAnswers (C09): the hash a write's answer carries (v2 logs listing is SQL; the create answers do
// not carry it) - nothing to compare at the API: left to the chain check.

// checkReferences (C14).
func checkReferencesAtCommit(prop string, rec CommitRec, state map[rowKey]any) []Violation {
	var vs []Violation
	for _, wr := range rec.Writes {
		if wr.Key.Table != "tx" || wr.After == nil || wr.Before != nil {
			continue
		}
		t := wr.After.(*ledger.Transaction)
		if t.Reference == "" {
			continue
		}
		for k, v := range state {
			if k.Table != "tx" || k.Ledger != wr.Key.Ledger || k == wr.Key {
				continue
			}
			if o := v.(*ledger.Transaction); o.Reference == t.Reference {
				vs = append(vs, Violation{prop, "at-most-one-transaction-per-reference", fmt.Sprintf("commit %d: ledger %s: transactions %d and %d both carry reference %q", rec.Seq, wr.Key.Ledger, *o.ID, *t.ID, t.Reference)})
			}
		}
	}
	return vs
}

func checkReferenceAnswers(r *runner, views map[string]*LedgerView) []Violation {
	var vs []Violation
	prop := r.sc.Property
	type key struct{ l, ref string }
	type tally struct {
		ok, unsure, total int
		ids               []string
	}
	ts := map[key]*tally{}
	faults := len(r.w.firedAt) > 0
	// when did each (ledger, reference) become committed, and by which transaction
	type holder struct {
		event uint64
		id    uint64
	}
	held := map[key][]holder{}
	for _, rec := range r.w.db.CommitsSince(0) {
		for _, wr := range rec.Writes {
			if wr.Key.Table == "tx" && wr.Before == nil && wr.After != nil {
				if t := wr.After.(*ledger.Transaction); t.Reference != "" {
					held[key{wr.Key.Ledger, t.Reference}] = append(held[key{wr.Key.Ledger, t.Reference}], holder{rec.Event, *t.ID})
				}
			}
		}
	}
	for _, e := range elements(r.results) {
		op := e.op
		if op.Reference == "" || (op.Kind != KPostings && op.Kind != KScript) || op.DryRun {
			continue
		}
		k := key{op.Ledger, op.Reference}
		t := ts[k]
		if t == nil {
			t = &tally{}
			ts[k] = t
		}
		t.total++
		t.ids = append(t.ids, op.ID)
		// the answer this element got, when it got one of its own
		code, answered := "", false
		if e.owner.Op.Kind == KBulk {
			if len(e.owner.Out.Bulk) == len(e.owner.Op.Elements) && !e.owner.Out.Bulk[e.idx].OK {
				code, answered = e.owner.Out.Bulk[e.idx].Code, true
				if !e.owner.Op.ContinueOnFailure {
					// elements after the first failure are not run (their result is a placeholder)
					for j := 0; j < e.idx; j++ {
						if !e.owner.Out.Bulk[j].OK {
							answered = false
						}
					}
				}
			}
		} else if e.owner.Out.Class == "client_err" || e.owner.Out.Class == "server_err" {
			code, answered = e.owner.Out.Code, true
		}
		switch e.class {
		case "yes":
			t.ok++
		case "maybe", "hit-maybe":
			t.unsure++
		default:
			if !answered {
				// an element that was not run, or ran and was rolled back with its atomic bulk
				t.unsure++
				break
			}
			takenBefore, takenByReturn := false, false
			for _, h := range held[k] {
				if h.event < e.owner.Out.Invoke {
					takenBefore = true
				}
				if h.event < e.owner.Out.Return {
					takenByReturn = true
				}
			}
			if e.owner.Op.Kind == KBulk {
				// an earlier element of the same bulk may hold the reference (inside the same SQL
				// transaction when the bulk is atomic, whatever becomes of that transaction afterwards)
				for j := 0; j < e.idx; j++ {
					if el := e.owner.Op.Elements[j]; el.Reference == op.Reference && el.Ledger == op.Ledger {
						takenByReturn = true
					}
				}
			}
			switch {
			case code == "CONFLICT" && !takenByReturn:
				vs = append(vs, Violation{prop, "conflict-only-when-the-ledger-holds-the-reference", fmt.Sprintf("%s on %s with reference %q was answered a reference conflict, but no committed transaction of that ledger carried it when the answer was given", op.ID, op.Ledger, op.Reference)})
			case code != "CONFLICT" && takenByReturn && onlyDeadlockFaults(e.owner.Faults) && !r.gaveUpOnDeadlock(e.owner.Op.ID):
				when := "while the request was running"
				if takenBefore {
					when = "before the request was sent"
				}
				vs = append(vs, Violation{prop, "reused-reference-answers-a-conflict", fmt.Sprintf("%s on %s reuses reference %q, committed by another write %s, and was answered %q instead of a reference conflict (it draws from world: only its reference can refuse it)", op.ID, op.Ledger, op.Reference, when, code)})
			case code != "CONFLICT":
				// refused for another reason (a deadlock victim that gave up, an injected fault)
				t.unsure++
			}
		}
	}
	for k, t := range ts {
		committed := len(held[k])
		if t.ok > 1 {
			vs = append(vs, Violation{prop, "at-most-one-transaction-per-reference", fmt.Sprintf("ledger %s reference %q: %d writes were told they succeeded (%v)", k.l, k.ref, t.ok, t.ids)})
		}
		if !faults && t.total > 0 && t.unsure == 0 && committed != 1 {
			vs = append(vs, Violation{prop, "same-reference-usable-once-per-ledger", fmt.Sprintf("ledger %s reference %q: %d writes tried it without any fault, %d transaction(s) carry it (exactly one must, whatever the other ledgers hold)", k.l, k.ref, t.total, committed)})
		}
	}
	return dedupViolations(vs)
}

// checkIDsAtCommit (C16): per ledger, the ids a commit adds are above every id committed before.
// The real system does not guarantee this for transaction ids of writers that share no volume row (the id
// is drawn from the sequence before the log lock is taken) nor for log ids of ledgers that do not hash
// synchronously (no log lock at all): those two shapes are tagged so that the known-findings file can name
// them precisely; any other inversion is a new violation.
func checkIDsAtCommit(r *runner, rec CommitRec, before map[rowKey]any) []Violation {
	var vs []Violation
	prop := r.sc.Property
	type acc struct{ tx, log []uint64 }
	byLedger := map[string]*acc{}
	for _, wr := range rec.Writes {
		if wr.Before != nil || wr.After == nil {
			continue
		}
		a := byLedger[wr.Key.Ledger]
		if a == nil {
			a = &acc{}
			byLedger[wr.Key.Ledger] = a
		}
		switch wr.Key.Table {
		case "tx":
			a.tx = append(a.tx, *wr.After.(*ledger.Transaction).ID)
		case "log":
			a.log = append(a.log, wr.After.(*LogRow).ID)
		}
	}
	for _, l := range sortedKeys(byLedger) {
		a := byLedger[l]
		var maxTx, maxLog uint64
		var maxTxRow *ledger.Transaction
		for k, v := range before {
			if k.Ledger != l {
				continue
			}
			switch k.Table {
			case "tx":
				if t := v.(*ledger.Transaction); *t.ID > maxTx {
					maxTx, maxTxRow = *t.ID, t
				}
			case "log":
				if id := v.(*LogRow).ID; id > maxLog {
					maxLog = id
				}
			}
		}
		feats := map[string]string{}
		if lr, ok := r.state[rowKey{"ledger", "", l}].(*LedgerRow); ok {
			feats = lr.Features
		}
		// the known shapes are about CONCURRENT writers; two commits of one request are sequential
		sameRequest := func(table string, maxID uint64) bool {
			return r.committedBy[rowKey{table, l, idKey(maxID)}] == opIDOf(rec.Task)
		}
		for _, id := range a.tx {
			if id < maxTx {
				tag := "[the two writers share a volume row]"
				nt, _ := r.state[rowKey{"tx", l, idKey(id)}].(*ledger.Transaction)
				if nt != nil && maxTxRow != nil && !sharePair(nt, maxTxRow) {
					tag = "[no account/asset in common: nothing orders the two writers before the log lock]"
				}
				if sameRequest("tx", maxTx) {
					tag = "[both committed by the same request, one after the other]"
				}
				vs = append(vs, Violation{prop, "ids-increase-in-commit-order", fmt.Sprintf("commit %d: ledger %s: transaction %d is committed after transaction %d %s", rec.Seq, l, id, maxTx, tag)})
			}
		}
		for _, id := range a.log {
			if id < maxLog {
				tag := "[HASH_LOGS=SYNC: the log lock must order them]"
				if feats["HASH_LOGS"] != "SYNC" {
					tag = "[HASH_LOGS=" + feats["HASH_LOGS"] + ": no log lock is taken]"
				}
				if sameRequest("log", maxLog) {
					tag = "[both committed by the same request, one after the other]"
				}
				vs = append(vs, Violation{prop, "ids-increase-in-commit-order", fmt.Sprintf("commit %d: ledger %s: log %d is committed after log %d %s", rec.Seq, l, id, maxLog, tag)})
			}
		}
	}
	return vs
}

func sharePair(a, b *ledger.Transaction) bool {
	set := map[string]bool{}
	for _, p := range a.Postings {
		set[p.Source+"\x00"+p.Asset] = true
		set[p.Destination+"\x00"+p.Asset] = true
	}
	for _, p := range b.Postings {
		if set[p.Source+"\x00"+p.Asset] || set[p.Destination+"\x00"+p.Asset] {
			return true
		}
	}
	return false
}

// checkIDsFinal (C16): ids are unique (they are keys here: a duplicate shows as a refused write, reported by
// logs-match-ops) and ledgers draw from their own sequences: a ledger never holds an id above the number of
// id-drawing attempts made on it.
func checkIDsFinal(r *runner, views map[string]*LedgerView) []Violation {
	var vs []Violation
	prop := r.sc.Property
	attempts := map[string]int{}
	for _, e := range elements(r.results) {
		if e.op.IsWrite() {
			attempts[e.op.Ledger] += 1 + r.sc.Knobs.MaxRetry + 4 // internal retries (deadlock, too many clients) draw again
		}
	}
	for _, op := range r.sc.Setup {
		if op.IsWrite() {
			attempts[op.Ledger]++
		}
	}
	// an acknowledged create answers with a transaction of its own ledger: the id it reports is held by that
	// ledger, with the postings that were sent (an id drawn from - or a log replayed from - a sibling ledger is not)
	for _, or := range r.results {
		if or.Phase != "main" || or.Op.Kind != KPostings || or.Out.Class != "ok" || or.Out.Tx == nil || len(or.Faults) > 0 || or.Op.DryRun {
			continue
		}
		v := views[or.Op.Ledger]
		var t *ledger.Transaction
		if v != nil {
			t = v.Txs[or.Out.Tx.ID]
		}
		same := t != nil && len(t.Postings) == len(or.Op.Postings)
		for i := 0; same && i < len(t.Postings); i++ {
			p, q := t.Postings[i], or.Op.Postings[i]
			same = p.Source == q.Source && p.Destination == q.Destination && p.Asset == q.Asset && p.Amount.String() == q.Amount
		}
		if !same {
			vs = append(vs, Violation{prop, "ids-of-ledgers-are-independent", fmt.Sprintf("%s on ledger %s was acknowledged (hit=%v) with transaction id %d, and ledger %s holds no such transaction with the postings sent", or.Op.ID, or.Op.Ledger, or.Out.Hit, or.Out.Tx.ID, or.Op.Ledger)})
		}
	}
	for _, name := range sortedKeys(views) {
		v := views[name]
		var maxTx, maxLog uint64
		for id := range v.Txs {
			if id > maxTx {
				maxTx = id
			}
		}
		for _, l := range v.Logs {
			if l.ID > maxLog {
				maxLog = l.ID
			}
		}
		if r.sc.Params["faults"] == "" && (int(maxTx) > attempts[name] || int(maxLog) > attempts[name]) {
			vs = append(vs, Violation{prop, "ids-of-ledgers-are-independent", fmt.Sprintf("ledger %s holds transaction id %d and log id %d after at most %d id-drawing attempts on it: its ids depend on what other ledgers did", name, maxTx, maxLog, attempts[name])})
		}
	}
	return vs
}

// checkAccounts (C18), final state, derived from the committed logs only: an account row exists iff a
// committed transaction involves the account or a committed log wrote metadata on it; first_usage is the
// earliest of the effective timestamps of those transactions and of the dates of those metadata writes.
func checkAccounts(r *runner, views map[string]*LedgerView) []Violation {
	var vs []Violation
	prop := r.sc.Property
	for _, name := range sortedKeys(views) {
		v := views[name]
		type ev struct {
			first gotime.Time
			// noMetaLowering: what the value is if the event that creates the row sets it and only later
			// TRANSACTIONS can lower it (the behaviour recorded as known finding F23); events are met in log order
			noMetaLowering gotime.Time
			byMeta         bool
		}
		want := map[string]*ev{}
		note := func(addr string, t gotime.Time, isTx bool) {
			e := want[addr]
			if e == nil {
				e = &ev{first: t, noMetaLowering: t, byMeta: !isTx}
				want[addr] = e
				return
			}
			if t.Before(e.first) {
				e.first = t
			}
			if isTx {
				if t.Before(e.noMetaLowering) {
					e.noMetaLowering = t
				}
			} else {
				e.byMeta = true
			}
		}
		for _, row := range v.Logs {
			p, err := ledger.HydrateLog(row.Type, row.DataJSON)
			if err != nil {
				continue
			}
			switch pl := p.(type) {
			case ledger.CreatedTransaction:
				for _, a := range pl.Transaction.InvolvedAccounts() {
					note(a, pl.Transaction.Timestamp.Time, true)
				}
				for a := range pl.AccountMetadata {
					note(a, pl.Transaction.Timestamp.Time, true)
				}
			case ledger.RevertedTransaction:
				for _, a := range pl.RevertTransaction.InvolvedAccounts() {
					note(a, pl.RevertTransaction.Timestamp.Time, true)
				}
			case ledger.SavedMetadata:
				if pl.TargetType == ledger.MetaTargetTypeAccount {
					note(fmt.Sprint(pl.TargetID), row.Date.Time, false)
				}
			}
		}
		for _, a := range sortedKeys(want) {
			row := v.Accts[a]
			if row == nil {
				vs = append(vs, Violation{prop, "account-listed-iff-used", fmt.Sprintf("ledger %s: account %s was used by a committed write and has no row", name, a)})
				continue
			}
			e := want[a]
			if !row.FirstUsage.Time.Equal(e.first) {
				tag := ""
				if e.byMeta && row.FirstUsage.Time.Equal(e.noMetaLowering) {
					tag = " [a metadata write on an account that already exists does not lower it]"
				}
				vs = append(vs, Violation{prop, "first-usage-is-the-earliest-event", fmt.Sprintf("ledger %s: account %s has first usage %s; the earliest committed transaction timestamp / metadata write on it is %s%s", name, a, row.FirstUsage.Time.Format("2006-01-02T15:04:05.999999Z"), e.first.Format("2006-01-02T15:04:05.999999Z"), tag)})
			}
		}
		for _, a := range sortedKeys(v.Accts) {
			if want[a] == nil {
				vs = append(vs, Violation{prop, "account-listed-iff-used", fmt.Sprintf("ledger %s: account %s has a row although no committed transaction involves it and no committed log wrote metadata on it", name, a)})
			}
		}
	}
	return vs
}

func checkAccountsAtCommit(prop string, rec CommitRec, clockMoved bool) []Violation {
	var vs []Violation
	for _, wr := range rec.Writes {
		if wr.Key.Table == "acct" && wr.Before == nil && wr.After != nil && !clockMoved {
			// "its insertion date is when it was first created": an instant of the database clock inside the
			// transaction that created the row - not the effective date of the transaction that first used it
			// (wave 15, C18d). Not judged in runs where the database clock was moved.
			a := wr.After.(*AcctRow)
			if a.InsertionDate.Time.Before(rec.Begin) || a.InsertionDate.Time.After(rec.At) {
				vs = append(vs, Violation{prop, "insertion-date-is-the-creation-instant", fmt.Sprintf("commit %d: ledger %s account %s is created with insertion date %s; the transaction creating it ran from %s to %s on the database clock", rec.Seq, wr.Key.Ledger, wr.Key.Key,
					a.InsertionDate.Time.Format("2006-01-02T15:04:05.999999Z"), rec.Begin.Format("2006-01-02T15:04:05.999999Z"), rec.At.Format("2006-01-02T15:04:05.999999Z"))})
			}
		}
		if wr.Key.Table != "acct" || wr.Before == nil || wr.After == nil {
			continue
		}
		b, a := wr.Before.(*AcctRow), wr.After.(*AcctRow)
		if !a.InsertionDate.Time.Equal(b.InsertionDate.Time) {
			vs = append(vs, Violation{prop, "insertion-date-never-changes", fmt.Sprintf("commit %d: ledger %s account %s: insertion date moved from %s to %s", rec.Seq, wr.Key.Ledger, wr.Key.Key, b.InsertionDate, a.InsertionDate)})
		}
		if a.FirstUsage.Time.After(b.FirstUsage.Time) {
			vs = append(vs, Violation{prop, "first-usage-is-the-earliest-event", fmt.Sprintf("commit %d: ledger %s account %s: first usage moved later, from %s to %s", rec.Seq, wr.Key.Ledger, wr.Key.Key, b.FirstUsage, a.FirstUsage)})
		}
	}
	return vs
}

// checkIsolationAtCommit (C19): every row a commit changes belongs to the ledger the committing request
// addressed.
func checkIsolationAtCommit(r *runner, rec CommitRec) []Violation {
	var vs []Violation
	op := r.started[opIDOf(rec.Task)]
	if op == nil {
		for i := range r.sc.Setup {
			if r.sc.Setup[i].ID == opIDOf(rec.Task) {
				op = &r.sc.Setup[i]
			}
		}
	}
	if op == nil || op.Ledger == "" {
		return nil
	}
	for _, wr := range rec.Writes {
		if wr.Key.Ledger == "" || wr.Key.Ledger == op.Ledger {
			continue
		}
		vs = append(vs, Violation{r.sc.Property, "no-write-crosses-a-ledger-boundary", fmt.Sprintf("commit %d by %s (a request on ledger %s) changed %s", rec.Seq, rec.Task, op.Ledger, wr.Key)})
	}
	return vs
}

// ---------------------------------------------------------------- C35 (write side): feature equivalence

func init() {
	// Two ledgers of one bucket with independently drawn feature sets receive the same sequential history
	// (one client each, running concurrently with the other ledger's client). Whatever the features, the
	// transactions, logs, balances and current metadata must come out identical.
	register(Profile{Property: "C35", Name: "feature-equivalence", Gen: func(r *RNG, seed uint64, tier string) (*Scenario, *ExploreCfg) {
		sc := &Scenario{Property: "C35", Profile: "feature-equivalence", Knobs: randomKnobs(r), Checks: []string{"feature-equivalence", "hash-chain", "pcv", "conservation", "replay", "reads-respect-features", "metadata-history-rows"},
			Params: map[string]string{"lenient_reads": "1"}}
		g := &gen{r: r, sc: sc}
		draw := func() map[string]string {
			f := map[string]string{
				"MOVES_HISTORY": Pick(r, []string{"ON", "OFF"}),
				"MOVES_HISTORY_POST_COMMIT_EFFECTIVE_VOLUMES": Pick(r, []string{"SYNC", "DISABLED"}),
				"HASH_LOGS":                    Pick(r, []string{"SYNC", "ASYNC", "DISABLED"}),
				"ACCOUNT_METADATA_HISTORY":     Pick(r, []string{"SYNC", "DISABLED"}),
				"TRANSACTION_METADATA_HISTORY": Pick(r, []string{"SYNC", "DISABLED"}),
			}
			return f
		}
		sc.Setup = []Op{
			{ID: g.id("s"), Kind: KCreateLedger, Ledger: "fa", Feats: draw()},
			{ID: g.id("s"), Kind: KCreateLedger, Ledger: "fb", Feats: draw()},
		}
		var hist []Op
		n := 3 + r.Intn(6)
		txN := uint64(0)
		for i := 0; i < n; i++ {
			var op Op
			switch x := r.Intn(12); {
			case x < 4:
				op = Op{Kind: KPostings, Postings: []PostingSpec{{"world", Pick(r, users), g.amount(false), Pick(r, assets)}}, Timestamp: g.timestamp()}
				if r.Chance(0.4) {
					op.Postings = append(op.Postings, PostingSpec{op.Postings[0].Destination, Pick(r, users), "1", op.Postings[0].Asset})
				}
				if r.Chance(0.3) {
					op.Reference = "ref-" + fmt.Sprint(r.Intn(3))
				}
				txN++
			case x < 5:
				op = Op{Kind: KPostings, Postings: []PostingSpec{{"poor:1", "bank", "1000", "USD"}}, Timestamp: g.timestamp()} // refused
			case x < 7:
				dst := Pick(r, users)
				op = Op{Kind: KScript, Timestamp: g.timestamp(), Script: fmt.Sprintf("send [USD %d] (\n  source = @world\n  destination = @%s\n)\nset_account_meta(@%s, \"k%d\", \"v\")\nset_tx_meta(\"t\", \"%d\")\n", 1+r.Intn(50), dst, Pick(r, users), r.Intn(2), i)}
				txN++
			case x < 8 && txN > 0:
				op = Op{Kind: KRevert, TxID: 1 + uint64(r.Intn(int(txN))), Force: true, AtEffectiveDate: true}
				txN++
			case x < 9 && txN > 0:
				op = Op{Kind: KTxMetaSet, TxID: 1 + uint64(r.Intn(int(txN))), Metadata: map[string]string{"mk" + fmt.Sprint(r.Intn(2)): Pick(r, weird)}}
			case x < 10 && txN > 0:
				op = Op{Kind: KTxMetaDel, TxID: 1 + uint64(r.Intn(int(txN))), Key: "mk" + fmt.Sprint(r.Intn(2))}
			case x < 11:
				op = Op{Kind: KAcctMetaSet, Address: Pick(r, users), Metadata: map[string]string{"ak" + fmt.Sprint(r.Intn(2)): Pick(r, weird)}}
			default:
				op = Op{Kind: KAcctMetaDel, Address: Pick(r, users), Key: "ak" + fmt.Sprint(r.Intn(2))}
			}
			if op.Kind == "" {
				op = Op{Kind: KAcctMetaSet, Address: Pick(r, users), Metadata: map[string]string{"ak0": "v"}}
			}
			op.Sig = fmt.Sprintf("h%d", i)
			hist = append(hist, op)
		}
		for ci, l := range []string{"fa", "fb"} {
			var ops []Op
			for i, op := range hist {
				cp := op
				cp.Ledger = l
				cp.ID = fmt.Sprintf("c%d.%d", ci, i)
				ops = append(ops, cp)
			}
			// reads that may need a feature the ledger has disabled (read side of the property)
			ops = append(ops, featureReads(r, l, fmt.Sprintf("c%d", ci), txN)...)
			sc.Clients = append(sc.Clients, ops)
		}
		ex := defaultExplore(seed, 0, 0)
		ex.PreemptP = 0.5
		return sc, ex
	}})
}

// projectLedger renders what C35 says must not depend on the features: transactions, logs, balances and
// current metadata - without the dates the database clock assigns and without hashes.
func projectLedger(v *LedgerView) []string {
	var out []string
	txp := func(t *ledger.Transaction) string {
		pcv := ""
		for _, a := range sortedKeys(t.PostCommitVolumes) {
			for _, as := range sortedKeys(t.PostCommitVolumes[a]) {
				v := t.PostCommitVolumes[a][as]
				pcv += fmt.Sprintf(" %s/%s=(%v,%v)", a, as, v.Input, v.Output)
			}
		}
		return fmt.Sprintf("id=%d postings=%v metadata=%v ref=%q ts=%s reverted=%v pcv=[%s]", *t.ID, t.Postings, sortedMeta(t.Metadata), t.Reference, t.Timestamp.Time.UTC().Format(gotime.RFC3339Nano), t.RevertedAt != nil, pcv)
	}
	var ids []uint64
	for id := range v.Txs {
		ids = append(ids, id)
	}
	sort.Slice(ids, func(i, j int) bool { return ids[i] < ids[j] })
	for _, id := range ids {
		out = append(out, "tx "+txp(v.Txs[id]))
	}
	for _, row := range v.Logs {
		p, err := ledger.HydrateLog(row.Type, row.DataJSON)
		if err != nil {
			out = append(out, fmt.Sprintf("log %d does not hydrate: %v", row.ID, err))
			continue
		}
		line := fmt.Sprintf("log %d %s ik=%q ", row.ID, row.Type, row.IK)
		switch pl := p.(type) {
		case ledger.CreatedTransaction:
			am := map[string]string{}
			for a, m := range pl.AccountMetadata {
				am[a] = fmt.Sprint(sortedMeta(m))
			}
			line += txp(&pl.Transaction) + " accountMetadata=" + fmt.Sprint(sortedMeta(am))
		case ledger.RevertedTransaction:
			line += fmt.Sprintf("reverts=%d with %s", *pl.RevertedTransaction.ID, txp(&pl.RevertTransaction))
		case ledger.SavedMetadata:
			line += fmt.Sprintf("%s %v %v", pl.TargetType, pl.TargetID, sortedMeta(pl.Metadata))
		case ledger.DeletedMetadata:
			line += fmt.Sprintf("%s %v key=%q", pl.TargetType, pl.TargetID, pl.Key)
		}
		out = append(out, line)
	}
	for _, k := range sortedKeys(v.Vols) {
		acc, asset := volKeyParts(rowKey{Key: k})
		out = append(out, fmt.Sprintf("volumes %s/%s in=%v out=%v", acc, asset, v.Vols[k].Input, v.Vols[k].Output))
	}
	for _, a := range sortedKeys(v.Accts) {
		out = append(out, fmt.Sprintf("account %s metadata=%v", a, sortedMeta(v.Accts[a].Metadata)))
	}
	return out
}

func sortedMeta(m map[string]string) []string {
	var out []string
	for _, k := range sortedKeys(m) {
		out = append(out, k+"="+m[k])
	}
	return out
}

func checkFeatureEquivalence(r *runner, views map[string]*LedgerView) []Violation {
	a, b := views["fa"], views["fb"]
	if a == nil || b == nil {
		return nil
	}
	pa, pb := projectLedger(a), projectLedger(b)
	for i := 0; i < len(pa) || i < len(pb); i++ {
		la, lb := "<nothing>", "<nothing>"
		if i < len(pa) {
			la = pa[i]
		}
		if i < len(pb) {
			lb = pb[i]
		}
		if la != lb {
			return []Violation{{r.sc.Property, "same-history-same-data-whatever-the-features", fmt.Sprintf("the same history gives, with features %v: %s; with features %v: %s", sortedMeta(a.Feats), la, sortedMeta(b.Feats), lb)}}
		}
	}
	return nil
}
