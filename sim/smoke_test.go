package sim

import (
	"context"
	"fmt"
	"testing"
	"testing/synctest"
)

func TestSmoke(t *testing.T) {
	synctest.Test(t, func(t *testing.T) {
		w := NewWorld()
		k := Knobs{HashLogs: "SYNC", BulkParallelism: 2}
		lis, rec := w.NewListener(k)
		inc := w.NewIncarnation(k, lis, nil)
		do := func(id string, r Request) Response {
			resp := w.Do(inc, id, r)
			t.Logf("%s %s %s -> %d %s", id, r.Method, r.Path, resp.Status, string(resp.Body))
			return resp
		}
		do("s1", Request{Method: "POST", Path: "/v2/l1", Body: `{}`})
		do("s2", Request{Method: "POST", Path: "/v2/l1/transactions", Body: `{"postings":[{"source":"world","destination":"alice","amount":100,"asset":"USD"}]}`})
		do("s3", Request{Method: "POST", Path: "/v2/l1/transactions", Body: `{"postings":[{"source":"alice","destination":"bob","amount":150,"asset":"USD"}]}`})
		do("s4", Request{Method: "POST", Path: "/v2/l1/transactions/1/revert"})

		w.scheduling = true
		results := map[string]Response{}
		for c := 0; c < 2; c++ {
			c := c
			w.Spawn(fmt.Sprintf("client:c%d", c), func(ctx context.Context) {
				id := fmt.Sprintf("c%d.0", c)
				w.Yield(ctx, "op-start", id)
				r := w.Do(inc, id, Request{Method: "POST", Path: "/v2/l1/transactions", Body: `{"postings":[{"source":"bob","destination":"carol","amount":60,"asset":"USD"}]}`})
				w.mu.Lock()
				results[id] = r
				w.mu.Unlock()
			})
		}
		w.explore = &Explore{Sched: NewRNG(1), Fault: NewRNG(2), PreemptP: 0.5}
		for i := 0; i < 500; i++ {
			if !w.Step() {
				break
			}
		}
		for id, r := range results {
			t.Logf("%s -> %d %s", id, r.Status, string(r.Body))
		}
		for _, l := range w.log {
			t.Log(l)
		}
		t.Logf("events: %+v", rec.Events())
		t.Logf("harness: %v parked=%v", w.harness, w.ParkedKeys())
		w.Shutdown()
	})
}
