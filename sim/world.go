package sim

// Assembly of one service incarnation out of REAL code (API router, system controller, ledger controller
// stack, numscript runtimes, bulker) over the simulated store, plus the in-process HTTP client and the
// recording listener.

import (
	"bytes"
	"context"
	"crypto/sha256"
	"database/sql"
	"encoding/hex"
	"encoding/json"
	"fmt"
	"io"
	"net/http"
	"net/http/httptest"
	"sync"
	gotime "time"

	"github.com/ThreeDotsLabs/watermill/message"
	"github.com/uptrace/bun"
	"github.com/uptrace/bun/dialect/pgdialect"

	"github.com/formancehq/go-libs/v5/pkg/authn/jwt"
	logging "github.com/formancehq/go-libs/v5/pkg/observe/log"
	"github.com/formancehq/go-libs/v5/pkg/types/metadata"

	ledger "github.com/formancehq/ledger/internal"
	"github.com/formancehq/ledger/internal/api"
	"github.com/formancehq/ledger/internal/api/bulking"
	"github.com/formancehq/ledger/internal/bus"
	ledgercontroller "github.com/formancehq/ledger/internal/controller/ledger"
	systemcontroller "github.com/formancehq/ledger/internal/controller/system"
	storagedriver "github.com/formancehq/ledger/internal/storage/driver"
)

// Knobs are the tuning parameters randomised per run ("buggify").
type Knobs struct {
	NSCache         int    `json:"ns_cache"`          // numscript cache size (0 = no cache)
	Interpreter     bool   `json:"interpreter"`       // default runtime = experimental interpreter
	BulkParallelism int    `json:"bulk_parallelism"`  // pool size for parallel bulks
	MaxRetry        int    `json:"max_retry"`         // too-many-clients retries
	RetryDelayMs    int    `json:"retry_delay_ms"`    //
	Strict          bool   `json:"strict"`            // schema enforcement mode
	BusListener     bool   `json:"bus_listener"`      // real bus.LedgerListener over a recording publisher
	HashLogs        string `json:"hash_logs"`         // SYNC / DISABLED
	Bucket2         bool   `json:"bucket2,omitempty"` // second ledger lives in another bucket
	// RealSQL: the data methods of internal/storage/ledger run for real and their SQL is interpreted by
	// sqlmini; false = they are served by the simpg contract model (DESIGN.md section 15)
	RealSQL bool `json:"real_sql,omitempty"`
	// RealSysSQL (replication world only): the data part of the replication storage calls is the real
	// internal/storage/system DefaultStore, its SQL interpreted by sqlmini
	RealSysSQL bool `json:"real_sys_sql,omitempty"`
	// SeparateWorker (replication world, real-SQL runs): the replication worker is a process of its own, as
	// `ledger worker` is: it has its own storage driver and store factory (and so its own alone-in-bucket
	// hints) and never sees the ledgers the API process creates except through the database.
	SeparateWorker bool `json:"separate_worker,omitempty"`
}

type Incarnation struct {
	w       *World
	epoch   int
	sqlDB   *sql.DB
	bunDB   *bun.DB
	sys     systemcontroller.Controller
	router  http.Handler
	crashed chan struct{}
	knobs   Knobs
	repl    systemcontroller.ReplicationBackend
	// realDriver: the real internal/storage/driver.Driver (real-SQL runs only, see realdriver.go)
	realDriver *storagedriver.Driver
	// workerDriver: the storage driver of the replication worker (realDriver itself unless Knobs.SeparateWorker)
	workerDriver *storagedriver.Driver
}

// EventRec is one listener callback.
type EventRec struct {
	Seq    uint64
	Kind   string
	Ledger string
	Key    string // tx id / target
	Task   string
}

type recorder struct {
	mu     sync.Mutex
	w      *World
	events []EventRec
}

func (r *recorder) add(ctx context.Context, kind, l, key string) {
	seq := r.w.Event()
	r.mu.Lock()
	r.events = append(r.events, EventRec{Seq: seq, Kind: kind, Ledger: l, Key: key, Task: taskKeyOf(ctx)})
	r.mu.Unlock()
}

func (r *recorder) CommittedTransactions(ctx context.Context, l string, res ledger.Transaction, _ ledger.AccountMetadata) {
	r.add(ctx, "COMMITTED_TRANSACTIONS", l, fmt.Sprint(*res.ID))
}
func (r *recorder) SavedMetadata(ctx context.Context, l string, targetType, id string, _ metadata.Metadata) {
	r.add(ctx, "SAVED_METADATA", l, targetType+":"+id)
}
func (r *recorder) RevertedTransaction(ctx context.Context, l string, reverted, revert ledger.Transaction) {
	r.add(ctx, "REVERTED_TRANSACTION", l, fmt.Sprint(*reverted.ID))
}
func (r *recorder) DeletedMetadata(ctx context.Context, l string, targetType string, targetID any, key string) {
	r.add(ctx, "DELETED_METADATA", l, fmt.Sprintf("%s:%v#%s", targetType, targetID, key))
}
func (r *recorder) InsertedSchema(ctx context.Context, l string, data ledger.Schema) {
	r.add(ctx, "INSERTED_SCHEMA", l, data.Version)
}

func (r *recorder) Events() []EventRec {
	r.mu.Lock()
	defer r.mu.Unlock()
	return append([]EventRec(nil), r.events...)
}

// recordingPublisher stands in for the message bus under the real bus.LedgerListener.
type recordingPublisher struct{ r *recorder }

func (p recordingPublisher) Publish(topic string, msgs ...*message.Message) error {
	for _, m := range msgs {
		var ev struct {
			Type    string         `json:"type"`
			Payload map[string]any `json:"payload"`
		}
		_ = json.Unmarshal(m.Payload, &ev)
		l, _ := ev.Payload["ledger"].(string)
		key := ""
		switch ev.Type {
		case "COMMITTED_TRANSACTIONS":
			if txs, ok := ev.Payload["transactions"].([]any); ok && len(txs) > 0 {
				if t, ok := txs[0].(map[string]any); ok {
					key = fmt.Sprint(t["id"])
				}
			}
		case "REVERTED_TRANSACTION":
			if t, ok := ev.Payload["revertedTransaction"].(map[string]any); ok {
				key = fmt.Sprint(t["id"])
			}
		case "SAVED_METADATA":
			key = fmt.Sprintf("%v:%v", ev.Payload["targetType"], ev.Payload["targetId"])
		case "DELETED_METADATA":
			key = fmt.Sprintf("%v:%v#%v", ev.Payload["targetType"], ev.Payload["targetId"], ev.Payload["key"])
		case "INSERTED_SCHEMA":
			if sc, ok := ev.Payload["schema"].(map[string]any); ok {
				key = fmt.Sprint(sc["version"])
			}
		}
		p.r.add(m.Context(), ev.Type, l, key)
	}
	return nil
}
func (p recordingPublisher) Close() error { return nil }

type noopPublisher struct{}

func (noopPublisher) Publish(string, ...*message.Message) error { return nil }
func (noopPublisher) Close() error                              { return nil }

// tagging decorators: give each element of a PARALLEL bulk its own task key (pool workers share the
// request context; identity must not depend on goroutine scheduling).
type parallelKeyT struct{}

var parallelKey parallelKeyT

type tagSystem struct {
	systemcontroller.Controller
}

func (t tagSystem) GetLedgerController(ctx context.Context, name string) (ledgercontroller.Controller, error) {
	c, err := t.Controller.GetLedgerController(ctx, name)
	if err != nil {
		return nil, err
	}
	return tagController{c}, nil
}

type tagController struct {
	ledgercontroller.Controller
}

func subCtx[T any](ctx context.Context, ik string, input T) context.Context {
	if ctx.Value(parallelKey) == nil {
		return ctx
	}
	h := sha256.New()
	_ = json.NewEncoder(h).Encode(input)
	h.Write([]byte(ik))
	return WithTask(ctx, taskKeyOf(ctx)+"/e"+hex.EncodeToString(h.Sum(nil))[:8])
}

func (t tagController) CreateTransaction(ctx context.Context, p ledgercontroller.Parameters[ledgercontroller.CreateTransaction]) (*ledger.Log, *ledger.CreatedTransaction, bool, error) {
	return t.Controller.CreateTransaction(subCtx(ctx, p.IdempotencyKey, p.Input), p)
}
func (t tagController) RevertTransaction(ctx context.Context, p ledgercontroller.Parameters[ledgercontroller.RevertTransaction]) (*ledger.Log, *ledger.RevertedTransaction, bool, error) {
	return t.Controller.RevertTransaction(subCtx(ctx, p.IdempotencyKey, p.Input), p)
}
func (t tagController) SaveTransactionMetadata(ctx context.Context, p ledgercontroller.Parameters[ledgercontroller.SaveTransactionMetadata]) (*ledger.Log, bool, error) {
	return t.Controller.SaveTransactionMetadata(subCtx(ctx, p.IdempotencyKey, p.Input), p)
}
func (t tagController) SaveAccountMetadata(ctx context.Context, p ledgercontroller.Parameters[ledgercontroller.SaveAccountMetadata]) (*ledger.Log, bool, error) {
	return t.Controller.SaveAccountMetadata(subCtx(ctx, p.IdempotencyKey, p.Input), p)
}
func (t tagController) DeleteTransactionMetadata(ctx context.Context, p ledgercontroller.Parameters[ledgercontroller.DeleteTransactionMetadata]) (*ledger.Log, bool, error) {
	return t.Controller.DeleteTransactionMetadata(subCtx(ctx, p.IdempotencyKey, p.Input), p)
}
func (t tagController) DeleteAccountMetadata(ctx context.Context, p ledgercontroller.Parameters[ledgercontroller.DeleteAccountMetadata]) (*ledger.Log, bool, error) {
	return t.Controller.DeleteAccountMetadata(subCtx(ctx, p.IdempotencyKey, p.Input), p)
}

// NewIncarnation builds the service over the world's database. Must be called inside the bubble.
func (w *World) NewIncarnation(k Knobs, listener ledgercontroller.Listener, repl systemcontroller.ReplicationBackend) *Incarnation {
	w.mu.Lock()
	epoch := w.epoch
	w.mu.Unlock()
	inc := &Incarnation{w: w, epoch: epoch, crashed: make(chan struct{}), knobs: k, repl: repl}
	inc.sqlDB = sql.OpenDB(&Connector{w: w, epoch: epoch})
	inc.bunDB = bun.NewDB(inc.sqlDB, pgdialect.New(), bun.WithDiscardUnknownColumns())
	if w.realSQL {
		inc.realDriver = newRealDriver(inc)
		inc.workerDriver = inc.realDriver
		if k.SeparateWorker {
			inc.workerDriver = newRealDriver(inc)
		}
	}

	var (
		machineParser     ledgercontroller.NumscriptParser = ledgercontroller.NewDefaultNumscriptParser()
		interpreterParser ledgercontroller.NumscriptParser = ledgercontroller.NewInterpreterNumscriptParser(nil)
	)
	if k.NSCache > 0 {
		machineParser = ledgercontroller.NewCachedNumscriptParser(machineParser, ledgercontroller.CacheConfiguration{MaxCount: uint(k.NSCache)})
		interpreterParser = ledgercontroller.NewCachedNumscriptParser(interpreterParser, ledgercontroller.CacheConfiguration{MaxCount: uint(k.NSCache)})
	}
	parser := machineParser
	if k.Interpreter {
		parser = interpreterParser
	}
	mode := ledgercontroller.SchemaEnforcementAudit
	if k.Strict {
		mode = ledgercontroller.SchemaEnforcementStrict
	}
	sys := systemcontroller.NewDefaultController(
		&SimDriver{inc: inc},
		listener,
		repl,
		systemcontroller.WithParser(parser, machineParser, interpreterParser),
		systemcontroller.WithDatabaseRetryConfiguration(systemcontroller.DatabaseRetryConfiguration{
			MaxRetry: k.MaxRetry, Delay: gotime.Duration(k.RetryDelayMs) * gotime.Millisecond,
		}),
		systemcontroller.WithEnableFeatures(true),
		systemcontroller.WithSchemaEnforcementMode(mode),
	)
	inc.sys = tagSystem{sys}
	par := k.BulkParallelism
	if par <= 0 {
		par = 2
	}
	inc.router = api.NewRouter(
		inc.sys,
		jwt.NewNoAuth(),
		noopPublisher{},
		"sim",
		false,
		api.WithBulkerFactory(bulking.NewDefaultBulkerFactory(bulking.WithParallelism(par))),
		api.WithExporters(repl != nil),
	)
	return inc
}

func (w *World) NewListener(k Knobs) (ledgercontroller.Listener, *recorder) {
	rec := &recorder{w: w}
	if k.BusListener {
		return bus.NewLedgerListener(recordingPublisher{rec}), rec
	}
	return rec, rec
}

// ---- in-process HTTP ----

type Request struct {
	Method   string            `json:"method"`
	Path     string            `json:"path"`
	Header   map[string]string `json:"header,omitempty"`
	Body     string            `json:"body,omitempty"`
	Parallel bool              `json:"parallel,omitempty"` // parallel bulk: elements get their own task keys
	Chunked  int               `json:"chunked,omitempty"`  // >0: body is served in chunks of this size, yielding at each Read
}

type Response struct {
	Status  int
	Body    []byte
	Crashed bool // incarnation died before answering
	Aborted bool // handler panicked with http.ErrAbortHandler (connection aborted)
	Panic   string
	Invoke  uint64
	Return  uint64
	Hit     bool // Idempotency-Hit header
}

type chunkedBody struct {
	w      *World
	ctx    context.Context
	data   []byte
	pos    int
	chunk  int
	closed bool
	err    error
}

func (b *chunkedBody) Read(p []byte) (int, error) {
	if b.err != nil {
		return 0, b.err // a cut connection stays cut
	}
	if b.ctx.Err() != nil {
		return 0, b.ctx.Err() // the request is over: nobody reads this body any more
	}
	if f := b.w.Yield(Cancellable(b.ctx), "body.Read", fmt.Sprint(b.pos), FBodyCut, FBodyErr, FBodyTrunc, FDisconnect, FCrash); f != nil {
		switch f.Kind {
		case FShutdown:
			return 0, io.ErrClosedPipe
		case FCancelled:
			return 0, b.ctx.Err()
		case FBodyCut:
			// deliver a prefix of what remains, then an unexpected EOF
			rem := len(b.data) - b.pos
			n := 0
			if rem > 0 {
				n = f.Arg % (rem + 1)
			}
			if n > len(p) {
				n = len(p)
			}
			copy(p, b.data[b.pos:b.pos+n])
			b.w.noteDelivered(b.ctx, b.pos+n)
			b.pos = len(b.data)
			b.data = nil
			b.w.probe("body_cut")
			b.err = io.ErrUnexpectedEOF
			return n, io.ErrUnexpectedEOF
		case FBodyErr:
			b.w.probe("body_err")
			b.w.noteDelivered(b.ctx, b.pos)
			b.err = fmt.Errorf("read tcp: connection reset by peer (injected)")
			return 0, b.err
		case FBodyTrunc:
			// the body ends early but cleanly (shorter body with correct framing)
			rem := len(b.data) - b.pos
			n := 0
			if rem > 0 {
				n = f.Arg % (rem + 1)
			}
			b.data = b.data[:b.pos+n]
			b.w.probe("body_trunc")
			b.w.noteDelivered(b.ctx, len(b.data))
		}
	}
	if b.ctx.Err() != nil {
		return 0, b.ctx.Err()
	}
	if b.data == nil || b.pos >= len(b.data) {
		return 0, io.EOF
	}
	n := b.chunk
	if n > len(p) {
		n = len(p)
	}
	if n > len(b.data)-b.pos {
		n = len(b.data) - b.pos
	}
	copy(p, b.data[b.pos:b.pos+n])
	b.pos += n
	return n, nil
}

func (b *chunkedBody) Close() error { b.closed = true; return nil }

// Do performs one request as task opID against the incarnation. It is called by the client loop
// goroutine; the request itself runs on its own goroutine so that a crash can abandon it.
func (w *World) Do(inc *Incarnation, opID string, req Request) Response {
	invoke := w.Event()
	done := make(chan Response, 1)
	base := WithTask(context.Background(), opID)
	base = logging.ContextWithLogger(base, logging.Testing())
	if req.Parallel {
		base = context.WithValue(base, parallelKey, true)
	}
	ctx, cancel := context.WithCancel(base)
	gone := make(chan struct{})
	w.mu.Lock()
	w.cancels[opID] = cancel
	w.gone[opID] = gone
	w.mu.Unlock()
	go func() {
		var body io.ReadCloser
		if req.Chunked > 0 {
			body = &chunkedBody{w: w, ctx: WithTask(ctx, opID+"/body"), data: []byte(req.Body), chunk: req.Chunked}
		} else {
			body = io.NopCloser(bytes.NewReader([]byte(req.Body)))
		}
		hr, err := http.NewRequestWithContext(ctx, req.Method, req.Path, body)
		if err != nil {
			done <- Response{Status: -1, Panic: err.Error()}
			return
		}
		// the client announces the full length (a cut body then ends before it)
		hr.ContentLength = int64(len(req.Body))
		for k, v := range req.Header {
			hr.Header.Set(k, v)
		}
		rec := httptest.NewRecorder()
		resp := Response{}
		func() {
			defer func() {
				if r := recover(); r != nil {
					if r == http.ErrAbortHandler {
						resp.Aborted = true
					} else {
						resp.Panic = fmt.Sprint(r)
					}
				}
			}()
			inc.router.ServeHTTP(rec, hr)
		}()
		// net/http: the request context is cancelled once the handler returns, the body closed
		cancel()
		_ = body.Close()
		resp.Status = rec.Code
		resp.Body = rec.Body.Bytes()
		resp.Hit = rec.Header().Get("Idempotency-Hit") == "true"
		done <- resp
	}()
	var resp Response
	select {
	case resp = <-done:
	case <-inc.crashed:
		resp = Response{Crashed: true}
	case <-gone:
		// the client went away: it never sees the answer; the server side keeps running
		resp = Response{Aborted: true}
	}
	w.mu.Lock()
	delete(w.gone, opID)
	if resp.Crashed {
		// never cancel the context of an abandoned request while the run goes on (DESIGN 3.7)
		w.deadCancels = append(w.deadCancels, cancel)
	}
	delete(w.cancels, opID)
	w.mu.Unlock()
	resp.Invoke = invoke
	resp.Return = w.Event()
	return resp
}

// noteDelivered records how many bytes of a faulted request body reached the server.
func (w *World) noteDelivered(ctx context.Context, n int) {
	w.mu.Lock()
	w.delivered[opIDOf(taskKeyOf(ctx))] = n
	w.mu.Unlock()
}
