package sim

// sqlmini: values, coercions, expression evaluation.

import (
	"bytes"
	"encoding/hex"
	"encoding/json"
	"fmt"
	"math/big"
	"sort"
	"strings"
	gotime "time"
)

// Val is a SQL value: nil (NULL) | bool | *big.Int (numeric / integer) | string (text, or a literal whose
// type is not known yet) | gotime.Time | jsonVal | []byte (bytea) | volVal (the composite type "volumes").
type Val any

type jsonVal struct{ v any } // map[string]any | []any | json.Number | string | bool | nil

type volVal struct{ in, out *big.Int }

type colType int

const (
	ctText colType = iota
	ctNumeric
	ctTimestamp
	ctJSONB
	ctBytea
	ctBool
	ctVolumes
)

func parseJSON(s string) (jsonVal, error) {
	dec := json.NewDecoder(strings.NewReader(s))
	dec.UseNumber()
	var v any
	if err := dec.Decode(&v); err != nil {
		return jsonVal{}, pgErr("22P02", "invalid input syntax for type json", "")
	}
	if dec.More() {
		return jsonVal{}, pgErr("22P02", "invalid input syntax for type json", "")
	}
	return jsonVal{v}, nil
}

func (j jsonVal) bytes() []byte {
	var b bytes.Buffer
	enc := json.NewEncoder(&b)
	enc.SetEscapeHTML(false)
	_ = enc.Encode(j.v)
	return bytes.TrimRight(b.Bytes(), "\n")
}

func parseTimestamp(s string) (gotime.Time, error) {
	for _, layout := range []string{gotime.RFC3339Nano, "2006-01-02 15:04:05.999999999Z07:00", "2006-01-02 15:04:05.999999999", "2006-01-02T15:04:05.999999999", "2006-01-02"} {
		if t, err := gotime.Parse(layout, s); err == nil {
			return t.UTC().Truncate(gotime.Microsecond), nil
		}
	}
	return gotime.Time{}, pgErr("22007", "invalid input syntax for type timestamp: "+s, "")
}

func coerce(v Val, t colType) (Val, error) {
	if v == nil {
		return nil, nil
	}
	switch t {
	case ctText:
		switch x := v.(type) {
		case string:
			return x, nil
		case *big.Int:
			return x.String(), nil
		case jsonVal:
			return string(x.bytes()), nil
		case bool:
			if x {
				return "true", nil
			}
			return "false", nil
		}
	case ctNumeric:
		switch x := v.(type) {
		case *big.Int:
			return x, nil
		case string:
			n, ok := new(big.Int).SetString(strings.TrimSpace(x), 10)
			if !ok {
				return nil, pgErr("22P02", "invalid input syntax for type numeric: "+x, "")
			}
			return n, nil
		case jsonVal:
			if num, ok := x.v.(json.Number); ok {
				n, ok := new(big.Int).SetString(num.String(), 10)
				if ok {
					return n, nil
				}
			}
		}
	case ctTimestamp:
		switch x := v.(type) {
		case gotime.Time:
			return x.UTC().Truncate(gotime.Microsecond), nil
		case string:
			return parseTimestamp(x)
		}
	case ctJSONB:
		switch x := v.(type) {
		case jsonVal:
			return x, nil
		case string:
			return parseJSON(x)
		}
	case ctBytea:
		switch x := v.(type) {
		case []byte:
			return x, nil
		case string:
			if strings.HasPrefix(x, `\x`) {
				b, err := hex.DecodeString(x[2:])
				if err != nil {
					return nil, pgErr("22P02", "invalid hexadecimal data", "")
				}
				return b, nil
			}
			return []byte(x), nil
		}
	case ctBool:
		switch x := v.(type) {
		case bool:
			return x, nil
		case string:
			switch strings.ToLower(x) {
			case "t", "true":
				return true, nil
			case "f", "false":
				return false, nil
			}
		}
	case ctVolumes:
		switch x := v.(type) {
		case volVal:
			return x, nil
		case string:
			s := strings.TrimSpace(x)
			if len(s) >= 2 && s[0] == '(' && s[len(s)-1] == ')' {
				parts := strings.Split(s[1:len(s)-1], ",")
				if len(parts) == 2 {
					in, ok1 := new(big.Int).SetString(strings.TrimSpace(parts[0]), 10)
					out, ok2 := new(big.Int).SetString(strings.TrimSpace(parts[1]), 10)
					if ok1 && ok2 {
						return volVal{in, out}, nil
					}
				}
			}
			return nil, pgErr("22P02", "malformed record literal: "+x, "")
		}
	}
	return nil, unsupported("cannot coerce %T to column type %d", v, t)
}

func castTo(v Val, typ string) (Val, error) {
	switch strings.ToLower(typ) {
	case "varchar", "text", "character varying":
		return coerce(v, ctText)
	case "jsonb", "json":
		return coerce(v, ctJSONB)
	case "timestamp", "timestamp without time zone", "timestamptz", "timestamp with time zone":
		return coerce(v, ctTimestamp)
	case "numeric", "bigint", "int", "integer", "int8", "int4":
		return coerce(v, ctNumeric)
	case "bytea":
		return coerce(v, ctBytea)
	case "bool", "boolean":
		return coerce(v, ctBool)
	}
	return nil, unsupported("cast to %s", typ)
}

// driverValue converts a Val to what a PostgreSQL driver hands to database/sql.
func driverValue(v Val) any {
	switch x := v.(type) {
	case nil:
		return nil
	case *big.Int:
		return x.String()
	case jsonVal:
		return x.bytes()
	case volVal:
		return fmt.Sprintf("(%s,%s)", x.in.String(), x.out.String())
	case gotime.Time:
		return x
	}
	return v
}

// ---------- JSON helpers ----------

func jsonContains(a, b any) bool {
	switch bv := b.(type) {
	case map[string]any:
		av, ok := a.(map[string]any)
		if !ok {
			return false
		}
		for k, v := range bv {
			x, ok := av[k]
			if !ok || !jsonContains(x, v) {
				return false
			}
		}
		return true
	case []any:
		av, ok := a.([]any)
		if !ok {
			return false
		}
		for _, v := range bv {
			found := false
			for _, x := range av {
				if jsonContains(x, v) {
					found = true
					break
				}
			}
			if !found {
				return false
			}
		}
		return true
	default:
		if av, ok := a.([]any); ok {
			// an array contains a primitive it has as element (top level special case of jsonb @>)
			for _, x := range av {
				if jsonEqualScalar(x, b) {
					return true
				}
			}
			return false
		}
		return jsonEqualScalar(a, b)
	}
}

func jsonEqualScalar(a, b any) bool {
	switch x := a.(type) {
	case json.Number:
		y, ok := b.(json.Number)
		if !ok {
			return false
		}
		xr, ok1 := new(big.Rat).SetString(x.String())
		yr, ok2 := new(big.Rat).SetString(y.String())
		return ok1 && ok2 && xr.Cmp(yr) == 0
	case string:
		y, ok := b.(string)
		return ok && x == y
	case bool:
		y, ok := b.(bool)
		return ok && x == y
	case nil:
		return b == nil
	}
	return false
}

func jsonCopy(v any) any {
	switch x := v.(type) {
	case map[string]any:
		out := make(map[string]any, len(x))
		for k, e := range x {
			out[k] = jsonCopy(e)
		}
		return out
	case []any:
		out := make([]any, len(x))
		for i, e := range x {
			out[i] = jsonCopy(e)
		}
		return out
	}
	return v
}

// ---------- evaluation ----------

type binding struct {
	alias string
	table string
	cols  []string
	vals  []Val
}

func (b *binding) lookup(name string) (Val, bool) {
	for i, c := range b.cols {
		if c == name {
			return b.vals[i], true
		}
	}
	return nil, false
}

type scope struct {
	binds []*binding
	outer *scope
}

func (s *scope) resolve(c *eCol) (Val, error) {
	for sc := s; sc != nil; sc = sc.outer {
		for _, b := range sc.binds {
			if c.qual != "" && b.alias != c.qual && b.table != c.qual {
				continue
			}
			if v, ok := b.lookup(c.name); ok {
				return v, nil
			}
		}
	}
	if c.qual != "" {
		return nil, pgErr("42703", fmt.Sprintf("column %s.%s does not exist", c.qual, c.name), "")
	}
	return nil, pgErr("42703", fmt.Sprintf("column %q does not exist", c.name), "")
}

func truth(v Val) (known bool, val bool) {
	if v == nil {
		return false, false
	}
	b, ok := v.(bool)
	if !ok {
		return false, false
	}
	return true, b
}

func isTrue(v Val) bool { k, b := truth(v); return k && b }

func compareVals(a, b Val) (int, error) {
	// bring both sides to a common type
	switch x := a.(type) {
	case *big.Int:
		y, err := coerce(b, ctNumeric)
		if err != nil {
			return 0, err
		}
		return x.Cmp(y.(*big.Int)), nil
	case gotime.Time:
		y, err := coerce(b, ctTimestamp)
		if err != nil {
			return 0, err
		}
		return x.Compare(y.(gotime.Time)), nil
	case bool:
		y, err := coerce(b, ctBool)
		if err != nil {
			return 0, err
		}
		if x == y.(bool) {
			return 0, nil
		}
		if !x {
			return -1, nil
		}
		return 1, nil
	case []byte:
		y, err := coerce(b, ctBytea)
		if err != nil {
			return 0, err
		}
		return bytes.Compare(x, y.([]byte)), nil
	case jsonVal:
		y, err := coerce(b, ctJSONB)
		if err != nil {
			return 0, err
		}
		if bytes.Equal(x.bytes(), y.(jsonVal).bytes()) {
			return 0, nil
		}
		return bytes.Compare(x.bytes(), y.(jsonVal).bytes()), nil
	case string:
		switch b.(type) {
		case string:
			return strings.Compare(x, b.(string)), nil
		case nil:
			return 0, nil
		default:
			c, err := compareVals(b, a)
			return -c, err
		}
	}
	return 0, unsupported("comparison of %T and %T", a, b)
}

type evalCtx struct {
	x *sqlExec
}

func (x *sqlExec) eval(e sqlExpr, sc *scope) (Val, error) {
	switch n := e.(type) {
	case *eLit:
		return n.v, nil
	case *eDefault:
		return nil, unsupported("DEFAULT outside VALUES")
	case *eCol:
		return sc.resolve(n)
	case *eStar:
		return nil, unsupported("* in expression")
	case *eNot:
		v, err := x.eval(n.x, sc)
		if err != nil {
			return nil, err
		}
		if k, b := truth(v); k {
			return !b, nil
		}
		return nil, nil
	case *eNeg:
		v, err := x.eval(n.x, sc)
		if err != nil || v == nil {
			return nil, err
		}
		nv, err := coerce(v, ctNumeric)
		if err != nil {
			return nil, err
		}
		return new(big.Int).Neg(nv.(*big.Int)), nil
	case *eIsNull:
		v, err := x.eval(n.x, sc)
		if err != nil {
			return nil, err
		}
		isNull := v == nil
		if j, ok := v.(jsonVal); ok && false {
			_ = j
		}
		return isNull != n.not, nil
	case *eCast:
		v, err := x.eval(n.x, sc)
		if err != nil {
			return nil, err
		}
		return castTo(v, n.typ)
	case *eCase:
		for _, w := range n.whens {
			c, err := x.eval(w[0], sc)
			if err != nil {
				return nil, err
			}
			if isTrue(c) {
				return x.eval(w[1], sc)
			}
		}
		if n.els != nil {
			return x.eval(n.els, sc)
		}
		return nil, nil
	case *eSub:
		r, err := x.runSelect(n.sel, sc)
		if err != nil {
			return nil, err
		}
		if len(r.cols) != 1 {
			return nil, pgErr("42601", "subquery must return only one column", "")
		}
		if len(r.rows) == 0 {
			return nil, nil
		}
		if len(r.rows) > 1 {
			return nil, pgErr("21000", "more than one row returned by a subquery used as an expression", "")
		}
		return r.rows[0].vals[0], nil
	case *eIn:
		v, err := x.eval(n.x, sc)
		if err != nil {
			return nil, err
		}
		var cands []Val
		if n.sub != nil {
			r, err := x.runSelect(n.sub, sc)
			if err != nil {
				return nil, err
			}
			if len(r.cols) != 1 {
				return nil, pgErr("42601", "subquery has too many columns", "")
			}
			for _, row := range r.rows {
				cands = append(cands, row.vals[0])
			}
		} else {
			for _, le := range n.list {
				c, err := x.eval(le, sc)
				if err != nil {
					return nil, err
				}
				cands = append(cands, c)
			}
		}
		if v == nil {
			if len(cands) == 0 {
				return n.not, nil
			}
			return nil, nil
		}
		sawNull := false
		for _, c := range cands {
			if c == nil {
				sawNull = true
				continue
			}
			cmp, err := compareVals(v, c)
			if err != nil {
				return nil, err
			}
			if cmp == 0 {
				return !n.not, nil
			}
		}
		if sawNull {
			return nil, nil
		}
		return n.not, nil
	case *eFunc:
		return x.evalFunc(n, sc)
	case *eBin:
		switch n.op {
		case "and", "or":
			l, err := x.eval(n.l, sc)
			if err != nil {
				return nil, err
			}
			lk, lb := truth(l)
			if n.op == "and" && lk && !lb {
				return false, nil
			}
			if n.op == "or" && lk && lb {
				return true, nil
			}
			r, err := x.eval(n.r, sc)
			if err != nil {
				return nil, err
			}
			rk, rb := truth(r)
			if n.op == "and" {
				if rk && !rb {
					return false, nil
				}
				if lk && rk {
					return true, nil
				}
				return nil, nil
			}
			if rk && rb {
				return true, nil
			}
			if lk && rk {
				return false, nil
			}
			return nil, nil
		}
		l, err := x.eval(n.l, sc)
		if err != nil {
			return nil, err
		}
		r, err := x.eval(n.r, sc)
		if err != nil {
			return nil, err
		}
		if l == nil || r == nil {
			return nil, nil
		}
		switch n.op {
		case "=", "<", ">", "<=", ">=", "<>":
			c, err := compareVals(l, r)
			if err != nil {
				return nil, err
			}
			switch n.op {
			case "=":
				return c == 0, nil
			case "<":
				return c < 0, nil
			case ">":
				return c > 0, nil
			case "<=":
				return c <= 0, nil
			case ">=":
				return c >= 0, nil
			default:
				return c != 0, nil
			}
		case "+":
			ln, err := coerce(l, ctNumeric)
			if err != nil {
				return nil, err
			}
			rn, err := coerce(r, ctNumeric)
			if err != nil {
				return nil, err
			}
			return new(big.Int).Add(ln.(*big.Int), rn.(*big.Int)), nil
		case "-":
			if lj, ok := l.(jsonVal); ok {
				// jsonb - text: delete a key (or equal string element of an array)
				key, ok := r.(string)
				if !ok {
					return nil, unsupported("jsonb - %T", r)
				}
				switch m := lj.v.(type) {
				case map[string]any:
					cp := jsonCopy(m).(map[string]any)
					delete(cp, key)
					return jsonVal{cp}, nil
				case []any:
					var out []any
					for _, e := range m {
						if s, ok := e.(string); ok && s == key {
							continue
						}
						out = append(out, jsonCopy(e))
					}
					return jsonVal{out}, nil
				}
				return nil, pgErr("22023", "cannot delete from scalar", "")
			}
			ln, err := coerce(l, ctNumeric)
			if err != nil {
				return nil, err
			}
			rn, err := coerce(r, ctNumeric)
			if err != nil {
				return nil, err
			}
			return new(big.Int).Sub(ln.(*big.Int), rn.(*big.Int)), nil
		case "||":
			_, lj := l.(jsonVal)
			_, rj := r.(jsonVal)
			if lj || rj {
				a, err := coerce(l, ctJSONB)
				if err != nil {
					return nil, err
				}
				b, err := coerce(r, ctJSONB)
				if err != nil {
					return nil, err
				}
				am, aok := a.(jsonVal).v.(map[string]any)
				bm, bok := b.(jsonVal).v.(map[string]any)
				if aok && bok {
					out := jsonCopy(am).(map[string]any)
					for k, v := range bm {
						out[k] = jsonCopy(v)
					}
					return jsonVal{out}, nil
				}
				// every other case: a non-array input becomes a one-element array, then the arrays are joined
				asArray := func(v any) []any {
					if arr, ok := v.([]any); ok {
						return jsonCopy(arr).([]any)
					}
					return []any{jsonCopy(v)}
				}
				return jsonVal{append(asArray(a.(jsonVal).v), asArray(b.(jsonVal).v)...)}, nil
			}
			ls, err := coerce(l, ctText)
			if err != nil {
				return nil, err
			}
			rs, err := coerce(r, ctText)
			if err != nil {
				return nil, err
			}
			return ls.(string) + rs.(string), nil
		case "@>", "<@":
			a, err := coerce(l, ctJSONB)
			if err != nil {
				return nil, err
			}
			b, err := coerce(r, ctJSONB)
			if err != nil {
				return nil, err
			}
			if n.op == "<@" {
				a, b = b, a
			}
			return jsonContains(a.(jsonVal).v, b.(jsonVal).v), nil
		case "->", "->>":
			a, err := coerce(l, ctJSONB)
			if err != nil {
				return nil, err
			}
			var got any
			found := false
			switch k := r.(type) {
			case string:
				if m, ok := a.(jsonVal).v.(map[string]any); ok {
					got, found = m[k]
				}
			case *big.Int:
				if arr, ok := a.(jsonVal).v.([]any); ok && k.IsInt64() {
					i := int(k.Int64())
					if i < 0 {
						i += len(arr)
					}
					if i >= 0 && i < len(arr) {
						got, found = arr[i], true
					}
				}
			default:
				return nil, unsupported("jsonb -> %T", r)
			}
			if !found {
				return nil, nil
			}
			if n.op == "->" {
				return jsonVal{got}, nil
			}
			if got == nil {
				return nil, nil
			}
			if s, ok := got.(string); ok {
				return s, nil
			}
			return string(jsonVal{got}.bytes()), nil
		}
		return nil, unsupported("operator %s", n.op)
	}
	return nil, unsupported("expression %T", e)
}

func (x *sqlExec) evalFunc(f *eFunc, sc *scope) (Val, error) {
	args := make([]Val, len(f.args))
	for i, a := range f.args {
		v, err := x.eval(a, sc)
		if err != nil {
			return nil, err
		}
		args[i] = v
	}
	switch f.name {
	case "transaction_date":
		if len(args) != 0 {
			return nil, unsupported("transaction_date with arguments")
		}
		if f.schema != "" && x.schema != "" && f.schema != x.schema {
			return nil, pgErr("42883", "function "+f.schema+".transaction_date() does not exist", "")
		}
		return x.sess.transactionDate().UTC().Truncate(gotime.Microsecond), nil
	case "now":
		return x.sess.db.nowLocked().UTC().Truncate(gotime.Microsecond), nil
	case "nextval":
		if len(args) != 1 {
			return nil, unsupported("nextval arity")
		}
		name, ok := args[0].(string)
		if !ok {
			return nil, unsupported("nextval(%T)", args[0])
		}
		return x.nextval(name)
	case "coalesce":
		for _, a := range args {
			if a != nil {
				return a, nil
			}
		}
		return nil, nil
	case "least", "greatest":
		var best Val
		for _, a := range args {
			if a == nil {
				continue
			}
			if best == nil {
				best = a
				continue
			}
			c, err := compareVals(a, best)
			if err != nil {
				return nil, err
			}
			if (f.name == "least" && c < 0) || (f.name == "greatest" && c > 0) {
				best = a
			}
		}
		return best, nil
	}
	return nil, unsupported("function %s", f.name)
}

func sortedStrings(m map[string]bool) []string {
	out := make([]string, 0, len(m))
	for k := range m {
		out = append(out, k)
	}
	sort.Strings(out)
	return out
}
