package sim

// sqlmini: values, coercions, expression evaluation.

import (
	"bytes"
	"encoding/hex"
	"encoding/json"
	"fmt"
	"math/big"
	"regexp"
	"sort"
	"strconv"
	"strings"
	gotime "time"
)

// Val is a SQL value: nil (NULL) | bool | *big.Int (numeric / integer) | string (text, or a literal whose
// type is not known yet) | gotime.Time | jsonVal | []byte (bytea) | volVal (the composite type "volumes").
type Val any

type jsonVal struct{ v any } // map[string]any | []any | json.Number | string | bool | nil

type volVal struct{ in, out *big.Int }

type colType int

const (
	ctText colType = iota
	ctNumeric
	ctTimestamp
	ctJSONB
	ctBytea
	ctBool
	ctVolumes
)

func parseJSON(s string) (jsonVal, error) {
	dec := json.NewDecoder(strings.NewReader(s))
	dec.UseNumber()
	var v any
	if err := dec.Decode(&v); err != nil {
		return jsonVal{}, pgErr("22P02", "invalid input syntax for type json", "")
	}
	if dec.More() {
		return jsonVal{}, pgErr("22P02", "invalid input syntax for type json", "")
	}
	return jsonVal{v}, nil
}

func (j jsonVal) bytes() []byte {
	var b bytes.Buffer
	enc := json.NewEncoder(&b)
	enc.SetEscapeHTML(false)
	_ = enc.Encode(j.v)
	return bytes.TrimRight(b.Bytes(), "\n")
}

func parseTimestamp(s string) (gotime.Time, error) {
	for _, layout := range []string{gotime.RFC3339Nano, "2006-01-02 15:04:05.999999999Z07:00", "2006-01-02 15:04:05.999999999", "2006-01-02T15:04:05.999999999", "2006-01-02"} {
		if t, err := gotime.Parse(layout, s); err == nil {
			return t.UTC().Truncate(gotime.Microsecond), nil
		}
	}
	return gotime.Time{}, pgErr("22007", "invalid input syntax for type timestamp: "+s, "")
}

func coerce(v Val, t colType) (Val, error) {
	if v == nil {
		return nil, nil
	}
	switch t {
	case ctText:
		switch x := v.(type) {
		case string:
			return x, nil
		case *big.Int:
			return x.String(), nil
		case jsonVal:
			return string(x.bytes()), nil
		case bool:
			if x {
				return "true", nil
			}
			return "false", nil
		}
	case ctNumeric:
		switch x := v.(type) {
		case *big.Int:
			return x, nil
		case string:
			n, ok := new(big.Int).SetString(strings.TrimSpace(x), 10)
			if !ok {
				return nil, pgErr("22P02", "invalid input syntax for type numeric: "+x, "")
			}
			return n, nil
		case jsonVal:
			if num, ok := x.v.(json.Number); ok {
				n, ok := new(big.Int).SetString(num.String(), 10)
				if ok {
					return n, nil
				}
			}
		}
	case ctTimestamp:
		switch x := v.(type) {
		case gotime.Time:
			return x.UTC().Truncate(gotime.Microsecond), nil
		case string:
			return parseTimestamp(x)
		}
	case ctJSONB:
		switch x := v.(type) {
		case jsonVal:
			return x, nil
		case string:
			return parseJSON(x)
		}
	case ctBytea:
		switch x := v.(type) {
		case []byte:
			return x, nil
		case string:
			if strings.HasPrefix(x, `\x`) {
				b, err := hex.DecodeString(x[2:])
				if err != nil {
					return nil, pgErr("22P02", "invalid hexadecimal data", "")
				}
				return b, nil
			}
			return []byte(x), nil
		}
	case ctBool:
		switch x := v.(type) {
		case bool:
			return x, nil
		case string:
			switch strings.ToLower(x) {
			case "t", "true":
				return true, nil
			case "f", "false":
				return false, nil
			}
		}
	case ctVolumes:
		switch x := v.(type) {
		case volVal:
			return x, nil
		case string:
			s := strings.TrimSpace(x)
			if len(s) >= 2 && s[0] == '(' && s[len(s)-1] == ')' {
				parts := strings.Split(s[1:len(s)-1], ",")
				if len(parts) == 2 {
					in, ok1 := new(big.Int).SetString(strings.TrimSpace(parts[0]), 10)
					out, ok2 := new(big.Int).SetString(strings.TrimSpace(parts[1]), 10)
					if ok1 && ok2 {
						return volVal{in, out}, nil
					}
				}
			}
			return nil, pgErr("22P02", "malformed record literal: "+x, "")
		}
	}
	return nil, unsupported("cannot coerce %T to column type %d", v, t)
}

var reJSONPathSeg = regexp.MustCompile(`^\$\[(\d+)\] == "((?:[^"\\]|\\.)*)"$`)

func castTo(v Val, typ string) (Val, error) {
	if strings.ToLower(typ) == "jsonpath" {
		if s, ok := v.(string); ok {
			return s, nil // kept as text: the @@ operator parses the one shape it knows
		}
		return nil, unsupported("cast of %T to jsonpath", v)
	}
	if strings.ToLower(typ) == "volumes" {
		switch r := v.(type) {
		case nil:
			return nil, nil
		case volVal:
			return r, nil
		case rowVal:
			if len(r.items) != 2 {
				return nil, pgErr("42846", "cannot cast a row of this shape to volumes", "")
			}
			in, err := coerce(r.items[0], ctNumeric)
			if err != nil {
				return nil, err
			}
			out, err := coerce(r.items[1], ctNumeric)
			if err != nil {
				return nil, err
			}
			if in == nil || out == nil {
				return nil, unsupported("volumes with a null member")
			}
			return volVal{in.(*big.Int), out.(*big.Int)}, nil
		}
		return nil, unsupported("cast of %T to volumes", v)
	}
	switch strings.ToLower(typ) {
	case "varchar", "text", "character varying":
		return coerce(v, ctText)
	case "jsonb", "json":
		return coerce(v, ctJSONB)
	case "timestamp", "timestamp without time zone", "timestamptz", "timestamp with time zone":
		return coerce(v, ctTimestamp)
	case "numeric", "bigint", "int", "integer", "int8", "int4":
		return coerce(v, ctNumeric)
	case "bytea":
		return coerce(v, ctBytea)
	case "bool", "boolean":
		return coerce(v, ctBool)
	}
	return nil, unsupported("cast to %s", typ)
}

// driverValue converts a Val to what a PostgreSQL driver hands to database/sql.
func driverValue(v Val) any {
	switch x := v.(type) {
	case nil:
		return nil
	case *big.Int:
		return x.String()
	case jsonVal:
		return x.bytes()
	case volVal:
		return fmt.Sprintf("(%s,%s)", x.in.String(), x.out.String())
	case gotime.Time:
		return x
	}
	return v
}

// ---------- JSON helpers ----------

func jsonContains(a, b any) bool {
	switch bv := b.(type) {
	case map[string]any:
		av, ok := a.(map[string]any)
		if !ok {
			return false
		}
		for k, v := range bv {
			x, ok := av[k]
			if !ok || !jsonContains(x, v) {
				return false
			}
		}
		return true
	case []any:
		av, ok := a.([]any)
		if !ok {
			return false
		}
		for _, v := range bv {
			found := false
			for _, x := range av {
				if jsonContains(x, v) {
					found = true
					break
				}
			}
			if !found {
				return false
			}
		}
		return true
	default:
		if av, ok := a.([]any); ok {
			// an array contains a primitive it has as element (top level special case of jsonb @>)
			for _, x := range av {
				if jsonEqualScalar(x, b) {
					return true
				}
			}
			return false
		}
		return jsonEqualScalar(a, b)
	}
}

func jsonEqualScalar(a, b any) bool {
	switch x := a.(type) {
	case json.Number:
		y, ok := b.(json.Number)
		if !ok {
			return false
		}
		xr, ok1 := new(big.Rat).SetString(x.String())
		yr, ok2 := new(big.Rat).SetString(y.String())
		return ok1 && ok2 && xr.Cmp(yr) == 0
	case string:
		y, ok := b.(string)
		return ok && x == y
	case bool:
		y, ok := b.(bool)
		return ok && x == y
	case nil:
		return b == nil
	}
	return false
}

func jsonCopy(v any) any {
	switch x := v.(type) {
	case map[string]any:
		out := make(map[string]any, len(x))
		for k, e := range x {
			out[k] = jsonCopy(e)
		}
		return out
	case []any:
		out := make([]any, len(x))
		for i, e := range x {
			out[i] = jsonCopy(e)
		}
		return out
	}
	return v
}

// ---------- evaluation ----------

type binding struct {
	alias string
	table string
	cols  []string
	vals  []Val
}

func (b *binding) lookup(name string) (Val, bool) {
	for i, c := range b.cols {
		if c == name {
			return b.vals[i], true
		}
	}
	return nil, false
}

type scope struct {
	binds []*binding
	outer *scope
	// group: the rows of the current group when a grouped / aggregated select list is evaluated; plain columns then
	// resolve against the first row (binds), aggregate functions range over all of them
	group []joinedRow
	// win: the values of the window functions of the select list for the current row
	win map[*eWindow]Val
}

// windowsOf collects the window-function nodes of an expression.
func windowsOf(e sqlExpr, out *[]*eWindow) {
	switch n := e.(type) {
	case *eWindow:
		*out = append(*out, n)
	case *eFunc:
		for _, a := range n.args {
			windowsOf(a, out)
		}
	case *eBin:
		windowsOf(n.l, out)
		windowsOf(n.r, out)
	case *eCast:
		windowsOf(n.x, out)
	case *eField:
		windowsOf(n.x, out)
	case *eNot:
		windowsOf(n.x, out)
	case *eNeg:
		windowsOf(n.x, out)
	case *eIsNull:
		windowsOf(n.x, out)
	case *eRow:
		for _, a := range n.items {
			windowsOf(a, out)
		}
	case *eCase:
		for _, w := range n.whens {
			windowsOf(w[0], out)
			windowsOf(w[1], out)
		}
		if n.els != nil {
			windowsOf(n.els, out)
		}
	}
}

// rowVal is the value of a row constructor (a, b, ...) before it is cast to a composite type.
type rowVal struct{ items []Val }

var aggregateFuncs = map[string]bool{"sum": true, "count": true, "max": true, "min": true, "bool_or": true, "bool_and": true, "aggregate_objects": true, "array_agg": true}

// hasAggregate: does the expression contain an aggregate call (outside sub-selects)?
func hasAggregate(e sqlExpr) bool {
	switch n := e.(type) {
	case *eFunc:
		if aggregateFuncs[n.name] {
			return true
		}
		for _, a := range n.args {
			if hasAggregate(a) {
				return true
			}
		}
	case *eBin:
		return hasAggregate(n.l) || hasAggregate(n.r)
	case *eNot:
		return hasAggregate(n.x)
	case *eNeg:
		return hasAggregate(n.x)
	case *eIsNull:
		return hasAggregate(n.x)
	case *eCast:
		return hasAggregate(n.x)
	case *eField:
		return hasAggregate(n.x)
	case *eRow:
		for _, a := range n.items {
			if hasAggregate(a) {
				return true
			}
		}
	case *eCase:
		for _, w := range n.whens {
			if hasAggregate(w[0]) || hasAggregate(w[1]) {
				return true
			}
		}
		return n.els != nil && hasAggregate(n.els)
	}
	return false
}

// jsonAny converts a value to what encoding/json renders as PostgreSQL's to_jsonb would.
func jsonAny(v Val) (any, error) {
	switch x := v.(type) {
	case nil:
		return nil, nil
	case *big.Int:
		return json.Number(x.String()), nil
	case string:
		return x, nil
	case bool:
		return x, nil
	case jsonVal:
		return x.v, nil
	case gotime.Time:
		return x.UTC().Format("2006-01-02T15:04:05.999999"), nil
	case volVal:
		return map[string]any{"inputs": json.Number(x.in.String()), "outputs": json.Number(x.out.String())}, nil
	}
	return nil, unsupported("json of %T", v)
}

// evalAggregate computes an aggregate call over the rows of the current group.
func (x *sqlExec) evalAggregate(n *eFunc, sc *scope) (Val, error) {
	if len(n.args) != 1 {
		return nil, unsupported("aggregate %s with %d arguments", n.name, len(n.args))
	}
	if _, star := n.args[0].(*eStar); star {
		return bigFromInt(int64(len(sc.group))), nil
	}
	var vals []Val
	for _, r := range sc.group {
		v, err := x.eval(n.args[0], &scope{binds: r.binds, outer: sc.outer})
		if err != nil {
			return nil, err
		}
		vals = append(vals, v)
	}
	switch n.name {
	case "count":
		c := 0
		for _, v := range vals {
			if v != nil {
				c++
			}
		}
		return bigFromInt(int64(c)), nil
	case "sum":
		var acc *big.Int
		for _, v := range vals {
			if v == nil {
				continue
			}
			nv, err := coerce(v, ctNumeric)
			if err != nil {
				return nil, err
			}
			if acc == nil {
				acc = new(big.Int)
			}
			acc.Add(acc, nv.(*big.Int))
		}
		if acc == nil {
			return nil, nil
		}
		return acc, nil
	case "max", "min":
		var best Val
		for _, v := range vals {
			if v == nil {
				continue
			}
			if best == nil {
				best = v
				continue
			}
			c, err := compareVals(v, best)
			if err != nil {
				return nil, err
			}
			if (n.name == "max" && c > 0) || (n.name == "min" && c < 0) {
				best = v
			}
		}
		return best, nil
	case "bool_or", "bool_and":
		var acc Val
		for _, v := range vals {
			if v == nil {
				continue
			}
			b, ok := v.(bool)
			if !ok {
				return nil, unsupported("bool aggregate over a non-boolean")
			}
			if acc == nil {
				acc = b
			} else if n.name == "bool_or" {
				acc = acc.(bool) || b
			} else {
				acc = acc.(bool) && b
			}
		}
		return acc, nil
	case "aggregate_objects":
		// create aggregate aggregate_objects(jsonb) (sfunc = jsonb_concat, stype = jsonb, initcond = '{}')
		out := map[string]any{}
		for _, v := range vals {
			if v == nil {
				return nil, nil // jsonb_concat is strict: a NULL input makes the state NULL... and it stays NULL
			}
			j, err := coerce(v, ctJSONB)
			if err != nil {
				return nil, err
			}
			m, ok := j.(jsonVal).v.(map[string]any)
			if !ok {
				return nil, unsupported("aggregate_objects over a non-object")
			}
			for k, e := range m {
				out[k] = e
			}
		}
		return jsonVal{out}, nil
	}
	return nil, unsupported("aggregate %s", n.name)
}

func (s *scope) resolve(c *eCol) (Val, error) {
	for sc := s; sc != nil; sc = sc.outer {
		for _, b := range sc.binds {
			if c.qual != "" && b.alias != c.qual && b.table != c.qual {
				continue
			}
			if v, ok := b.lookup(c.name); ok {
				return v, nil
			}
		}
	}
	if c.qual != "" {
		return nil, pgErr("42703", fmt.Sprintf("column %s.%s does not exist", c.qual, c.name), "")
	}
	return nil, pgErr("42703", fmt.Sprintf("column %q does not exist", c.name), "")
}

func truth(v Val) (known bool, val bool) {
	if v == nil {
		return false, false
	}
	b, ok := v.(bool)
	if !ok {
		return false, false
	}
	return true, b
}

func isTrue(v Val) bool { k, b := truth(v); return k && b }

func compareVals(a, b Val) (int, error) {
	// bring both sides to a common type
	switch x := a.(type) {
	case *big.Int:
		y, err := coerce(b, ctNumeric)
		if err != nil {
			return 0, err
		}
		return x.Cmp(y.(*big.Int)), nil
	case gotime.Time:
		y, err := coerce(b, ctTimestamp)
		if err != nil {
			return 0, err
		}
		return x.Compare(y.(gotime.Time)), nil
	case bool:
		y, err := coerce(b, ctBool)
		if err != nil {
			return 0, err
		}
		if x == y.(bool) {
			return 0, nil
		}
		if !x {
			return -1, nil
		}
		return 1, nil
	case []byte:
		y, err := coerce(b, ctBytea)
		if err != nil {
			return 0, err
		}
		return bytes.Compare(x, y.([]byte)), nil
	case jsonVal:
		y, err := coerce(b, ctJSONB)
		if err != nil {
			return 0, err
		}
		if bytes.Equal(x.bytes(), y.(jsonVal).bytes()) {
			return 0, nil
		}
		return bytes.Compare(x.bytes(), y.(jsonVal).bytes()), nil
	case string:
		switch b.(type) {
		case string:
			return strings.Compare(x, b.(string)), nil
		case nil:
			return 0, nil
		default:
			c, err := compareVals(b, a)
			return -c, err
		}
	}
	return 0, unsupported("comparison of %T and %T", a, b)
}

type evalCtx struct {
	x *sqlExec
}

func (x *sqlExec) eval(e sqlExpr, sc *scope) (Val, error) {
	switch n := e.(type) {
	case *eLit:
		return n.v, nil
	case *eDefault:
		return nil, unsupported("DEFAULT outside VALUES")
	case *eCol:
		return sc.resolve(n)
	case *eStar:
		return nil, unsupported("* in expression")
	case *eNot:
		v, err := x.eval(n.x, sc)
		if err != nil {
			return nil, err
		}
		if k, b := truth(v); k {
			return !b, nil
		}
		return nil, nil
	case *eNeg:
		v, err := x.eval(n.x, sc)
		if err != nil || v == nil {
			return nil, err
		}
		nv, err := coerce(v, ctNumeric)
		if err != nil {
			return nil, err
		}
		return new(big.Int).Neg(nv.(*big.Int)), nil
	case *eIsNull:
		v, err := x.eval(n.x, sc)
		if err != nil {
			return nil, err
		}
		isNull := v == nil
		if j, ok := v.(jsonVal); ok && false {
			_ = j
		}
		return isNull != n.not, nil
	case *eCast:
		v, err := x.eval(n.x, sc)
		if err != nil {
			return nil, err
		}
		return castTo(v, n.typ)
	case *eCase:
		for _, w := range n.whens {
			c, err := x.eval(w[0], sc)
			if err != nil {
				return nil, err
			}
			if isTrue(c) {
				return x.eval(w[1], sc)
			}
		}
		if n.els != nil {
			return x.eval(n.els, sc)
		}
		return nil, nil
	case *eSub:
		r, err := x.runSelect(n.sel, sc)
		if err != nil {
			return nil, err
		}
		if len(r.cols) != 1 {
			return nil, pgErr("42601", "subquery must return only one column", "")
		}
		if len(r.rows) == 0 {
			return nil, nil
		}
		if len(r.rows) > 1 {
			return nil, pgErr("21000", "more than one row returned by a subquery used as an expression", "")
		}
		return r.rows[0].vals[0], nil
	case *eIn:
		v, err := x.eval(n.x, sc)
		if err != nil {
			return nil, err
		}
		var cands []Val
		if n.sub != nil {
			r, err := x.runSelect(n.sub, sc)
			if err != nil {
				return nil, err
			}
			if len(r.cols) != 1 {
				return nil, pgErr("42601", "subquery has too many columns", "")
			}
			for _, row := range r.rows {
				cands = append(cands, row.vals[0])
			}
		} else {
			for _, le := range n.list {
				c, err := x.eval(le, sc)
				if err != nil {
					return nil, err
				}
				cands = append(cands, c)
			}
		}
		if v == nil {
			if len(cands) == 0 {
				return n.not, nil
			}
			return nil, nil
		}
		sawNull := false
		for _, c := range cands {
			if c == nil {
				sawNull = true
				continue
			}
			cmp, err := compareVals(v, c)
			if err != nil {
				return nil, err
			}
			if cmp == 0 {
				return !n.not, nil
			}
		}
		if sawNull {
			return nil, nil
		}
		return n.not, nil
	case *eFunc:
		if aggregateFuncs[n.name] {
			if sc == nil || sc.group == nil {
				return nil, unsupported("aggregate %s outside a grouped select list", n.name)
			}
			return x.evalAggregate(n, sc)
		}
		return x.evalFunc(n, sc)
	case *eWindow:
		for c := sc; c != nil; c = c.outer {
			if v, ok := c.win[n]; ok {
				return v, nil
			}
			if c.win != nil {
				break
			}
		}
		return nil, unsupported("window function outside a select list")
	case *eRow:
		rv := rowVal{}
		for _, it := range n.items {
			v, err := x.eval(it, sc)
			if err != nil {
				return nil, err
			}
			rv.items = append(rv.items, v)
		}
		return rv, nil
	case *eField:
		v, err := x.eval(n.x, sc)
		if err != nil || v == nil {
			return nil, err
		}
		vv, ok := v.(volVal)
		if !ok {
			return nil, unsupported("field %s of %T", n.name, v)
		}
		switch n.name {
		case "inputs":
			return vv.in, nil
		case "outputs":
			return vv.out, nil
		}
		return nil, pgErr("42703", "column \""+n.name+"\" not found in data type volumes", "")
	case *eBin:
		switch n.op {
		case "and", "or":
			l, err := x.eval(n.l, sc)
			if err != nil {
				return nil, err
			}
			lk, lb := truth(l)
			if n.op == "and" && lk && !lb {
				return false, nil
			}
			if n.op == "or" && lk && lb {
				return true, nil
			}
			r, err := x.eval(n.r, sc)
			if err != nil {
				return nil, err
			}
			rk, rb := truth(r)
			if n.op == "and" {
				if rk && !rb {
					return false, nil
				}
				if lk && rk {
					return true, nil
				}
				return nil, nil
			}
			if rk && rb {
				return true, nil
			}
			if lk && rk {
				return false, nil
			}
			return nil, nil
		}
		l, err := x.eval(n.l, sc)
		if err != nil {
			return nil, err
		}
		r, err := x.eval(n.r, sc)
		if err != nil {
			return nil, err
		}
		if l == nil || r == nil {
			return nil, nil
		}
		switch n.op {
		case "=", "<", ">", "<=", ">=", "<>":
			c, err := compareVals(l, r)
			if err != nil {
				return nil, err
			}
			switch n.op {
			case "=":
				return c == 0, nil
			case "<":
				return c < 0, nil
			case ">":
				return c > 0, nil
			case "<=":
				return c <= 0, nil
			case ">=":
				return c >= 0, nil
			default:
				return c != 0, nil
			}
		case "+":
			ln, err := coerce(l, ctNumeric)
			if err != nil {
				return nil, err
			}
			rn, err := coerce(r, ctNumeric)
			if err != nil {
				return nil, err
			}
			return new(big.Int).Add(ln.(*big.Int), rn.(*big.Int)), nil
		case "-":
			if lj, ok := l.(jsonVal); ok {
				// jsonb - text: delete a key (or equal string element of an array)
				key, ok := r.(string)
				if !ok {
					return nil, unsupported("jsonb - %T", r)
				}
				switch m := lj.v.(type) {
				case map[string]any:
					cp := jsonCopy(m).(map[string]any)
					delete(cp, key)
					return jsonVal{cp}, nil
				case []any:
					var out []any
					for _, e := range m {
						if s, ok := e.(string); ok && s == key {
							continue
						}
						out = append(out, jsonCopy(e))
					}
					return jsonVal{out}, nil
				}
				return nil, pgErr("22023", "cannot delete from scalar", "")
			}
			ln, err := coerce(l, ctNumeric)
			if err != nil {
				return nil, err
			}
			rn, err := coerce(r, ctNumeric)
			if err != nil {
				return nil, err
			}
			return new(big.Int).Sub(ln.(*big.Int), rn.(*big.Int)), nil
		case "||":
			_, lj := l.(jsonVal)
			_, rj := r.(jsonVal)
			if lj || rj {
				a, err := coerce(l, ctJSONB)
				if err != nil {
					return nil, err
				}
				b, err := coerce(r, ctJSONB)
				if err != nil {
					return nil, err
				}
				am, aok := a.(jsonVal).v.(map[string]any)
				bm, bok := b.(jsonVal).v.(map[string]any)
				if aok && bok {
					out := jsonCopy(am).(map[string]any)
					for k, v := range bm {
						out[k] = jsonCopy(v)
					}
					return jsonVal{out}, nil
				}
				// every other case: a non-array input becomes a one-element array, then the arrays are joined
				asArray := func(v any) []any {
					if arr, ok := v.([]any); ok {
						return jsonCopy(arr).([]any)
					}
					return []any{jsonCopy(v)}
				}
				return jsonVal{append(asArray(a.(jsonVal).v), asArray(b.(jsonVal).v)...)}, nil
			}
			ls, err := coerce(l, ctText)
			if err != nil {
				return nil, err
			}
			rs, err := coerce(r, ctText)
			if err != nil {
				return nil, err
			}
			return ls.(string) + rs.(string), nil
		case "@@":
			// jsonb @@ jsonpath, for the one predicate shape the repository generates: $[<i>] == "<segment>"
			a, err := coerce(l, ctJSONB)
			if err != nil {
				return nil, err
			}
			path, ok := r.(string)
			if !ok {
				return nil, unsupported("@@ with a %T", r)
			}
			m := reJSONPathSeg.FindStringSubmatch(path)
			if m == nil {
				return nil, unsupported("jsonpath %q", path)
			}
			arr, isArr := a.(jsonVal).v.([]any)
			if !isArr {
				return false, nil
			}
			idx, _ := strconv.Atoi(m[1])
			if idx >= len(arr) {
				return false, nil
			}
			var want string
			if err := json.Unmarshal([]byte(`"`+m[2]+`"`), &want); err != nil {
				return nil, unsupported("jsonpath string %q", m[2])
			}
			got, isStr := arr[idx].(string)
			return isStr && got == want, nil
		case "@>", "<@":
			a, err := coerce(l, ctJSONB)
			if err != nil {
				return nil, err
			}
			b, err := coerce(r, ctJSONB)
			if err != nil {
				return nil, err
			}
			if n.op == "<@" {
				a, b = b, a
			}
			return jsonContains(a.(jsonVal).v, b.(jsonVal).v), nil
		case "->", "->>":
			a, err := coerce(l, ctJSONB)
			if err != nil {
				return nil, err
			}
			var got any
			found := false
			switch k := r.(type) {
			case string:
				if m, ok := a.(jsonVal).v.(map[string]any); ok {
					got, found = m[k]
				}
			case *big.Int:
				if arr, ok := a.(jsonVal).v.([]any); ok && k.IsInt64() {
					i := int(k.Int64())
					if i < 0 {
						i += len(arr)
					}
					if i >= 0 && i < len(arr) {
						got, found = arr[i], true
					}
				}
			default:
				return nil, unsupported("jsonb -> %T", r)
			}
			if !found {
				return nil, nil
			}
			if n.op == "->" {
				return jsonVal{got}, nil
			}
			if got == nil {
				return nil, nil
			}
			if s, ok := got.(string); ok {
				return s, nil
			}
			return string(jsonVal{got}.bytes()), nil
		}
		return nil, unsupported("operator %s", n.op)
	}
	return nil, unsupported("expression %T", e)
}

func (x *sqlExec) evalFunc(f *eFunc, sc *scope) (Val, error) {
	args := make([]Val, len(f.args))
	for i, a := range f.args {
		v, err := x.eval(a, sc)
		if err != nil {
			return nil, err
		}
		args[i] = v
	}
	switch f.name {
	case "jsonb_array_length":
		if len(args) != 1 {
			return nil, unsupported("jsonb_array_length arity")
		}
		if args[0] == nil {
			return nil, nil
		}
		j, err := coerce(args[0], ctJSONB)
		if err != nil {
			return nil, err
		}
		arr, ok := j.(jsonVal).v.([]any)
		if !ok {
			return nil, pgErr("22023", "cannot get array length of a non-array", "")
		}
		return bigFromInt(int64(len(arr))), nil
	case "json_build_object", "jsonb_build_object":
		if len(args)%2 != 0 {
			return nil, pgErr("22023", "argument list must have even number of elements", "")
		}
		out := map[string]any{}
		for i := 0; i < len(args); i += 2 {
			if args[i] == nil {
				return nil, pgErr("22004", "argument "+fmt.Sprint(i+1)+" cannot be null", "")
			}
			var k string
			switch kv := args[i].(type) {
			case string:
				k = kv
			case *big.Int:
				k = kv.String()
			default:
				return nil, unsupported("json_build_object key of %T", args[i])
			}
			v, err := jsonAny(args[i+1])
			if err != nil {
				return nil, err
			}
			out[k] = v
		}
		return jsonVal{out}, nil
	case "transaction_date":
		if len(args) != 0 {
			return nil, unsupported("transaction_date with arguments")
		}
		if f.schema != "" && x.schema != "" && f.schema != x.schema {
			return nil, pgErr("42883", "function "+f.schema+".transaction_date() does not exist", "")
		}
		return x.sess.transactionDate().UTC().Truncate(gotime.Microsecond), nil
	case "now":
		return x.sess.db.nowLocked().UTC().Truncate(gotime.Microsecond), nil
	case "nextval":
		if len(args) != 1 {
			return nil, unsupported("nextval arity")
		}
		name, ok := args[0].(string)
		if !ok {
			return nil, unsupported("nextval(%T)", args[0])
		}
		return x.nextval(name)
	case "coalesce":
		for _, a := range args {
			if a != nil {
				return a, nil
			}
		}
		return nil, nil
	case "least", "greatest":
		var best Val
		for _, a := range args {
			if a == nil {
				continue
			}
			if best == nil {
				best = a
				continue
			}
			c, err := compareVals(a, best)
			if err != nil {
				return nil, err
			}
			if (f.name == "least" && c < 0) || (f.name == "greatest" && c > 0) {
				best = a
			}
		}
		return best, nil
	}
	return nil, unsupported("function %s", f.name)
}

func sortedStrings(m map[string]bool) []string {
	out := make([]string, 0, len(m))
	for k := range m {
		out = append(out, k)
	}
	sort.Strings(out)
	return out
}
