package sim

// sqlmini: a small interpreter for the restricted SQL that the WRITE PATH of internal/storage/ledger sends
// through bun (DESIGN.md sections 12 and 15). It exists so that the real data methods of the storage
// layer (GetBalances, UpdateVolumes, InsertTransaction, InsertMoves, RevertTransaction, the metadata
// updates, UpsertAccounts, InsertLog, the schema methods, ReadLogWithIdempotencyKey) execute in the
// simulation instead of being replaced by a stub: the statement text they build is parsed and
// interpreted over simpg's rows, so a changed SET / WHERE / ON CONFLICT / FOR UPDATE / sequence name /
// ledger predicate changes behaviour. Anything outside the grammar is reported as errUnsupportedSQL; the
// run is then counted as inconclusive, never as a violation.
//
// This file: lexer, AST, recursive-descent parser.

import (
	"fmt"
	"math/big"
	"strings"
)

type errUnsupportedSQL struct{ msg string }

func (e *errUnsupportedSQL) Error() string { return "sqlmini: unsupported: " + e.msg }

func unsupported(format string, a ...any) error {
	return &errUnsupportedSQL{msg: fmt.Sprintf(format, a...)}
}

// ---------- lexer ----------

type tokKind int

const (
	tEOF tokKind = iota
	tIdent
	tQIdent
	tString
	tNumber
	tOp
)

type token struct {
	kind tokKind
	s    string
}

func (t token) String() string { return t.s }

func lexSQL(src string) ([]token, error) {
	var out []token
	i := 0
	n := len(src)
	for i < n {
		c := src[i]
		switch {
		case c == ' ' || c == '\t' || c == '\n' || c == '\r':
			i++
		case c == '-' && i+1 < n && src[i+1] == '-':
			for i < n && src[i] != '\n' {
				i++
			}
		case c == '\'':
			var b strings.Builder
			i++
			closed := false
			for i < n {
				if src[i] == '\'' {
					if i+1 < n && src[i+1] == '\'' {
						b.WriteByte('\'')
						i += 2
						continue
					}
					i++
					closed = true
					break
				}
				b.WriteByte(src[i])
				i++
			}
			if !closed {
				return nil, unsupported("unterminated string literal")
			}
			out = append(out, token{tString, b.String()})
		case c == '"':
			var b strings.Builder
			i++
			closed := false
			for i < n {
				if src[i] == '"' {
					if i+1 < n && src[i+1] == '"' {
						b.WriteByte('"')
						i += 2
						continue
					}
					i++
					closed = true
					break
				}
				b.WriteByte(src[i])
				i++
			}
			if !closed {
				return nil, unsupported("unterminated quoted identifier")
			}
			out = append(out, token{tQIdent, b.String()})
		case c >= '0' && c <= '9':
			j := i
			for j < n && (src[j] >= '0' && src[j] <= '9') {
				j++
			}
			if j < n && src[j] == '.' && j+1 < n && src[j+1] >= '0' && src[j+1] <= '9' {
				return nil, unsupported("decimal literal")
			}
			out = append(out, token{tNumber, src[i:j]})
			i = j
		case c == '_' || (c >= 'a' && c <= 'z') || (c >= 'A' && c <= 'Z'):
			j := i
			for j < n && (src[j] == '_' || src[j] == '$' || (src[j] >= 'a' && src[j] <= 'z') || (src[j] >= 'A' && src[j] <= 'Z') || (src[j] >= '0' && src[j] <= '9')) {
				j++
			}
			out = append(out, token{tIdent, src[i:j]})
			i = j
		default:
			ops := []string{"->>", "||", "@>", "<@", "@@", "->", "::", "<=", ">=", "<>", "!=", "=", "<", ">", "+", "-", "*", "/", "(", ")", ",", ".", ";"}
			matched := false
			for _, op := range ops {
				if strings.HasPrefix(src[i:], op) {
					out = append(out, token{tOp, op})
					i += len(op)
					matched = true
					break
				}
			}
			if !matched {
				return nil, unsupported("character %q", c)
			}
		}
	}
	out = append(out, token{tEOF, ""})
	return out, nil
}

// ---------- AST ----------

type sqlExpr interface{}

type eLit struct{ v Val }
type eDefault struct{}
type eCol struct {
	qual string // last qualifier (alias or table), "" if none
	name string
}
type eStar struct{ qual string }
type eFunc struct {
	schema string
	name   string // lower case
	args   []sqlExpr
}
type eBin struct {
	op   string
	l, r sqlExpr
}
type eNot struct{ x sqlExpr }
type eNeg struct{ x sqlExpr }
type eIsNull struct {
	x   sqlExpr
	not bool
}
type eIn struct {
	x    sqlExpr
	not  bool
	list []sqlExpr
	sub  *selectStmt
}
type eCase struct {
	whens [][2]sqlExpr
	els   sqlExpr
}
type eCast struct {
	x   sqlExpr
	typ string
}
type eSub struct{ sel *selectStmt }

// eRow: a row constructor (a, b, ...); eField: field selection (x).name on a composite value
// eWindow: fn(arg) OVER (PARTITION BY ... ORDER BY ...) - only first_value is evaluated
type eWindow struct {
	fn        string
	arg       sqlExpr
	partition []sqlExpr
	order     []orderItem
}
type eRow struct{ items []sqlExpr }
type eField struct {
	x    sqlExpr
	name string
}

type tableRef struct {
	schema string
	name   string
	alias  string
	sub    *selectStmt
}

type selItem struct {
	e     sqlExpr
	alias string
}

type orderItem struct {
	e    sqlExpr
	desc bool
}

type joinClause struct {
	ref  *tableRef
	on   sqlExpr
	left bool // LEFT [OUTER] JOIN
}

type selectStmt struct {
	with       []cteDef
	values     [][]sqlExpr // VALUES (...), (...)
	cols       []selItem
	from       *tableRef
	joins      []joinClause
	where      sqlExpr
	distinctOn []sqlExpr // SELECT DISTINCT ON (...)
	groupBy    []sqlExpr
	order      []orderItem
	limit      *int
	offset     int
	forUpdate  bool
	unionAll   []*selectStmt
}

type assign struct {
	col string
	e   sqlExpr
}

type onConflict struct {
	target    []string
	doNothing bool
	set       []assign
	where     sqlExpr
}

type insertStmt struct {
	with      []cteDef
	table     tableRef
	cols      []string
	values    [][]sqlExpr
	sel       *selectStmt
	conflict  *onConflict
	returning []selItem
}

type updateStmt struct {
	with      []cteDef
	table     tableRef
	set       []assign
	from      *tableRef
	where     sqlExpr
	returning []selItem
}

type deleteStmt struct {
	with      []cteDef
	table     tableRef
	where     sqlExpr
	returning []selItem
}

type cteDef struct {
	name string
	cols []string
	stmt any // *selectStmt | *insertStmt | *updateStmt
}

// ---------- parser ----------

type sqlParser struct {
	toks []token
	pos  int
}

func parseSQL(src string) (stmt any, err error) {
	toks, err := lexSQL(src)
	if err != nil {
		return nil, err
	}
	p := &sqlParser{toks: toks}
	defer func() {
		if r := recover(); r != nil {
			if ue, ok := r.(*errUnsupportedSQL); ok {
				stmt, err = nil, ue
				return
			}
			panic(r)
		}
	}()
	st := p.statement()
	if p.isOp(";") {
		p.pos++
	}
	if p.peek().kind != tEOF {
		p.fail("trailing input at %q", p.peek().s)
	}
	return st, nil
}

func (p *sqlParser) fail(format string, a ...any) {
	panic(&errUnsupportedSQL{msg: fmt.Sprintf(format, a...)})
}

func (p *sqlParser) peek() token { return p.toks[p.pos] }
func (p *sqlParser) peekAt(k int) token {
	if p.pos+k < len(p.toks) {
		return p.toks[p.pos+k]
	}
	return token{tEOF, ""}
}
func (p *sqlParser) next() token { t := p.toks[p.pos]; p.pos++; return t }

func (p *sqlParser) isKw(kw string) bool {
	t := p.peek()
	return t.kind == tIdent && strings.EqualFold(t.s, kw)
}
func (p *sqlParser) isKwAt(k int, kw string) bool {
	t := p.peekAt(k)
	return t.kind == tIdent && strings.EqualFold(t.s, kw)
}
func (p *sqlParser) isOp(op string) bool {
	t := p.peek()
	return t.kind == tOp && t.s == op
}
func (p *sqlParser) acceptKw(kw string) bool {
	if p.isKw(kw) {
		p.pos++
		return true
	}
	return false
}
func (p *sqlParser) acceptOp(op string) bool {
	if p.isOp(op) {
		p.pos++
		return true
	}
	return false
}
func (p *sqlParser) expectKw(kw string) {
	if !p.acceptKw(kw) {
		p.fail("expected %s, found %q", kw, p.peek().s)
	}
}
func (p *sqlParser) expectOp(op string) {
	if !p.acceptOp(op) {
		p.fail("expected %q, found %q", op, p.peek().s)
	}
}

var reservedAfterTable = map[string]bool{
	"where": true, "set": true, "on": true, "join": true, "order": true, "limit": true, "for": true, "union": true,
	"returning": true, "from": true, "values": true, "select": true, "as": true, "inner": true, "left": true, "group": true,
	"having": true, "offset": true, "using": true, "cross": true, "right": true, "full": true, "natural": true,
}

func (p *sqlParser) ident() string {
	t := p.next()
	switch t.kind {
	case tIdent:
		return strings.ToLower(t.s)
	case tQIdent:
		return t.s
	}
	p.fail("expected identifier, found %q", t.s)
	return ""
}

func (p *sqlParser) statement() any {
	var with []cteDef
	if p.acceptKw("with") {
		if p.isKw("recursive") {
			p.fail("WITH RECURSIVE")
		}
		for {
			c := cteDef{name: p.ident()}
			if p.acceptOp("(") {
				for {
					c.cols = append(c.cols, p.ident())
					if !p.acceptOp(",") {
						break
					}
				}
				p.expectOp(")")
			}
			p.expectKw("as")
			p.expectOp("(")
			c.stmt = p.statement()
			p.expectOp(")")
			with = append(with, c)
			if !p.acceptOp(",") {
				break
			}
		}
	}
	switch {
	case p.isKw("select") || p.isKw("values") || p.isOp("("):
		s := p.selectUnion()
		s.with = append(with, s.with...)
		return s
	case p.isKw("insert"):
		s := p.insert()
		s.with = with
		return s
	case p.isKw("update"):
		s := p.update()
		s.with = with
		return s
	case p.isKw("delete"):
		p.next()
		p.expectKw("from")
		s := &deleteStmt{with: with}
		a := p.ident()
		if p.acceptOp(".") {
			s.table.schema = a
			s.table.name = p.ident()
		} else {
			s.table.name = a
		}
		if p.acceptKw("as") {
			s.table.alias = p.ident()
		}
		if p.isKw("using") {
			p.fail("DELETE ... USING")
		}
		if p.acceptKw("where") {
			s.where = p.expr()
		}
		s.returning = p.returning()
		return s
	}
	p.fail("statement starting with %q", p.peek().s)
	return nil
}

// selectUnion: select_core (UNION ALL select_core)* [ORDER BY] [LIMIT] — each core may be parenthesised.
func (p *sqlParser) selectUnion() *selectStmt {
	first := p.selectTerm()
	for p.isKw("union") {
		p.next()
		p.expectKw("all")
		first.unionAll = append(first.unionAll, p.selectTerm())
	}
	if len(first.unionAll) > 0 {
		// trailing ORDER BY / LIMIT apply to the union: wrap
		if p.isKw("order") || p.isKw("limit") {
			p.fail("ORDER BY / LIMIT on a UNION")
		}
	}
	return first
}

func (p *sqlParser) selectTerm() *selectStmt {
	if p.acceptOp("(") {
		s := p.selectUnion()
		p.expectOp(")")
		return s
	}
	return p.selectCore()
}

func (p *sqlParser) selectCore() *selectStmt {
	s := &selectStmt{}
	if p.acceptKw("values") {
		for {
			p.expectOp("(")
			var row []sqlExpr
			for {
				row = append(row, p.expr())
				if !p.acceptOp(",") {
					break
				}
			}
			p.expectOp(")")
			s.values = append(s.values, row)
			if !p.acceptOp(",") {
				break
			}
		}
		return s
	}
	p.expectKw("select")
	if p.acceptKw("distinct") {
		if !p.acceptKw("on") {
			p.fail("DISTINCT without ON")
		}
		p.expectOp("(")
		for {
			s.distinctOn = append(s.distinctOn, p.expr())
			if !p.acceptOp(",") {
				break
			}
		}
		p.expectOp(")")
	}
	s.cols = p.selectList()
	if p.acceptKw("from") {
		s.from = p.tableRef()
		for {
			left := false
			if p.acceptKw("inner") {
				p.expectKw("join")
			} else if p.isKw("left") {
				p.next()
				p.acceptKw("outer")
				if p.isKw("join") && p.peekAt(1).kind == tIdent && strings.ToLower(p.peekAt(1).s) == "lateral" {
					p.fail("LATERAL join")
				}
				p.expectKw("join")
				left = true
			} else if !p.acceptKw("join") {
				break
			}
			if p.isKw("lateral") {
				p.fail("LATERAL join")
			}
			j := joinClause{ref: p.tableRef(), left: left}
			p.expectKw("on")
			j.on = p.expr()
			s.joins = append(s.joins, j)
		}
		if p.isOp(",") || p.isKw("right") || p.isKw("cross") || p.isKw("full") || p.isKw("natural") {
			p.fail("join form %q", p.peek().s)
		}
	}
	if p.acceptKw("where") {
		s.where = p.expr()
	}
	if p.acceptKw("group") {
		p.expectKw("by")
		for {
			s.groupBy = append(s.groupBy, p.expr())
			if !p.acceptOp(",") {
				break
			}
		}
	}
	if p.isKw("having") || p.isKw("window") {
		p.fail("%s", p.peek().s)
	}
	if p.acceptKw("order") {
		p.expectKw("by")
		for {
			o := orderItem{e: p.expr()}
			if p.acceptKw("desc") {
				o.desc = true
			} else {
				p.acceptKw("asc")
			}
			if p.isKw("nulls") {
				p.fail("NULLS FIRST/LAST")
			}
			s.order = append(s.order, o)
			if !p.acceptOp(",") {
				break
			}
		}
	}
	if p.acceptKw("limit") {
		t := p.next()
		if t.kind != tNumber {
			p.fail("LIMIT %q", t.s)
		}
		n := 0
		fmt.Sscanf(t.s, "%d", &n)
		s.limit = &n
	}
	if p.acceptKw("offset") {
		t := p.next()
		if t.kind != tNumber {
			p.fail("OFFSET %q", t.s)
		}
		n := 0
		fmt.Sscanf(t.s, "%d", &n)
		s.offset = n
	}
	if p.acceptKw("for") {
		p.expectKw("update")
		s.forUpdate = true
		if p.isKw("of") || p.isKw("nowait") || p.isKw("skip") {
			p.fail("FOR UPDATE %s", p.peek().s)
		}
	}
	return s
}

func (p *sqlParser) selectList() []selItem {
	var out []selItem
	for {
		it := selItem{}
		if p.isOp("*") {
			p.next()
			it.e = &eStar{}
		} else {
			it.e = p.expr()
		}
		if p.acceptKw("as") {
			it.alias = p.ident()
		} else if t := p.peek(); (t.kind == tIdent && !reservedAfterTable[strings.ToLower(t.s)]) || t.kind == tQIdent {
			it.alias = p.ident()
		}
		out = append(out, it)
		if !p.acceptOp(",") {
			break
		}
	}
	return out
}

func (p *sqlParser) tableRef() *tableRef {
	r := &tableRef{}
	if p.acceptOp("(") {
		r.sub = p.selectUnion()
		p.expectOp(")")
	} else {
		a := p.ident()
		if p.acceptOp(".") {
			r.schema = a
			r.name = p.ident()
		} else {
			r.name = a
		}
	}
	if p.acceptKw("as") {
		r.alias = p.ident()
	} else if t := p.peek(); (t.kind == tIdent && !reservedAfterTable[strings.ToLower(t.s)]) || t.kind == tQIdent {
		r.alias = p.ident()
	}
	if r.sub != nil && r.alias == "" && p.isKw("values") {
		// `(...) values`: the keyword used as the alias of a derived table (it cannot start anything else here)
		p.next()
		r.alias = "values"
	}
	if r.sub != nil && r.alias == "" {
		p.fail("derived table without alias")
	}
	return r
}

func (p *sqlParser) returning() []selItem {
	if p.acceptKw("returning") {
		return p.selectList()
	}
	return nil
}

func (p *sqlParser) insert() *insertStmt {
	p.expectKw("insert")
	p.expectKw("into")
	s := &insertStmt{}
	a := p.ident()
	if p.acceptOp(".") {
		s.table.schema = a
		s.table.name = p.ident()
	} else {
		s.table.name = a
	}
	if p.acceptKw("as") {
		s.table.alias = p.ident()
	}
	if p.acceptOp("(") {
		for {
			s.cols = append(s.cols, p.ident())
			if !p.acceptOp(",") {
				break
			}
		}
		p.expectOp(")")
	} else {
		p.fail("INSERT without a column list")
	}
	if p.isKw("values") {
		v := p.selectCore()
		s.values = v.values
	} else if p.isKw("select") || p.isOp("(") {
		s.sel = p.selectUnion()
	} else {
		p.fail("INSERT source %q", p.peek().s)
	}
	if p.acceptKw("on") {
		p.expectKw("conflict")
		c := &onConflict{}
		if p.acceptOp("(") {
			for {
				c.target = append(c.target, p.ident())
				if !p.acceptOp(",") {
					break
				}
			}
			p.expectOp(")")
		}
		if p.isKw("on") || p.isKw("where") {
			p.fail("ON CONFLICT %s", p.peek().s)
		}
		p.expectKw("do")
		if p.acceptKw("nothing") {
			c.doNothing = true
		} else {
			p.expectKw("update")
			p.expectKw("set")
			c.set = p.assignments()
			if p.acceptKw("where") {
				c.where = p.expr()
			}
		}
		s.conflict = c
	}
	s.returning = p.returning()
	return s
}

func (p *sqlParser) assignments() []assign {
	var out []assign
	for {
		if p.isOp("(") {
			p.fail("multi-column assignment")
		}
		col := p.ident()
		if p.isOp(".") {
			p.fail("qualified assignment target")
		}
		p.expectOp("=")
		out = append(out, assign{col: col, e: p.expr()})
		if !p.acceptOp(",") {
			break
		}
	}
	return out
}

func (p *sqlParser) update() *updateStmt {
	p.expectKw("update")
	s := &updateStmt{}
	a := p.ident()
	if p.acceptOp(".") {
		s.table.schema = a
		s.table.name = p.ident()
	} else {
		s.table.name = a
	}
	if p.acceptKw("as") {
		s.table.alias = p.ident()
	} else if t := p.peek(); (t.kind == tIdent && !reservedAfterTable[strings.ToLower(t.s)]) || t.kind == tQIdent {
		s.table.alias = p.ident()
	}
	p.expectKw("set")
	s.set = p.assignments()
	if p.acceptKw("from") {
		s.from = p.tableRef()
		if p.isOp(",") || p.isKw("join") {
			p.fail("UPDATE ... FROM with several tables")
		}
	}
	if p.acceptKw("where") {
		s.where = p.expr()
	}
	s.returning = p.returning()
	return s
}

// ---------- expressions (precedence: OR < AND < NOT < comparison/IS/IN < other operators < + - < * / < unary < postfix) ----------

func (p *sqlParser) expr() sqlExpr { return p.orExpr() }

func (p *sqlParser) orExpr() sqlExpr {
	l := p.andExpr()
	for p.acceptKw("or") {
		l = &eBin{op: "or", l: l, r: p.andExpr()}
	}
	return l
}

func (p *sqlParser) andExpr() sqlExpr {
	l := p.notExpr()
	for p.acceptKw("and") {
		l = &eBin{op: "and", l: l, r: p.notExpr()}
	}
	return l
}

func (p *sqlParser) notExpr() sqlExpr {
	if p.acceptKw("not") {
		return &eNot{x: p.notExpr()}
	}
	return p.cmpExpr()
}

func (p *sqlParser) cmpExpr() sqlExpr {
	l := p.otherOpExpr()
	for {
		switch {
		case p.isOp("=") || p.isOp("<") || p.isOp(">") || p.isOp("<=") || p.isOp(">=") || p.isOp("<>") || p.isOp("!="):
			op := p.next().s
			if op == "!=" {
				op = "<>"
			}
			l = &eBin{op: op, l: l, r: p.otherOpExpr()}
		case p.isKw("is"):
			p.next()
			not := p.acceptKw("not")
			if p.acceptKw("null") {
				l = &eIsNull{x: l, not: not}
			} else {
				p.fail("IS %s", p.peek().s)
			}
		case p.isKw("in") || (p.isKw("not") && p.isKwAt(1, "in")):
			not := p.acceptKw("not")
			p.expectKw("in")
			p.expectOp("(")
			in := &eIn{x: l, not: not}
			if p.isKw("select") {
				in.sub = p.selectUnion()
			} else {
				for {
					in.list = append(in.list, p.expr())
					if !p.acceptOp(",") {
						break
					}
				}
			}
			p.expectOp(")")
			l = in
		case p.isKw("between") || p.isKw("like") || p.isKw("ilike") || p.isKw("similar"):
			p.fail("%s", p.peek().s)
		default:
			return l
		}
	}
}

// "other" operators of PostgreSQL (|| @> <@ -> ->>) bind tighter than comparison and looser than + -
func (p *sqlParser) otherOpExpr() sqlExpr {
	l := p.addExpr()
	for p.isOp("||") || p.isOp("@>") || p.isOp("<@") || p.isOp("@@") || p.isOp("->") || p.isOp("->>") {
		op := p.next().s
		l = &eBin{op: op, l: l, r: p.addExpr()}
	}
	return l
}

func (p *sqlParser) addExpr() sqlExpr {
	l := p.mulExpr()
	for p.isOp("+") || p.isOp("-") {
		op := p.next().s
		l = &eBin{op: op, l: l, r: p.mulExpr()}
	}
	return l
}

func (p *sqlParser) mulExpr() sqlExpr {
	l := p.unaryExpr()
	for p.isOp("*") || p.isOp("/") {
		p.fail("operator %s", p.peek().s)
	}
	return l
}

func (p *sqlParser) unaryExpr() sqlExpr {
	if p.acceptOp("-") {
		return &eNeg{x: p.unaryExpr()}
	}
	if p.acceptOp("+") {
		return p.unaryExpr()
	}
	return p.postfixExpr()
}

func (p *sqlParser) postfixExpr() sqlExpr {
	e := p.primary()
	for p.acceptOp("::") {
		e = &eCast{x: e, typ: p.typeName()}
	}
	return e
}

func (p *sqlParser) typeName() string {
	var parts []string
	first := p.ident()
	if p.acceptOp(".") {
		first = p.ident() // "<schema>".<type>: the schema is dropped
	}
	parts = append(parts, first)
	// multi-word types: "timestamp without time zone", "character varying", "double precision"
	for {
		t := p.peek()
		if t.kind != tIdent {
			break
		}
		w := strings.ToLower(t.s)
		if w == "without" || w == "with" || w == "time" || w == "zone" || w == "varying" || w == "precision" {
			parts = append(parts, w)
			p.next()
			continue
		}
		break
	}
	if p.acceptOp("(") {
		for !p.isOp(")") {
			if p.peek().kind == tEOF {
				p.fail("type modifier")
			}
			p.next()
		}
		p.expectOp(")")
	}
	return strings.Join(parts, " ")
}

func (p *sqlParser) primary() sqlExpr {
	t := p.peek()
	switch t.kind {
	case tString:
		p.next()
		return &eLit{v: t.s}
	case tNumber:
		p.next()
		n, _ := new(big.Int).SetString(t.s, 10)
		return &eLit{v: n}
	case tOp:
		if t.s == "(" {
			p.next()
			if p.isKw("select") {
				s := p.selectUnion()
				p.expectOp(")")
				return &eSub{sel: s}
			}
			e := p.expr()
			if p.isOp(",") {
				row := &eRow{items: []sqlExpr{e}}
				for p.acceptOp(",") {
					row.items = append(row.items, p.expr())
				}
				p.expectOp(")")
				return row
			}
			p.expectOp(")")
			if p.isOp(".") {
				// (composite).field
				p.next()
				return &eField{x: e, name: strings.ToLower(p.ident())}
			}
			return e
		}
		p.fail("unexpected %q", t.s)
	case tIdent:
		lw := strings.ToLower(t.s)
		switch lw {
		case "null":
			p.next()
			return &eLit{v: nil}
		case "true":
			p.next()
			return &eLit{v: true}
		case "false":
			p.next()
			return &eLit{v: false}
		case "default":
			p.next()
			return &eDefault{}
		case "case":
			p.next()
			c := &eCase{}
			if !p.isKw("when") {
				p.fail("CASE <expr> WHEN")
			}
			for p.acceptKw("when") {
				cond := p.expr()
				p.expectKw("then")
				c.whens = append(c.whens, [2]sqlExpr{cond, p.expr()})
			}
			if p.acceptKw("else") {
				c.els = p.expr()
			}
			p.expectKw("end")
			return c
		case "exists", "array", "row", "cast", "interval", "any", "all", "some":
			p.fail("%s", lw)
		case "select", "from", "where":
			p.fail("unexpected keyword %s", lw)
		}
	case tEOF:
		p.fail("unexpected end of statement")
	}
	// identifier chain: a | a.b | a.b.c | a.* | f(...) | s.f(...)
	var chain []string
	chain = append(chain, p.ident())
	for p.isOp(".") {
		p.next()
		if p.isOp("*") {
			p.next()
			return &eStar{qual: chain[len(chain)-1]}
		}
		chain = append(chain, p.ident())
	}
	if p.isOp("(") {
		p.next()
		f := &eFunc{name: strings.ToLower(chain[len(chain)-1])}
		if len(chain) > 1 {
			f.schema = chain[len(chain)-2]
		}
		if !p.isOp(")") {
			if p.isOp("*") {
				if f.name != "count" {
					p.fail("aggregate %s(*)", f.name)
				}
				p.next()
				p.expectOp(")")
				f.args = []sqlExpr{&eStar{}}
				return f
			}
			for {
				f.args = append(f.args, p.expr())
				if !p.acceptOp(",") {
					break
				}
			}
		}
		p.expectOp(")")
		if p.isKw("filter") {
			p.fail("filtered aggregate")
		}
		if p.acceptKw("over") {
			if f.name != "first_value" || len(f.args) != 1 {
				p.fail("window function %s", f.name)
			}
			w := &eWindow{fn: f.name, arg: f.args[0]}
			p.expectOp("(")
			if p.acceptKw("partition") {
				p.expectKw("by")
				// `partition by (a, b)` and `partition by a, b` are both written in this repository
				e := p.expr()
				if row, ok := e.(*eRow); ok {
					w.partition = row.items
				} else {
					w.partition = []sqlExpr{e}
					for p.acceptOp(",") {
						w.partition = append(w.partition, p.expr())
					}
				}
			}
			if p.acceptKw("order") {
				p.expectKw("by")
				for {
					o := orderItem{e: p.expr()}
					if p.acceptKw("desc") {
						o.desc = true
					} else {
						p.acceptKw("asc")
					}
					w.order = append(w.order, o)
					if !p.acceptOp(",") {
						break
					}
				}
			}
			p.expectOp(")")
			return w
		}
		return f
	}
	c := &eCol{name: chain[len(chain)-1]}
	if len(chain) > 1 {
		c.qual = chain[len(chain)-2]
	}
	return c
}
