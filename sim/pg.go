package sim

// simpg: a small in-memory model of the store CONTRACT the code above the storage seam relies on
// (DESIGN.md section 4, S1-S14). It is not a SQL engine. It provides sessions, transactions and
// savepoints with READ COMMITTED visibility, row locks held to transaction end, unique keys that make
// a second inserter wait for the first one's outcome, non-transactional sequences, session and
// transaction level advisory locks, deadlock victims, aborted-transaction state and session death.

import (
	"errors"
	"fmt"
	"os"
	"sort"
	"sync"
	"time"

	"github.com/jackc/pgx/v5/pgconn"
)

type rowKey struct {
	Table  string // "tx","log","acct","vol","schema","ledger","log_ik","tx_ref","pipeline","exporter"
	Ledger string
	Key    string
}

func (k rowKey) String() string { return k.Table + "|" + k.Ledger + "|" + k.Key }

type tombstone struct{}

// WriteRec is one row change of a committed transaction (before/after are immutable row values,
// nil = absent).
type WriteRec struct {
	Key    rowKey
	Before any
	After  any
}

// CommitRec is what an oracle sees of one top-level commit.
type CommitRec struct {
	Seq     uint64 // commit sequence number (1-based)
	Event   uint64 // global event counter value at commit time
	Session int
	Task    string // task key that issued the COMMIT
	Writes  []WriteRec
	// Begin / At: the database clock when the transaction began (autocommit statements: when it committed) and when
	// it committed - every date the database assigned inside it lies between the two
	Begin, At time.Time
}

type DB struct {
	mu        sync.Mutex
	committed map[rowKey]any
	seqs      map[string]int64 // last value; nextval returns last+1
	rowLocks  map[rowKey]*Session
	advLocks  map[string]*advLock
	sessions  map[int]*Session
	nextSess  int
	commitSeq uint64
	commits   []CommitRec
	tick      int64
	skew      time.Duration
	eventCtr  *uint64 // shared global event counter (owned by World)
	// chooseVictim picks which member of a wait-for cycle of n sessions is aborted (0 = the closer)
	chooseVictim func(n int) int
	// onTaintedCommit is told when a transaction commits state the typed rows could not represent
	onTaintedCommit func(reason string)
	// onDeadlockVictim is told which task's statement was aborted to break a wait-for cycle
	onDeadlockVictim func(task string)
}

type advLock struct {
	owner *Session
	count int
}

func NewDB(eventCtr *uint64) *DB {
	return &DB{
		committed: map[rowKey]any{},
		seqs:      map[string]int64{},
		rowLocks:  map[rowKey]*Session{},
		advLocks:  map[string]*advLock{},
		sessions:  map[int]*Session{},
		eventCtr:  eventCtr,
	}
}

type txLevel struct {
	name     string
	writes   map[rowKey]any
	order    []rowKey
	rowLocks []rowKey
	advLocks []string
	aborted  bool
	// taint: a statement of this (sub)transaction stored something the typed rows cannot represent
	// (e.g. a jsonb metadata column that is no longer an object). Harmless if rolled back; if it commits
	// the run decides nothing (see World.unsupportedSQL).
	taint string
}

type Session struct {
	id      int
	db      *DB
	levels  []*txLevel
	sessAdv map[string]int
	dead    bool
	txDate  *time.Time
	txBegin time.Time // database clock at BEGIN of the current explicit transaction
	// what this session is currently waiting for (deadlock detection)
	waitRow *rowKey
	waitAdv string
	// implicit single-statement transaction in progress
	implicit bool
	// chosen as the victim of a deadlock while waiting
	victim bool
}

var (
	errSessionDead = errors.New("simpg: connection is dead")
)

func (db *DB) NewSession() *Session {
	db.mu.Lock()
	defer db.mu.Unlock()
	db.nextSess++
	s := &Session{id: db.nextSess, db: db, sessAdv: map[string]int{}}
	db.sessions[s.id] = s
	return s
}

// now returns the database clock: the bubble's fake clock plus skew, made strictly increasing by a
// per-call microsecond tick so that timestamps taken in one simulated instant are distinct.
func (db *DB) nowLocked() time.Time {
	db.tick++
	return time.Now().UTC().Add(db.skew + time.Duration(db.tick)*time.Millisecond).Truncate(time.Microsecond)
}

func (db *DB) SetSkew(d time.Duration) {
	db.mu.Lock()
	defer db.mu.Unlock()
	db.skew = d
}

// ---- transaction control (called with db.mu held unless stated) ----

func (s *Session) inTx() bool { return len(s.levels) > 0 }

func (s *Session) top() *txLevel { return s.levels[len(s.levels)-1] }

func (s *Session) beginLocked(name string) {
	s.levels = append(s.levels, &txLevel{name: name, writes: map[rowKey]any{}})
}

// Begin opens a top-level transaction.
func (s *Session) Begin() error {
	s.db.mu.Lock()
	defer s.db.mu.Unlock()
	if s.dead {
		return errSessionDead
	}
	if s.inTx() {
		return fmt.Errorf("simpg: BEGIN inside a transaction")
	}
	s.beginLocked("")
	s.txDate = nil
	s.txBegin = s.db.nowLocked()
	return nil
}

func (s *Session) Savepoint(name string) error {
	s.db.mu.Lock()
	defer s.db.mu.Unlock()
	if s.dead {
		return errSessionDead
	}
	if !s.inTx() {
		return fmt.Errorf("simpg: SAVEPOINT outside a transaction")
	}
	if s.top().aborted {
		return pgErr("25P02", "current transaction is aborted, commands ignored until end of transaction block", "")
	}
	s.beginLocked(name)
	return nil
}

// Release merges the innermost savepoint into its parent.
func (s *Session) Release(name string) error {
	s.db.mu.Lock()
	defer s.db.mu.Unlock()
	if s.dead {
		return errSessionDead
	}
	idx := s.findLevel(name)
	if idx <= 0 {
		return fmt.Errorf("simpg: no such savepoint %q", name)
	}
	if s.top().aborted {
		return pgErr("25P02", "current transaction is aborted, commands ignored until end of transaction block", "")
	}
	for len(s.levels) > idx {
		s.mergeTopLocked()
	}
	return nil
}

func (s *Session) findLevel(name string) int {
	for i := len(s.levels) - 1; i >= 1; i-- {
		if s.levels[i].name == name {
			return i
		}
	}
	return -1
}

func (s *Session) mergeTopLocked() {
	t := s.top()
	s.levels = s.levels[:len(s.levels)-1]
	p := s.top()
	for _, k := range t.order {
		if _, seen := p.writes[k]; !seen {
			p.order = append(p.order, k)
		}
		p.writes[k] = t.writes[k]
	}
	p.rowLocks = append(p.rowLocks, t.rowLocks...)
	p.advLocks = append(p.advLocks, t.advLocks...)
	if p.taint == "" {
		p.taint = t.taint
	}
}

// RollbackTo discards the effects and locks of the named savepoint and everything inside it. The
// savepoint itself stays defined (PostgreSQL semantics); bun then never reuses it.
func (s *Session) RollbackTo(name string) error {
	s.db.mu.Lock()
	defer s.db.mu.Unlock()
	if s.dead {
		return errSessionDead
	}
	idx := s.findLevel(name)
	if idx <= 0 {
		return fmt.Errorf("simpg: no such savepoint %q", name)
	}
	for len(s.levels) > idx {
		s.discardTopLocked()
	}
	// re-establish an empty level for the savepoint (it remains usable until released)
	s.beginLocked(name)
	return nil
}

func (s *Session) discardTopLocked() {
	t := s.top()
	s.levels = s.levels[:len(s.levels)-1]
	for _, k := range t.rowLocks {
		if s.db.rowLocks[k] == s {
			delete(s.db.rowLocks, k)
		}
	}
	for _, k := range t.advLocks {
		s.releaseAdvLocked(k)
	}
}

func (s *Session) releaseAdvLocked(k string) {
	l := s.db.advLocks[k]
	if l == nil || l.owner != s {
		return
	}
	l.count--
	if l.count <= 0 {
		delete(s.db.advLocks, k)
	}
}

// Commit makes the top-level transaction durable. task is recorded in the commit record.
func (s *Session) Commit(task string) error {
	s.db.mu.Lock()
	defer s.db.mu.Unlock()
	if s.dead {
		return errSessionDead
	}
	if !s.inTx() {
		return fmt.Errorf("simpg: COMMIT outside a transaction")
	}
	aborted := false
	for _, l := range s.levels {
		if l.aborted {
			aborted = true
		}
	}
	if aborted {
		// PostgreSQL turns COMMIT of an aborted transaction into ROLLBACK
		s.rollbackAllLocked()
		return pgErr("25P02", "current transaction is aborted, commit turned into rollback", "")
	}
	for len(s.levels) > 1 {
		s.mergeTopLocked()
	}
	s.commitTopLocked(task)
	return nil
}

func (s *Session) commitTopLocked(task string) {
	t := s.levels[0]
	s.levels = nil
	db := s.db
	if t.taint != "" && db.onTaintedCommit != nil {
		db.onTaintedCommit(t.taint)
	}
	if len(t.order) > 0 {
		db.commitSeq++
		*db.eventCtr++
		rec := CommitRec{Seq: db.commitSeq, Event: *db.eventCtr, Session: s.id, Task: task, At: db.nowLocked(), Begin: s.txBegin}
		if s.implicit || rec.Begin.IsZero() || rec.Begin.After(rec.At) {
			rec.Begin = rec.At
		}
		for _, k := range t.order {
			before := db.committed[k]
			after := t.writes[k]
			if _, del := after.(tombstone); del {
				after = nil
				delete(db.committed, k)
			} else {
				db.committed[k] = after
			}
			rec.Writes = append(rec.Writes, WriteRec{Key: k, Before: before, After: after})
		}
		db.commits = append(db.commits, rec)
	}
	for _, k := range t.rowLocks {
		if db.rowLocks[k] == s {
			delete(db.rowLocks, k)
		}
	}
	for _, k := range t.advLocks {
		s.releaseAdvLocked(k)
	}
	s.txDate = nil
}

func (s *Session) Rollback() error {
	s.db.mu.Lock()
	defer s.db.mu.Unlock()
	if s.dead {
		return errSessionDead
	}
	s.rollbackAllLocked()
	return nil
}

func (s *Session) rollbackAllLocked() {
	for len(s.levels) > 0 {
		s.discardTopLocked()
	}
	s.txDate = nil
}

// Kill models session death: rollback, release of every lock.
func (s *Session) Kill() {
	s.db.mu.Lock()
	defer s.db.mu.Unlock()
	s.killLocked()
}

func (s *Session) killLocked() {
	if s.dead {
		return
	}
	s.rollbackAllLocked()
	for k, l := range s.db.advLocks {
		if l.owner == s {
			delete(s.db.advLocks, k)
		}
	}
	for k, o := range s.db.rowLocks {
		if o == s {
			delete(s.db.rowLocks, k)
		}
	}
	s.sessAdv = map[string]int{}
	s.dead = true
	s.waitRow = nil
	s.waitAdv = ""
	delete(s.db.sessions, s.id)
}

func (db *DB) KillAll() {
	db.mu.Lock()
	defer db.mu.Unlock()
	ids := make([]int, 0, len(db.sessions))
	for id := range db.sessions {
		ids = append(ids, id)
	}
	sort.Ints(ids)
	for _, id := range ids {
		db.sessions[id].killLocked()
	}
}

// ---- statements ----

// stmt runs fn as one statement: inside the open transaction if there is one, else as an implicit
// single-statement transaction. fn returns errWouldBlock (after registering what it waits for) when it
// needs a lock another session holds; the caller parks and retries. On any other error inside a
// transaction the innermost (sub)transaction becomes aborted (S11).
type wouldBlock struct {
	row *rowKey
	adv string
}

func (w *wouldBlock) Error() string { return "simpg: would block" }

func (s *Session) stmt(task string, fn func() error) error {
	db := s.db
	db.mu.Lock()
	defer db.mu.Unlock()
	if s.dead {
		return errSessionDead
	}
	if s.victim {
		s.victim = false
		s.waitRow, s.waitAdv = nil, ""
		if db.onDeadlockVictim != nil {
			db.onDeadlockVictim(task)
		}
		if s.implicit {
			s.implicit = false
			s.rollbackAllLocked()
		} else if s.inTx() {
			s.top().aborted = true
		}
		return pgErr("40P01", "deadlock detected", "")
	}
	implicit := false
	if !s.inTx() {
		s.beginLocked("")
		s.implicit = true
		implicit = true
	} else if s.implicit {
		// resumed implicit statement after a lock wait
		implicit = true
	} else if s.top().aborted {
		return pgErr("25P02", "current transaction is aborted, commands ignored until end of transaction block", "")
	}
	err := fn()
	var wb *wouldBlock
	if errors.As(err, &wb) {
		// keep partial locks; the statement will be retried
		s.waitRow, s.waitAdv = wb.row, wb.adv
		victim := false
		if cycle := db.cycleLocked(s); len(cycle) > 0 {
			if sqlTrace {
				for _, c := range cycle {
					fmt.Fprintf(os.Stderr, "SQLTRACE cycle member session %d waitRow=%v waitAdv=%q victim=%v\n", c.id, c.waitRow, c.waitAdv, c.victim)
				}
				for k, o := range db.rowLocks {
					fmt.Fprintf(os.Stderr, "SQLTRACE   rowlock %v held by session %d\n", k, o.id)
				}
			}
			// which member of the cycle PostgreSQL aborts depends on whose deadlock timer fires first:
			// it is a scheduler decision
			idx := 0
			if db.chooseVictim != nil {
				idx = db.chooseVictim(len(cycle))
			}
			if idx == 0 {
				victim = true
			} else {
				cycle[idx].victim = true
			}
		}
		if victim {
			s.waitRow, s.waitAdv = nil, ""
			if db.onDeadlockVictim != nil {
				db.onDeadlockVictim(task)
			}
			err = pgErr("40P01", "deadlock detected", "")
			if implicit {
				s.implicit = false
				s.rollbackAllLocked()
			} else {
				s.top().aborted = true
			}
			return err
		}
		return err
	}
	s.waitRow, s.waitAdv = nil, ""
	if implicit {
		s.implicit = false
		if err != nil {
			s.rollbackAllLocked()
			return err
		}
		s.commitTopLocked(task)
		return nil
	}
	if err != nil && abortsTx(err) {
		s.top().aborted = true
	}
	return err
}

// abortsTx: only a server-side error aborts the transaction; "no rows" and errors raised by the
// harness itself are not SQL errors.
func abortsTx(err error) bool {
	var pge *pgconn.PgError
	return errors.As(err, &pge)
}

// abandonStmt is called when a parked statement is given up (context cancelled): implicit
// transactions are rolled back, explicit ones become aborted.
func (s *Session) abandonStmt() {
	s.db.mu.Lock()
	defer s.db.mu.Unlock()
	s.waitRow, s.waitAdv = nil, ""
	if s.dead {
		return
	}
	if s.implicit {
		s.implicit = false
		s.rollbackAllLocked()
	} else if s.inTx() {
		s.top().aborted = true
	}
}

// failStmt marks the current (sub)transaction aborted because of an injected statement error.
func (s *Session) failStmt() {
	s.db.mu.Lock()
	defer s.db.mu.Unlock()
	if !s.dead && s.inTx() && !s.implicit {
		s.top().aborted = true
	}
}

// cycleLocked returns the sessions of the wait-for cycle that s, now waiting, closes (s first), or nil.
func (db *DB) cycleLocked(s *Session) []*Session {
	seen := map[*Session]bool{}
	cur := s
	path := []*Session{s}
	for {
		var holder *Session
		if cur.waitRow != nil {
			holder = db.rowLocks[*cur.waitRow]
		} else if cur.waitAdv != "" {
			if l := db.advLocks[cur.waitAdv]; l != nil {
				holder = l.owner
			}
		}
		if holder == nil || holder == cur {
			return nil
		}
		if holder == s {
			return path
		}
		if seen[holder] {
			return nil
		}
		seen[holder] = true
		path = append(path, holder)
		cur = holder
	}
}

// canProceed tells the scheduler whether a session parked on a lock could now acquire it.
func (s *Session) canProceed() bool {
	db := s.db
	db.mu.Lock()
	defer db.mu.Unlock()
	if s.dead {
		return true
	}
	if s.victim {
		return true
	}
	if s.waitRow != nil {
		o := db.rowLocks[*s.waitRow]
		return o == nil || o == s
	}
	if s.waitAdv != "" {
		l := db.advLocks[s.waitAdv]
		return l == nil || l.owner == s
	}
	return true
}

// ---- row access (db.mu held, inside stmt) ----

func (s *Session) lockRow(k rowKey) error {
	o := s.db.rowLocks[k]
	if o == s {
		return nil
	}
	if o != nil {
		kk := k
		return &wouldBlock{row: &kk}
	}
	s.db.rowLocks[k] = s
	t := s.top()
	t.rowLocks = append(t.rowLocks, k)
	return nil
}

func (s *Session) get(k rowKey) any {
	for i := len(s.levels) - 1; i >= 0; i-- {
		if v, ok := s.levels[i].writes[k]; ok {
			if _, del := v.(tombstone); del {
				return nil
			}
			return v
		}
	}
	return s.db.committed[k]
}

func (s *Session) put(k rowKey, v any) {
	t := s.top()
	if _, seen := t.writes[k]; !seen {
		t.order = append(t.order, k)
	}
	t.writes[k] = v
}

func (s *Session) del(k rowKey) { s.put(k, tombstone{}) }

// scan returns the visible rows of a table for one ledger, sorted by key string.
func (s *Session) scan(table, ledger string) []rowKey {
	set := map[rowKey]bool{}
	for k := range s.db.committed {
		if k.Table == table && k.Ledger == ledger {
			set[k] = true
		}
	}
	for _, l := range s.levels {
		for k, v := range l.writes {
			if k.Table == table && k.Ledger == ledger {
				if _, del := v.(tombstone); del {
					delete(set, k)
				} else {
					set[k] = true
				}
			}
		}
	}
	out := make([]rowKey, 0, len(set))
	for k := range set {
		out = append(out, k)
	}
	sort.Slice(out, func(i, j int) bool { return out[i].Key < out[j].Key })
	return out
}

func (s *Session) transactionDate() time.Time {
	if s.txDate == nil || s.implicit {
		t := s.db.nowLocked()
		if s.implicit {
			return t
		}
		s.txDate = &t
	}
	return *s.txDate
}

// ---- sequences (non transactional) ----

func (db *DB) nextvalLocked(name string) int64 {
	db.seqs[name]++
	return db.seqs[name]
}

func (db *DB) setvalLocked(name string, v int64) { db.seqs[name] = v }

// ---- advisory locks ----

func (s *Session) advLockStmt(key string, xact bool) error {
	return s.stmt("", func() error {
		l := s.db.advLocks[key]
		if l != nil && l.owner != s {
			return &wouldBlock{adv: key}
		}
		if l == nil {
			l = &advLock{owner: s}
			s.db.advLocks[key] = l
		}
		l.count++
		if xact && s.inTx() && !s.implicit {
			t := s.top()
			t.advLocks = append(t.advLocks, key)
		} else if xact {
			// xact lock in autocommit mode: released at statement end
			l.count--
			if l.count <= 0 {
				delete(s.db.advLocks, key)
			}
		} else {
			s.sessAdv[key]++
		}
		return nil
	})
}

// advTryLockStmt: pg_try_advisory_[xact_]lock - takes the lock if it is free (or already ours) and says so;
// returns false at once when another session holds it.
func (s *Session) advTryLockStmt(key string, xact bool) (bool, error) {
	if l := s.db.advLocks[key]; l != nil && l.owner != s {
		return false, s.stmt("", func() error { return nil })
	}
	return true, s.advLockStmt(key, xact)
}

func (s *Session) advUnlockStmt(key string) (bool, error) {
	ok := false
	err := s.stmt("", func() error {
		if s.sessAdv[key] > 0 {
			s.sessAdv[key]--
			s.releaseAdvLocked(key)
			ok = true
		}
		return nil
	})
	return ok, err
}

// ---- snapshots for oracles ----

// CommittedSnapshot returns a shallow copy of the committed rows (row values are immutable).
func (db *DB) CommittedSnapshot() map[rowKey]any {
	db.mu.Lock()
	defer db.mu.Unlock()
	out := make(map[rowKey]any, len(db.committed))
	for k, v := range db.committed {
		out[k] = v
	}
	return out
}

func (db *DB) CommitsSince(n int) []CommitRec {
	db.mu.Lock()
	defer db.mu.Unlock()
	if n >= len(db.commits) {
		return nil
	}
	return append([]CommitRec(nil), db.commits[n:]...)
}

// LockSummary describes held locks (for liveness/leak oracles).
func (db *DB) LockSummary() (rowLocks int, advLocks []string, openTx int) {
	db.mu.Lock()
	defer db.mu.Unlock()
	for k := range db.advLocks {
		advLocks = append(advLocks, k)
	}
	sort.Strings(advLocks)
	for _, s := range db.sessions {
		if s.inTx() {
			openTx++
		}
	}
	return len(db.rowLocks), advLocks, openTx
}
