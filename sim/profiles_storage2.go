package sim

// More of the stage-2 profiles (kept in a second file).

import (
	"bytes"
	"encoding/json"
	"fmt"
	ledger "github.com/formancehq/ledger/internal"
	"strings"
)

// permuteExport keeps exactly the logs whose ids are listed, in the listed order.
func permuteExport(stream string, order []int) string {
	byID := map[int]string{}
	for _, line := range strings.Split(stream, "\n") {
		if strings.TrimSpace(line) == "" {
			continue
		}
		var l struct {
			ID int `json:"id"`
		}
		if json.Unmarshal([]byte(line), &l) == nil {
			byID[l.ID] = line
		}
	}
	var out bytes.Buffer
	for _, id := range order {
		if line, ok := byID[id]; ok {
			out.WriteString(line)
			out.WriteString("\n")
		}
	}
	return out.String()
}

// rehashExport recomputes the hashes of an export stream so that each log chains from the one before it IN THE
// STREAM (what a tool that reorders logs and fixes the hashes up would send): the importer's per-log hash check
// then passes, and only its id check stands between the stream and a chain that is not linear in id order.
func rehashExport(stream string) string {
	var out bytes.Buffer
	var prev *ledger.Log
	for _, line := range strings.Split(stream, "\n") {
		if strings.TrimSpace(line) == "" {
			continue
		}
		var l ledger.Log
		var b []byte
		err := func() (err error) {
			// a damaged line (C38 import-streams) may make the repository's own decoding or hashing panic: such
			// a line is sent as it is
			defer func() {
				if p := recover(); p != nil {
					err = fmt.Errorf("panic: %v", p)
				}
			}()
			if err := json.Unmarshal([]byte(line), &l); err != nil {
				return err
			}
			l.Hash = nil
			l.ComputeHash(prev)
			b, err = json.Marshal(l)
			return err
		}()
		if err != nil {
			out.WriteString(line + "\n")
			continue
		}
		out.Write(b)
		out.WriteString("\n")
		cp := l
		prev = &cp
	}
	return out.String()
}

// gaveUpOnDeadlock: the request's last deadlock was its last word - after being chosen as victim it made
// no further data statement (it rolled back and answered). A request that retried and got somewhere
// answers for what the retry met, not for the deadlock.
func (r *runner) gaveUpOnDeadlock(opID string) bool {
	r.w.db.mu.Lock()
	idx, was := r.w.victimTraceIdx[opID]
	r.w.db.mu.Unlock()
	if !was {
		return false
	}
	for _, s := range r.w.trace[min(idx, len(r.w.trace)):] {
		i := strings.IndexByte(s, ':')
		if i < 0 || opIDOf(s[:i]) != opID {
			continue
		}
		op := s[i+1:]
		if j := strings.IndexByte(op, ' '); j >= 0 {
			op = op[:j]
		}
		switch op {
		case "Rollback", "Commit", "UnlockLedger", "lockwait":
		default:
			return false
		}
	}
	return true
}

func init() {
	// C16, second profile: an import whose stream does not come in id order. Import commits log by log,
	// so a stream that goes backwards must be refused at the first log that is not above the previous one;
	// whatever was committed before that point keeps ids increasing in commit order.
	register(Profile{Property: "C16", Name: "import-order", Gen: func(r *RNG, seed uint64, tier string) (*Scenario, *ExploreCfg) {
		sc := &Scenario{Property: "C16", Profile: "import-order", Knobs: randomKnobs(r), Checks: []string{"ids", "replay"}, Params: map[string]string{"faults": "1"}}
		sc.Knobs.HashLogs = "DISABLED"
		g := &gen{r: r, sc: sc}
		feats := ledgerFeatures(sc.Knobs)
		sc.Setup = []Op{{ID: g.id("s"), Kind: KCreateLedger, Ledger: "src", Feats: feats}}
		n := 4 + r.Intn(3)
		for i := 0; i < n; i++ {
			sc.Setup = append(sc.Setup, Op{ID: g.id("h"), Kind: KPostings, Ledger: "src", Postings: []PostingSpec{{"world", fmt.Sprintf("g:%d", i), "10", "USD"}}})
		}
		sc.Setup = append(sc.Setup, Op{ID: g.id("s"), Kind: KExport, Ledger: "src"}, Op{ID: g.id("s"), Kind: KCreateLedger, Ledger: "dst", Feats: feats})
		// a permutation that stays increasing for a while and then steps back (but not below its first id)
		order := []int{}
		for i := 1; i <= n; i++ {
			order = append(order, i)
		}
		i := 1 + r.Intn(n-2)
		order[i], order[i+1] = order[i+1], order[i]
		if r.Chance(0.3) {
			j := r.Intn(n)
			k := r.Intn(n)
			order[j], order[k] = order[k], order[j]
		}
		if r.Chance(0.3) {
			// a prefix is already there
			sc.Setup = append(sc.Setup, Op{ID: g.id("s"), Kind: KImport, Ledger: "dst", From: "src", ImportTo: 1, Chunked: 1 << 20})
			var rest []int
			for _, id := range order {
				if id != 1 {
					rest = append(rest, id)
				}
			}
			order = rest
		}
		sc.Clients = [][]Op{{{ID: "c0.0", Kind: KImport, Ledger: "dst", From: "src", ImportOrder: order, Chunked: Pick(r, []int{64, 1 << 20})}}}
		return sc, defaultExplore(seed, 0, 0)
	}})
}

// onlyDeadlockFaults: the faults injected into the request, if any, were all deadlock errors - which the
// retry loop absorbs, so they must not change the request's final answer.
func onlyDeadlockFaults(fs []FaultAt) bool {
	for _, f := range fs {
		if f.Kind != FDeadlock {
			return false
		}
	}
	return true
}

func init() {
	// C19, second profile (read half, for the reads the interpreter can run): a ledger that is alone in its
	// bucket is read (log listing, export, transaction look-up) while a second ledger is created in the same
	// bucket and written to with the same ids and different contents. Every item a read returns must be a
	// row of the ledger that was asked.
	register(Profile{Property: "C19", Name: "bucket-growth", Gen: func(r *RNG, seed uint64, tier string) (*Scenario, *ExploreCfg) {
		sc := &Scenario{Property: "C19", Profile: "bucket-growth", Knobs: randomKnobs(r), Checks: []string{"isolation", "reads-stay-in-ledger", "replay", "statements-stay-in-ledger", "reads-are-scoped"}}
		g := &gen{r: r, sc: sc}
		feats := ledgerFeatures(sc.Knobs)
		sc.Setup = []Op{{ID: g.id("s"), Kind: KCreateLedger, Ledger: "g1", Feats: feats, Bucket: "grow"}}
		for i := 0; i < 1+r.Intn(2); i++ {
			sc.Setup = append(sc.Setup, Op{ID: g.id("s"), Kind: KPostings, Ledger: "g1", Postings: []PostingSpec{{"world", "u:1", fmt.Sprint(10 + i), "USD"}}})
		}
		get := func(id, l, path string) Op {
			return Op{ID: id, Kind: KRaw, Ledger: l, Raw: &Request{Method: "GET", Path: "/v2/" + l + path}}
		}
		reader := func(c int, l string) []Op {
			var ops []Op
			n := 2 + r.Intn(4)
			for i := 0; i < n; i++ {
				id := fmt.Sprintf("c%d.%d", c, i)
				switch r.Intn(5) {
				case 0:
					ops = append(ops, get(id, l, "/logs"))
				case 1:
					ops = append(ops, Op{ID: id, Kind: KExport, Ledger: l})
				case 2:
					ops = append(ops, get(id, l, "/transactions/1"))
				case 3:
					ops = append(ops, get(id, l, "/logs?pageSize=1"))
				default:
					ops = append(ops, Op{ID: id, Kind: KPostings, Ledger: l, Postings: []PostingSpec{{"world", "u:2", g.amount(true), "USD"}}})
				}
			}
			return ops
		}
		sc.Clients = [][]Op{reader(0, "g1")}
		grow := []Op{{ID: "c1.new", Kind: KCreateLedger, Ledger: "g2", Feats: feats, Bucket: "grow", Keep: true}}
		for i := 0; i < 2+r.Intn(3); i++ {
			grow = append(grow, Op{ID: fmt.Sprintf("c1.%d", i), Kind: KPostings, Ledger: "g2", Postings: []PostingSpec{{"world", "other:1", fmt.Sprint(1000 + i), "EUR/2"}}})
		}
		sc.Clients = append(sc.Clients, grow)
		if r.Bool() {
			sc.Clients = append(sc.Clients, reader(2, "g1"))
		}
		sc.Post = []Op{{ID: g.id("p"), Kind: KExport, Ledger: "g1"}, get(g.id("p"), "g1", "/logs"), {ID: g.id("p"), Kind: KExport, Ledger: "g2"}}
		ex := defaultExplore(seed, 0, 0)
		ex.PreemptP = Pick(r, []float64{0.1, 0.3, 0.6})
		ex.StallP = 0.06 // a request that stalls between opening the ledger and reading it
		return sc, ex
	}})
}

// checkReadsStayInLedger (C19, read half): every log or transaction a read answer carries is a committed
// row of the ledger the request addressed, item for item.
func checkReadsStayInLedger(r *runner, views map[string]*LedgerView) []Violation {
	var vs []Violation
	prop := r.sc.Property
	// when was each ledger created (event number of the commit that added its _system.ledgers row)
	created := map[string]uint64{}
	bucketOf := map[string]string{}
	for _, rec := range r.w.db.CommitsSince(0) {
		for _, wr := range rec.Writes {
			if wr.Key.Table == "ledger" && wr.Before == nil && wr.After != nil {
				created[wr.Key.Key] = rec.Event
				bucketOf[wr.Key.Key] = wr.After.(*LedgerRow).Bucket
			}
		}
	}
	// The alone-in-bucket shortcut leaves the ledger predicate out of a read while the ledger is the only
	// one of its bucket; a read that is in flight when a second ledger is added to the bucket is the known
	// shape (known_findings.json). A read sent after the bucket already held two ledgers is not.
	tagOf := func(or *OpResult) string {
		for name, ev := range created {
			if name != or.Op.Ledger && bucketOf[name] == bucketOf[or.Op.Ledger] && ev > or.Out.Invoke && ev < or.Out.Return {
				return " [ledger " + name + " was added to the bucket while this read was in flight]"
			}
		}
		return " [the bucket already held its ledgers when the read was sent]"
	}
	logByID := func(v *LedgerView, id uint64) *LogRow {
		for _, l := range v.Logs {
			if l.ID == id {
				return l
			}
		}
		return nil
	}
	checkLog := func(or *OpResult, v *LedgerView, raw json.RawMessage) {
		var l struct {
			ID   uint64          `json:"id"`
			Data json.RawMessage `json:"data"`
		}
		if json.Unmarshal(raw, &l) != nil {
			return
		}
		row := logByID(v, l.ID)
		switch {
		case row == nil:
			vs = append(vs, Violation{prop, "reads-return-only-the-ledgers-own-rows", fmt.Sprintf("%s (%s on ledger %s) returned log %d, which that ledger does not hold%s", or.Op.ID, or.Op.Kind, or.Op.Ledger, l.ID, tagOf(or))})
		default:
			// the listing re-marshals the payload: compare what identifies the write
			var a, b struct {
				Transaction struct {
					Postings json.RawMessage `json:"postings"`
				} `json:"transaction"`
			}
			_ = json.Unmarshal(l.Data, &a)
			_ = json.Unmarshal(row.DataJSON, &b)
			if len(a.Transaction.Postings) > 0 && !jsonEq(a.Transaction.Postings, b.Transaction.Postings) {
				vs = append(vs, Violation{prop, "reads-return-only-the-ledgers-own-rows", fmt.Sprintf("%s (%s on ledger %s) returned log %d with postings %s; that ledger's log %d has %s%s", or.Op.ID, or.Op.Kind, or.Op.Ledger, l.ID, a.Transaction.Postings, l.ID, b.Transaction.Postings, tagOf(or))})
			}
		}
	}
	for _, or := range r.results {
		if or.Out.Class != "ok" || len(or.Out.Body) == 0 {
			continue
		}
		v := views[or.Op.Ledger]
		if v == nil {
			continue
		}
		switch {
		case or.Op.Kind == KExport:
			seen := map[uint64]bool{}
			for _, line := range strings.Split(string(or.Out.Body), "\n") {
				if strings.TrimSpace(line) == "" {
					continue
				}
				var l struct {
					ID uint64 `json:"id"`
				}
				if json.Unmarshal([]byte(line), &l) == nil {
					if seen[l.ID] {
						vs = append(vs, Violation{prop, "reads-return-only-the-ledgers-own-rows", fmt.Sprintf("%s: export of ledger %s carries log id %d twice%s", or.Op.ID, or.Op.Ledger, l.ID, tagOf(or))})
					}
					seen[l.ID] = true
				}
				checkLog(or, v, json.RawMessage(line))
			}
		case or.Op.Kind == KRaw && or.Op.Raw != nil && strings.Contains(or.Op.Raw.Path, "/logs"):
			var env struct {
				Cursor struct {
					Data []json.RawMessage `json:"data"`
				} `json:"cursor"`
			}
			if json.Unmarshal(or.Out.Body, &env) == nil {
				for _, item := range env.Cursor.Data {
					checkLog(or, v, item)
				}
			}
		case or.Op.Kind == KRaw && or.Op.Raw != nil && strings.Contains(or.Op.Raw.Path, "/transactions/"):
			t := parseTx(or.Out.Data)
			if t == nil {
				continue
			}
			stored := v.Txs[t.ID]
			if stored == nil {
				vs = append(vs, Violation{prop, "reads-return-only-the-ledgers-own-rows", fmt.Sprintf("%s on ledger %s returned transaction %d, which that ledger does not hold%s", or.Op.ID, or.Op.Ledger, t.ID, tagOf(or))})
				continue
			}
			if len(t.Postings) != len(stored.Postings) || (len(t.Postings) > 0 && (t.Postings[0].Destination != stored.Postings[0].Destination || t.Postings[0].Amount != stored.Postings[0].Amount.String())) {
				vs = append(vs, Violation{prop, "reads-return-only-the-ledgers-own-rows", fmt.Sprintf("%s on ledger %s returned transaction %d with postings %v; that ledger's transaction %d has %v%s", or.Op.ID, or.Op.Ledger, t.ID, t.Postings, t.ID, stored.Postings, tagOf(or))})
			}
		}
	}
	return dedupViolations(vs)
}

func init() {
	// C19, long-lived stores: a replication pipeline opens its ledger once and keeps the store. The scenario is
	// the replication world's (profiles_repl.go) with one ledger alone in its bucket when the pipelines start,
	// and a sibling ledger that joins the bucket and is written to while they run; only the clause "what a
	// pipeline hands to the exporter is its own ledger's log" is judged here (the delivery clauses are C33's).
	register(Profile{Property: "C19", Name: "pipeline-reads", Gen: func(r *RNG, seed uint64, tier string) (*Scenario, *ExploreCfg) {
		sc, ex := profiles["C33"][0].Gen(r, seed, tier)
		sc.Property, sc.Profile, sc.Checks = "C19", "pipeline-reads", []string{"pipeline-reads-own-ledger"}
		late := false
		for _, c := range sc.Clients {
			for _, op := range c {
				late = late || (op.Kind == KCreateLedger && op.Ledger == "l9")
			}
		}
		if !late {
			sc.Clients = append(sc.Clients, []Op{{ID: "cl.0", Kind: KSleep, SleepMs: Pick(r, []int{1, 30, 800})}, {ID: "cl.1", Kind: KCreateLedger, Ledger: "l9"},
				{ID: "cl.2", Kind: KPostings, Ledger: "l9", Postings: []PostingSpec{{"world", "late", "7", "EUR"}}},
				{ID: "cl.3", Kind: KPostings, Ledger: "l9", Postings: []PostingSpec{{"late", "later", "3", "EUR"}}}})
		}
		return sc, ex
	}})
}

// ---------------------------------------------------------------- C35, read side

// checkReadsRespectFeatures: no read of the run sent a statement that needs a feature its ledger has disabled
// (realdriver.go:auditRead). The storage layer raises the missing-feature refusal before it sends anything, so a
// statement on moves / post_commit_effective_volumes for a ledger that does not fill them means the read was
// answered (wrongly: from nothing) instead of refused.
func checkReadsRespectFeatures(r *runner) []Violation {
	var vs []Violation
	r.w.mu.Lock()
	ms := append([]FeatureMisread(nil), r.w.misreads...)
	r.w.mu.Unlock()
	seen := map[string]bool{}
	for _, m := range ms {
		var op *Op
		if or := r.byID[opIDOf(m.Task)]; or != nil {
			op = or.Op
		}
		what := m.Task
		if op != nil && op.Raw != nil {
			what = fmt.Sprintf("%s (%s %s %s)", m.Task, op.Raw.Method, op.Raw.Path, op.Raw.Body)
		}
		k := what + m.Feature
		if seen[k] {
			continue
		}
		seen[k] = true
		if strings.HasSuffix(m.Feature, "_METADATA_HISTORY") {
			vs = append(vs, Violation{r.sc.Property, "metadata-history-is-only-read-where-it-is-kept", fmt.Sprintf("%s on ledger %s, whose %s is %q, reads the metadata history, which nothing fills for that ledger (the current metadata is what such a read must use): the storage layer sent %s %s", what, m.Ledger, m.Feature, m.Value, m.SQL, misreadTag(op, m))})
			continue
		}
		vs = append(vs, Violation{r.sc.Property, "read-needing-a-disabled-feature-is-refused", fmt.Sprintf("%s on ledger %s, whose %s is %q, was not refused: the storage layer sent %s %s", what, m.Ledger, m.Feature, m.Value, m.SQL, misreadTag(op, m))})
	}
	// ... and a refusal is a client error naming the feature, never a 5xx (no fault is injected into these reads)
	for _, or := range r.results {
		if or.Op.Kind != KRaw || or.Op.Raw == nil || or.Op.Raw.Method != "GET" || len(or.Faults) > 0 {
			continue
		}
		r.w.mu.Lock()
		why, refused := r.w.refusals[or.Op.ID]
		r.w.mu.Unlock()
		if refused && or.Out.Class != "client_err" {
			vs = append(vs, Violation{r.sc.Property, "a-refused-read-is-a-client-error", fmt.Sprintf("%s GET %s %s on ledger %s (features %v): the storage layer refused it (%s) and the answer is %d %s %s", or.Op.ID, or.Op.Raw.Path, or.Op.Raw.Body, or.Op.Ledger, r.featuresOf(or.Op.Ledger), why, or.Out.Status, or.Out.Code, or.Out.Msg)})
		}
	}
	return vs
}

func (r *runner) featuresOf(name string) map[string]string {
	if row, ok := r.state[rowKey{"ledger", "", name}].(*LedgerRow); ok {
		return row.Features
	}
	return nil
}

// misreadTag names the handler at fault (stable text: known findings are keyed on it).
func misreadTag(op *Op, m FeatureMisread) string {
	if op == nil || op.Raw == nil {
		return "[?]"
	}
	path := op.Raw.Path
	if i := strings.Index(path, "?"); i >= 0 {
		path = path[:i]
	}
	parts := strings.Split(strings.Trim(path, "/"), "/")
	res := "?"
	if len(parts) >= 3 {
		res = parts[2]
		if res == "aggregate" && len(parts) >= 4 {
			res = "aggregate/" + parts[3]
		}
	}
	kind := "read"
	switch {
	case strings.Contains(op.Raw.Path, "expand=effectiveVolumes"):
		kind = "expand=effectiveVolumes"
	case strings.Contains(op.Raw.Path, "expand=volumes"):
		kind = "expand=volumes"
	case strings.Contains(op.Raw.Body, "balance"):
		kind = "balance filter"
	case strings.Contains(op.Raw.Body, "metadata"):
		kind = "metadata filter"
	}
	pit := "no pit"
	if strings.Contains(op.Raw.Path, "pit=") || strings.Contains(op.Raw.Path, "endTime=") {
		pit = "pit"
	} else if strings.Contains(op.Raw.Path, "oot=") || strings.Contains(op.Raw.Path, "startTime=") {
		pit = "oot only"
	}
	return fmt.Sprintf("[%s %s, %s, needs %s]", res, kind, pit, m.Feature)
}

// featureReads: reads that may need a feature, for one ledger (appended to a client of the C35 profile).
func featureReads(r *RNG, l string, prefix string, txN uint64) []Op {
	pits := []string{"2000-01-01T00:00:00Z", "1999-07-01T00:00:00Z", "2031-01-01T00:00:00Z", "2000-01-01T00:00:00.012Z", "2000-01-01T00:00:00.030Z", "2000-01-01T00:00:00.055Z", "2000-01-01T00:00:00.090Z", "2000-01-01T00:00:00.160Z"}
	var out []Op
	get := func(path, body string) {
		req := &Request{Method: "GET", Path: path}
		if body != "" {
			req.Body = body
			req.Header = map[string]string{"Content-Type": "application/json"}
		}
		out = append(out, Op{ID: fmt.Sprintf("%s.r%d", prefix, len(out)), Kind: KRaw, Ledger: l, Raw: req})
	}
	n := 2 + r.Intn(5)
	for i := 0; i < n; i++ {
		before := len(out)
		pit := ""
		switch r.Intn(4) {
		case 0, 1:
			pit = "pit=" + Pick(r, pits)
		case 2:
			pit = ""
		}
		q := func(parts ...string) string {
			var ps []string
			for _, p := range parts {
				if p != "" {
					ps = append(ps, p)
				}
			}
			if len(ps) == 0 {
				return ""
			}
			return "?" + strings.Join(ps, "&")
		}
		switch r.Intn(9) {
		case 0:
			// volumes over a period: pit (endTime), oot (startTime), both, with either date
			var ps []string
			switch r.Intn(4) {
			case 0:
				ps = append(ps, "endTime="+Pick(r, pits))
			case 1:
				ps = append(ps, "startTime="+Pick(r, pits))
			case 2:
				ps = append(ps, "startTime="+pits[1], "endTime="+pits[0])
			}
			if r.Chance(0.4) {
				ps = append(ps, "insertionDate=true")
			}
			if r.Chance(0.3) {
				ps = append(ps, "groupBy=1")
			}
			get("/v2/"+l+"/volumes"+q(ps...), "")
		case 1:
			ins := ""
			if r.Chance(0.5) {
				ins = "useInsertionDate=true"
			}
			get("/v2/"+l+"/aggregate/balances"+q(pit, ins), "")
		case 2:
			get("/v2/"+l+"/accounts"+q(pit, Pick(r, []string{"", "expand=volumes", "expand=effectiveVolumes"})), "")
		case 3:
			get("/v2/"+l+"/accounts"+q(pit), Pick(r, []string{`{"$gt":{"balance[USD]":0}}`, `{"$lt":{"balance":100}}`}))
		case 4:
			get("/v2/"+l+"/accounts/"+Pick(r, users)+q(pit, Pick(r, []string{"", "expand=volumes", "expand=effectiveVolumes"})), "")
		case 5:
			get("/v2/"+l+"/transactions"+q(pit, Pick(r, []string{"", "expand=effectiveVolumes", "expand=volumes"})), "")
		case 6:
			if txN > 0 {
				get(fmt.Sprintf("/v2/%s/transactions/%d", l, 1+r.Intn(int(txN)))+q(pit, Pick(r, []string{"", "expand=effectiveVolumes"})), "")
			}
		case 7:
			get("/v2/"+l+"/logs"+q(pit), "")
		default:
			get("/v2/"+l+"/accounts"+q(pit), `{"$match":{"address":"u:"}}`)
		}
		// the same reads with a filter on metadata (point-in-time metadata comes from the history tables)
		if len(out) == before {
			continue
		}
		if last := &out[len(out)-1]; last.Raw.Body == "" && r.Chance(0.35) && !strings.Contains(last.Raw.Path, "/accounts/") && !strings.Contains(last.Raw.Path, "/transactions/") && !strings.Contains(last.Raw.Path, "/logs") {
			last.Raw.Body = Pick(r, []string{`{"$match":{"metadata[ak0]":"v"}}`, `{"$exists":{"metadata":"ak1"}}`, `{"$match":{"metadata[t]":"1"}}`})
			last.Raw.Header = map[string]string{"Content-Type": "application/json"}
		}
	}
	return out
}

// ---------------------------------------------------------------- C19, read half, statement level

// checkReadsAreScoped: while a ledger shares its bucket, every reference a read statement makes to a table of
// the bucket carries that ledger's predicate (the tables of a bucket hold the rows of all its ledgers). This
// is judged on the text of every statement the real storage layer sends for a read - also the ones the
// interpreter cannot execute (window functions, lateral joins, history tables).
func checkReadsAreScoped(r *runner) []Violation {
	var vs []Violation
	r.w.mu.Lock()
	us := append([]UnscopedRead(nil), r.w.unscoped...)
	r.w.mu.Unlock()
	if len(us) == 0 {
		return nil
	}
	created := map[string]uint64{}
	bucketOf := map[string]string{}
	for _, rec := range r.w.db.CommitsSince(0) {
		for _, wr := range rec.Writes {
			if wr.Key.Table == "ledger" && wr.Before == nil && wr.After != nil {
				created[wr.Key.Key] = rec.Event
				bucketOf[wr.Key.Key] = wr.After.(*LedgerRow).Bucket
			}
		}
	}
	seen := map[string]bool{}
	for _, u := range us {
		var sibling string
		inFlight := false
		or := r.byID[opIDOf(u.Task)]
		for _, name := range sortedKeys(created) {
			if name == u.Ledger || bucketOf[name] != u.Bucket || created[name] >= u.Event {
				continue
			}
			sibling = name
			if or != nil && created[name] > or.Out.Invoke {
				inFlight = true
			} else {
				inFlight = false
				break
			}
		}
		if sibling == "" {
			continue // alone in its bucket when the statement was sent: the shortcut is legitimate
		}
		tag := " [the bucket already held its ledgers when the read was sent]"
		if inFlight {
			tag = " [ledger " + sibling + " was added to the bucket while this read was in flight]"
		}
		k := u.Task + tag
		if seen[k] {
			continue
		}
		seen[k] = true
		vs = append(vs, Violation{r.sc.Property, "read-statements-are-scoped-to-the-ledger", fmt.Sprintf("%s on ledger %s (bucket %s, shared with %s) sent a statement with %d references to tables of the bucket %v and %d ledger predicates: %s%s", u.Task, u.Ledger, u.Bucket, sibling, u.Refs, u.Tables, u.Scoped, u.SQL, tag)})
	}
	return vs
}

func init() {
	// C19, read half at statement level: ledgers sharing a bucket (and one alone in its own, joined by a sibling
	// half-way), the same account addresses carrying metadata and funds in each, then reads of every kind -
	// point in time, expansions, filters, volumes, aggregated balances. The statements the real storage layer
	// builds for them are audited for their ledger predicates; the answers the simulation can produce are
	// checked item for item.
	register(Profile{Property: "C19", Name: "read-statements", Gen: func(r *RNG, seed uint64, tier string) (*Scenario, *ExploreCfg) {
		sc := &Scenario{Property: "C19", Profile: "read-statements", Knobs: randomKnobs(r), Checks: []string{"reads-are-scoped", "reads-stay-in-ledger", "isolation", "statements-stay-in-ledger"},
			Params: map[string]string{"lenient_reads": "1"}}
		g := &gen{r: r, sc: sc}
		feats := func() map[string]string {
			if r.Chance(0.5) {
				return nil
			}
			return map[string]string{"ACCOUNT_METADATA_HISTORY": Pick(r, []string{"SYNC", "DISABLED"}), "TRANSACTION_METADATA_HISTORY": Pick(r, []string{"SYNC", "DISABLED"}),
				"MOVES_HISTORY": Pick(r, []string{"ON", "ON", "OFF"})}
		}
		sc.Setup = []Op{
			{ID: g.id("s"), Kind: KCreateLedger, Ledger: "la", Feats: feats()},
			{ID: g.id("s"), Kind: KCreateLedger, Ledger: "lb", Feats: feats()},
			{ID: g.id("s"), Kind: KCreateLedger, Ledger: "lc", Bucket: "b2", Feats: feats()},
		}
		for i, l := range []string{"la", "lb", "lc"} {
			for j := 0; j < 1+r.Intn(3); j++ {
				sc.Setup = append(sc.Setup, Op{ID: g.id("s"), Kind: KPostings, Ledger: l, Postings: []PostingSpec{{"world", Pick(r, users), fmt.Sprint(10*(i+1) + j), Pick(r, assets)}},
					Metadata: map[string]string{"of": l}, Timestamp: g.timestamp()})
			}
			sc.Setup = append(sc.Setup, Op{ID: g.id("s"), Kind: KAcctMetaSet, Ledger: l, Address: Pick(r, users), Metadata: map[string]string{"k": "of-" + l}})
			if r.Chance(0.5) {
				sc.Setup = append(sc.Setup, Op{ID: g.id("s"), Kind: KAcctMetaSet, Ledger: l, Address: "u:1", Metadata: map[string]string{"k": "again-" + l, "of": l}})
			}
		}
		nc := 1 + r.Intn(2)
		for c := 0; c < nc; c++ {
			var ops []Op
			for _, l := range []string{"la", "lb", "lc"} {
				if r.Chance(0.25) {
					continue
				}
				reads := featureReads(r, l, fmt.Sprintf("c%d%s", c, l), 1)
				for i := range reads {
					if reads[i].Raw.Body == "" && r.Chance(0.4) && !strings.Contains(reads[i].Raw.Path, "/accounts/") && !strings.Contains(reads[i].Raw.Path, "/transactions/") {
						reads[i].Raw.Body = Pick(r, fieldFilters)
						reads[i].Raw.Header = map[string]string{"Content-Type": "application/json"}
					}
				}
				ops = append(ops, reads...)
			}
			for i := len(ops) - 1; i > 0; i-- {
				j := r.Intn(i + 1)
				ops[i], ops[j] = ops[j], ops[i]
			}
			for i := range ops {
				ops[i].ID = fmt.Sprintf("c%d.%d", c, i)
			}
			sc.Clients = append(sc.Clients, ops)
		}
		if r.Chance(0.4) {
			// the lonely ledger gets a sibling while reads run
			sc.Clients = append(sc.Clients, []Op{{ID: "cg.0", Kind: KCreateLedger, Ledger: "ld", Bucket: "b2"},
				{ID: "cg.1", Kind: KPostings, Ledger: "ld", Postings: []PostingSpec{{"world", "u:1", "77", "USD"}}, Metadata: map[string]string{"of": "ld"}}})
		}
		ex := defaultExplore(seed, 0, 0)
		ex.PreemptP = 0.4
		return sc, ex
	}})
}

// ---------------------------------------------------------------- C17, second and third sentence, statement level

// checkMetadataHistoryReads: a read of accounts or transactions at a point in time consults the metadata history
// when - and only when - the ledger keeps one (ACCOUNT_METADATA_HISTORY / TRANSACTION_METADATA_HISTORY = SYNC).
// Judged on the tables the statements of the read reference; what PostgreSQL returns for them is not evaluated.
func checkMetadataHistoryReads(r *runner) []Violation {
	var vs []Violation
	for _, or := range r.results {
		if or.Op.Kind != KRaw || or.Op.Raw == nil || or.Op.Raw.Method != "GET" || !strings.Contains(or.Op.Raw.Path, "pit=") {
			continue
		}
		path, _, _ := strings.Cut(or.Op.Raw.Path, "?")
		parts := strings.Split(strings.Trim(path, "/"), "/")
		if len(parts) < 3 || parts[0] != "v2" {
			continue
		}
		var feature, table string
		switch parts[2] {
		case "transactions":
			feature, table = "TRANSACTION_METADATA_HISTORY", "transactions_metadata"
		case "accounts":
			feature, table = "ACCOUNT_METADATA_HISTORY", "accounts_metadata"
		default:
			continue
		}
		r.w.mu.Lock()
		tabs := r.w.readTables[or.Op.ID]
		_, refused := r.w.refusals[or.Op.ID]
		r.w.mu.Unlock()
		if len(tabs) == 0 || refused || !tabs[parts[2]] {
			continue // the read never reached the main listing statement (refused, not found, model-served)
		}
		feats := r.featuresOf(or.Op.Ledger)
		val := feats[feature]
		if val == "" {
			val = "SYNC" // the default
		}
		switch {
		case val == "SYNC" && !tabs[table]:
			vs = append(vs, Violation{r.sc.Property, "a-read-at-a-point-in-time-consults-the-metadata-history", fmt.Sprintf("%s GET %s on ledger %s, whose %s is SYNC, referenced only %v: the metadata it returns is the current one, not the metadata at that time", or.Op.ID, or.Op.Raw.Path, or.Op.Ledger, feature, sortedKeys(tabs))})
		case val != "SYNC" && tabs[table]:
			vs = append(vs, Violation{r.sc.Property, "metadata-history-is-only-read-where-it-is-kept", fmt.Sprintf("%s GET %s on ledger %s, whose %s is %q, referenced %v: nothing fills %s for that ledger [%s %s]", or.Op.ID, or.Op.Raw.Path, or.Op.Ledger, feature, val, sortedKeys(tabs), table, parts[2], feature)})
		}
	}
	return vs
}

func init() {
	// C17, history sentences: the C35 scenario (two ledgers with independently drawn features, the same history of
	// creates, metadata saves and deletes, then reads with and without a point in time), judged for where the
	// point-in-time reads take their metadata from.
	register(Profile{Property: "C17", Name: "history-reads", Gen: func(r *RNG, seed uint64, tier string) (*Scenario, *ExploreCfg) {
		sc, ex := profiles["C35"][0].Gen(r, seed, tier)
		sc.Property, sc.Profile, sc.Checks = "C17", "history-reads", []string{"metadata-history-reads", "current-metadata", "metadata-history-rows", "metadata-at-pit"}
		return sc, ex
	}})
}

// ---------------------------------------------------------------- C19, both halves, execution level

// checkStatementsStayInLedger: no statement the real storage layer executed on behalf of one ledger matched -
// returned, locked (FOR UPDATE), updated or deleted - a row of another ledger of the bucket. Judged by the
// interpreter on every statement it executes (reads and the whole write path), whatever the statement's text.
func checkStatementsStayInLedger(r *runner) []Violation {
	var vs []Violation
	r.w.mu.Lock()
	fs := append([]ForeignRow(nil), r.w.foreign...)
	r.w.mu.Unlock()
	if len(fs) == 0 {
		return nil
	}
	created := map[string]uint64{}
	for _, rec := range r.w.db.CommitsSince(0) {
		for _, wr := range rec.Writes {
			if wr.Key.Table == "ledger" && wr.Before == nil && wr.After != nil {
				created[wr.Key.Key] = rec.Event
			}
		}
	}
	seen := map[string]bool{}
	for _, f := range fs {
		tag := " [the bucket already held its ledgers when the request was sent]"
		if or := r.byID[opIDOf(f.Task)]; or != nil && created[f.RowLedger] > or.Out.Invoke {
			tag = " [ledger " + f.RowLedger + " was added to the bucket while this read was in flight]"
		}
		k := f.Task + f.Table + tag
		if seen[k] {
			continue
		}
		seen[k] = true
		vs = append(vs, Violation{r.sc.Property, "statements-touch-only-their-ledgers-rows", fmt.Sprintf("%s, a request on ledger %s, executed a statement that matched a row of ledger %s (table %s, key %s): %s%s", f.Task, f.Ledger, f.RowLedger, f.Table, strings.ReplaceAll(f.Key, "\x00", "/"), f.SQL, tag)})
	}
	return vs
}

func init() {
	// C09, import: a stream whose ids do not come in order and whose hashes were recomputed to chain in STREAM
	// order. The importer checks each log's hash against the chain it is building, so these hashes pass; the
	// chain stays linear in id order only because the importer refuses a log whose id is not above the previous
	// one. Whatever it committed before refusing must chain in id order, and so must the first write after it.
	register(Profile{Property: "C09", Name: "import-reordered", Gen: func(r *RNG, seed uint64, tier string) (*Scenario, *ExploreCfg) {
		sc := &Scenario{Property: "C09", Profile: "import-reordered", Knobs: randomKnobs(r), Checks: []string{"hash-chain", "log-order"}, Params: map[string]string{}}
		sc.Knobs.HashLogs = "SYNC"
		g := &gen{r: r, sc: sc}
		feats := ledgerFeatures(sc.Knobs)
		sc.Setup = []Op{{ID: g.id("s"), Kind: KCreateLedger, Ledger: "src", Feats: feats}}
		n := 4 + r.Intn(3)
		for i := 0; i < n; i++ {
			sc.Setup = append(sc.Setup, Op{ID: g.id("h"), Kind: KPostings, Ledger: "src", Postings: []PostingSpec{{"world", fmt.Sprintf("g:%d", i), "10", "USD"}}})
		}
		sc.Setup = append(sc.Setup, Op{ID: g.id("s"), Kind: KExport, Ledger: "src"}, Op{ID: g.id("s"), Kind: KCreateLedger, Ledger: "dst", Feats: feats})
		order := []int{}
		for i := 1; i <= n; i++ {
			order = append(order, i)
		}
		i := r.Intn(n - 1)
		order[i], order[i+1] = order[i+1], order[i]
		if r.Chance(0.3) {
			j, k := r.Intn(n), r.Intn(n)
			order[j], order[k] = order[k], order[j]
		}
		if r.Chance(0.3) {
			order = order[:len(order)-1] // a gap instead of the last log
		}
		ops := []Op{{ID: "c0.0", Kind: KImport, Ledger: "dst", From: "src", ImportOrder: order, ImportRehash: true, Chunked: Pick(r, []int{64, 1 << 20})}}
		// then ordinary writes on the destination, whatever the import left there
		for w := 0; w < 1+r.Intn(2); w++ {
			ops = append(ops, Op{ID: fmt.Sprintf("c0.%d", w+1), Kind: KPostings, Ledger: "dst", Postings: []PostingSpec{{"world", "after", "1", "USD"}}})
		}
		sc.Clients = [][]Op{ops}
		return sc, defaultExplore(seed, 0, 0)
	}})
}

func init() {
	// C14 on the import path: a stream in which two transactions carry the same reference (an export whose second
	// occurrence was rewritten, hashes recomputed). The import must stop at the second one, say why, and leave at
	// most one transaction with that reference.
	register(Profile{Property: "C14", Name: "import-repeated-reference", Gen: func(r *RNG, seed uint64, tier string) (*Scenario, *ExploreCfg) {
		sc := &Scenario{Property: "C14", Profile: "import-repeated-reference", Knobs: randomKnobs(r), Checks: []string{"references", "import-reference"}, Params: map[string]string{}}
		g := &gen{r: r, sc: sc}
		feats := ledgerFeatures(sc.Knobs)
		sc.Setup = []Op{{ID: g.id("s"), Kind: KCreateLedger, Ledger: "src", Feats: feats}}
		n := 3 + r.Intn(3)
		for i := 0; i < n; i++ {
			sc.Setup = append(sc.Setup, Op{ID: g.id("h"), Kind: KPostings, Ledger: "src", Reference: fmt.Sprintf("ref-%d", i), Postings: []PostingSpec{{"world", fmt.Sprintf("g:%d", i), "10", "USD"}}})
		}
		sc.Setup = append(sc.Setup, Op{ID: g.id("s"), Kind: KExport, Ledger: "src"}, Op{ID: g.id("s"), Kind: KCreateLedger, Ledger: "dst", Feats: feats})
		j := 1 + r.Intn(n-1)
		i := r.Intn(j)
		sc.Params["repeated"] = fmt.Sprintf("ref-%d", i)
		sc.Clients = [][]Op{{{ID: "c0.0", Kind: KImport, Ledger: "dst", From: "src", Chunked: Pick(r, []int{64, 1 << 20}),
			ImportSubst: [2]string{fmt.Sprintf(`"reference":"ref-%d"`, j), fmt.Sprintf(`"reference":"ref-%d"`, i)}}}}
		return sc, defaultExplore(seed, 0, 0)
	}})
}

// checkImportReference: the import of a stream that repeats a reference is refused as an import error that names
// the reference conflict (not an internal error, not another diagnosis).
func checkImportReference(r *runner) []Violation {
	var vs []Violation
	for _, or := range r.results {
		if or.Op.Kind != KImport || or.Op.ImportSubst[0] == "" || len(or.Faults) > 0 {
			continue
		}
		switch {
		case or.Out.Class == "ok":
			vs = append(vs, Violation{r.sc.Property, "an-import-repeating-a-reference-is-refused-for-it", fmt.Sprintf("%s: the stream carries reference %s twice and the import answered %d", or.Op.ID, r.sc.Params["repeated"], or.Out.Status)})
		case or.Out.Class != "client_err" || !strings.Contains(strings.ToLower(or.Out.Msg), "reference"):
			vs = append(vs, Violation{r.sc.Property, "an-import-repeating-a-reference-is-refused-for-it", fmt.Sprintf("%s: the stream carries reference %s twice; the import answered %d %s %q, which is not a reference-conflict refusal", or.Op.ID, r.sc.Params["repeated"], or.Out.Status, or.Out.Code, or.Out.Msg)})
		}
	}
	return vs
}
