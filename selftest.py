#!/usr/bin/env python3
"""Determinism self-test: every profile, N run indices, each executed in 3 fresh processes at
GOMAXPROCS 1 / 4 / 16; the full event logs (every scheduler decision, every store call with its
arguments digest, every commit, every response kind, the violations found) must be byte-identical.
exit 0 = deterministic, 2 = divergence (infrastructure trouble, never a verdict)."""
import os, subprocess, sys, shutil, filecmp, json

VERIF = os.path.dirname(os.path.abspath(__file__))
BIN = os.path.join(VERIF, "bin", "ledgersim.test")
SIM = os.path.join(VERIF, "sim")

def main():
    props = sys.argv[1].split(",") if len(sys.argv) > 1 else None
    runs = int(sys.argv[2]) if len(sys.argv) > 2 else 40
    seeds = [int(s) for s in (sys.argv[3].split(",") if len(sys.argv) > 3 else ["1", "7"])]
    if props is None:
        m = json.load(open(os.path.join(VERIF, "MANIFEST.json")))
        props = [c["property_id"] for c in m["checks"]]
    base = os.path.join(VERIF, "bin", "selftest")
    shutil.rmtree(base, ignore_errors=True)
    bad = 0
    total = 0
    for prop in props:
        for seed in seeds:
            dirs = []
            procs = []
            for cpu in (1, 4, 16):
                d = os.path.join(base, "%s-%d-cpu%d" % (prop, seed, cpu))
                os.makedirs(d, exist_ok=True)
                dirs.append(d)
                cmd = [BIN, "-test.run", "^TestSim$", "-test.cpu", str(cpu), "-sim.property", prop, "-sim.seed", str(seed),
                       "-sim.runs", str(runs), "-sim.budget", "10m", "-sim.logdir", d, "-sim.out", os.path.join(d, "out.json"),
                       "-sim.replaydir", os.path.join(d, "replays"), "-sim.known", os.path.join(VERIF, "known_findings.json")]
                procs.append(subprocess.Popen(cmd, cwd=SIM, stdout=subprocess.DEVNULL, stderr=subprocess.DEVNULL))
            for p in procs:
                try:
                    p.wait(timeout=1200)
                except subprocess.TimeoutExpired:
                    p.kill()
                    bad += 1
                    print("WATCHDOG %s seed %d: a self-test process exceeded 20 minutes and was killed" % (prop, seed))
            names = sorted(f for f in os.listdir(dirs[0]) if f.endswith(".log"))
            for n in names:
                total += 1
                for d in dirs[1:]:
                    f2 = os.path.join(d, n)
                    if not os.path.exists(f2) or not filecmp.cmp(os.path.join(dirs[0], n), f2, shallow=False):
                        bad += 1
                        print("DIVERGENCE %s: %s vs %s" % (n, dirs[0], d))
                        break
    print("selftest: %d run logs compared across GOMAXPROCS 1/4/16, %d divergent" % (total, bad))
    if bad == 0:
        shutil.rmtree(base, ignore_errors=True)
    sys.exit(2 if bad else 0)

if __name__ == "__main__":
    main()
