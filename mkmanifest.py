#!/usr/bin/env python3
"""Writes /verif/MANIFEST.json from the tables below (single source of truth for what is claimed)."""
import json, os

VERIF = os.path.dirname(os.path.abspath(__file__))

TRUSTED = ("Assumes the store contract S1-S14 of DESIGN.md section 4: simpg stands in for PostgreSQL. In two runs out of three (real-SQL runs, DESIGN.md section 15) the write-path data methods of "
           "internal/storage/ledger execute for real and the SQL text they build is interpreted by sqlmini over hand-declared tables (columns, defaults, primary keys and unique indexes copied from the migrations; "
           "the triggers set_log_hash, effective volumes and updated_at re-implemented in Go); in the other runs those methods are served by the contract model. The read/resource queries never run. "
           "Real code: API router and handlers, system controller and state tracker, ledger controller stack, Numscript machine and interpreter, "
           "storage/ledger/store.go transaction control and (real-SQL runs) balances.go, volumes.go, transactions.go, moves.go, accounts.go, logs.go, schema.go over the sim database/sql driver. ")

# property -> (technique, level text, level note, design ref, built?)
SIM = "deterministic simulation with fault injection: "
CLAIMED = {
    "C01": (SIM + "seeded histories of every write kind (big amounts, self postings, reverts) with store faults and crashes; conservation and volumes-equal-fold-of-postings checked after every simulated commit",
            "Seeded exploration; after every commit and at the end, per ledger and asset total input equals total output and the volume rows equal an independent fold of the committed postings. Covers the Go side of the mechanism only (postings produced by every write path, Transaction.VolumeUpdates).",
            TRUSTED + "SCOPE LIMIT: the accumulation upsert and every read path (aggregated balances, PIT volumes) are SQL and are not executed.", "9/C01"),
    "C03": (SIM + "seeded histories (transactions touching one account several times, source = destination, several transactions in one SQL transaction through atomic bulks, back-dated timestamps, reverts, 1-3 concurrent writers on shared accounts, store faults and crashes) with the real CommitTransaction / UpdateVolumes / InsertTransaction / InsertMoves of storage/ledger running over the SQL interpreter; commit-sequence invariant recomputing, per commit and in id order, the volumes right after each new transaction and after each half of each posting",
            "Seeded exploration; at every simulated commit the stored post-commit volumes of each new transaction, and the post-commit volumes, order, dates and amounts of its moves, are compared with an independent forward fold from the committed volumes before the commit; stored values of older transactions must not change; the volumes and pre-commit volumes shown in the create answers are compared with the stored ones.",
            TRUSTED + "SCOPE LIMIT: decided in the real-SQL runs only (the contract model keeps no moves); the accounts_volumes upsert is interpreted from its statement text, the expand/PIT read paths that show these values on list routes are SQL and do not run.", "15/C03"),
    "C09": (SIM + "seeded schedules of 2-4 concurrent writers of every kind on a HASH_LOGS=SYNC ledger, with store faults, ambiguous commits and crashes; the real InsertLog (advisory lock gating, statement order, fields sent) runs over the SQL interpreter; invariant after every simulated commit: each committed log's hash is the chain hash over its predecessor in id order",
            "Seeded exploration; the committed logs are re-chained after every commit: a log that chained from anything but the previous committed log (two writers reading the same predecessor) breaks the recomputation. Ledgers that do not hash must carry no hash.",
            TRUSTED + "SCOPE LIMIT: the digest itself is computed by the repository's Go Log.ComputeHash inside the re-implemented trigger; that PostgreSQL's set_log_hash computes the same bytes is property C10 and is assumed (DESIGN.md 15 records a discrepancy found by reading: the trigger ignores schema_version). Decided here: the linearity of the chain under concurrency, i.e. the lock protocol of InsertLog.", "15/C09"),
    "C14": (SIM + "seeded schedules of 2-4 clients creating transactions (postings, scripts, bulk elements, v1 and v2) that share a pool of three references on two ledgers of one bucket, with store faults and crashes; the real InsertTransaction (constraint-name mapping) runs over the SQL interpreter, whose transactions table carries the partial unique index of the migrations; invariant at every commit + answers oracle",
            "Seeded exploration; at every commit no two transactions of a ledger share a non-empty reference; a fault-free request that reuses a reference committed before it was sent must be answered a reference conflict and leave nothing; a conflict is only answered when the same ledger holds the reference; the same reference succeeds once per ledger whatever other ledgers hold.",
            TRUSTED + "SCOPE LIMIT: the unique index itself (that PostgreSQL enforces (ledger, reference) where reference <> '') is declared by hand from migrations 14/15, not executed; what is decided is everything around it: the statement InsertTransaction builds, the mapping of the constraint name to ErrTransactionReferenceConflict, the controller's rollback and the API answer, under concurrency.", "15/C14"),
    "C16": (SIM + "seeded schedules of 2-4 concurrent writers on two ledgers of one bucket, on shared and on disjoint accounts, with writes that fail and roll back; the real InsertTransaction / InsertLog (which sequence, when it is drawn relative to the locks) run over the SQL interpreter with non-transactional sequences; invariant at every commit: ids added are above every id committed before on that ledger; final: a ledger's ids never exceed the id-drawing attempts made on it",
            "Seeded exploration. KNOWN FINDINGS (known_findings.json): transaction ids do not follow commit order for concurrent writers sharing no volume row, and log ids do not on ledgers that do not hash synchronously; every other inversion, and any dependence of one ledger's ids on another's writes, is reported.",
            TRUSTED + "SCOPE LIMIT: uniqueness is enforced by the declared primary keys (a duplicate shows as a refused write); sequence semantics (non-transactional, gaps on rollback) are the contract S12.", "15/C16"),
    "C17": (SIM + "seeded schedules of 2-3 clients saving and deleting the SAME metadata keys on the same accounts and transactions (plus metadata set by scripts and at creation), with store faults, ambiguous commits and crashes; the real UpdateTransactionMetadata / DeleteTransactionMetadata / UpsertAccounts / DeleteAccountMetadata statements (jsonb ||, -, @>) are interpreted; final-state oracle folding the committed logs in COMMIT order",
            "Seeded exploration of the FIRST sentence of C17 only: the current metadata of every account and transaction equals the saves applied in commit order (last write wins per key) minus the deleted keys; every written value is unique so each stored value is attributable to one write.",
            TRUSTED + "SCOPE LIMIT: the history / point-in-time sentences of C17 (metadata-history triggers, PIT joins in resource_accounts.go / resource_transactions.go) are SQL that does not run: not decided. Chart default metadata on first creation is checked under C29.", "15/C17"),
    "C18": (SIM + "seeded histories with back-dated, equal and future-dated transactions, script-set account metadata, metadata-only accounts, deletes on unknown accounts and failing writes, 1-3 concurrent clients, store faults and crashes; the real UpsertAccounts (its raw CTE interpreted statement by statement), UpdateAccountsMetadata and DeleteAccountMetadata run over the SQL interpreter; final-state oracle derived from the committed logs only + invariants at every commit",
            "Seeded exploration; an account row exists iff a committed log involves the account in a transaction or writes metadata on it; first usage equals the earliest of those events; insertion date never changes and first usage never moves later.",
            TRUSTED + "SCOPE LIMIT: the account listing routes (SQL) do not run; the oracle reads the accounts table. KNOWN FINDING: a metadata write on an existing account never lowers first usage.", "15/C18"),
    "C19": (SIM + "seeded histories on three ledgers sharing a bucket (one of them created mid-history) and one alone in another bucket, with the same account names, references, idempotency keys and transaction ids everywhere, 2-3 concurrent clients, store faults and crashes; every write statement's ledger predicate is interpreted over bucket-wide tables; invariant at every commit: every changed row belongs to the ledger the committing request addressed. Read half: (a) the simple reads (export, log / transaction listings and look-ups) run through the real resource repository and their answers are checked item for item while ledgers join the bucket; (b) replication pipelines keep the store the real storage driver opened for them while a sibling ledger joins the bucket and is written to - what they hand to the exporter must be their own ledger's logs; (c) every statement the real storage layer sends for a read of any kind (point in time, expansions, filters, volumes, aggregated balances) is audited by the simulated database for its ledger predicates while the bucket is shared",
            "Seeded exploration. Write half: no write on one ledger changes a row of another; each ledger's journal and state stay explained by its own acknowledged writes. Read half: answers of the simple reads and of long-lived pipeline stores contain only the ledger's own rows; every read statement carries a ledger predicate per bucket table while the ledger shares its bucket.",
            TRUSTED + "SCOPE LIMIT: for the reads whose SQL the interpreter cannot execute (window functions, lateral joins, history tables) what is decided is that the statement is scoped to the ledger, lexically (one `ledger = '<name>'` predicate per reference to a table of the bucket), not what PostgreSQL returns for it. KNOWN FINDING: a read in flight while a second ledger joins a bucket whose first ledger was alone (alone-in-bucket shortcut).", "15/C19"),
    "C21": (SIM + "seeded schedules of 1-2 clients walking a listing - following the next cursors from the first page to the end, then the previous cursors back - while up to two other clients append transactions and save metadata on the same ledger (and a sibling ledger shares the bucket in half of the runs); page sizes 1-4, both orders, default and explicit sort; the pages come from the real API handlers, the real resource repository and the real column / offset paginators (cursor encoding, bottom and reverse logic, hasMore), their ORDER BY / LIMIT / OFFSET / id-bound SQL executed by the interpreter; oracle over the concatenation of the pages vs the committed rows and their commit events",
            "Seeded exploration: in a forward walk no entity appears twice, the order is strictly the requested one across page boundaries, every page but the last is full and hasMore matches the next cursor, a walk that reaches the end contains every entity committed before its first page was requested and nothing the ledger does not hold; following previous from page i returns exactly page i-1 - also while other clients append.",
            TRUSTED + "SCOPE LIMIT: transactions and logs by id (column paginator) and accounts by address (offset paginator, over a fixed account set), without filters or point in time. Volumes and grouped volumes (their SQL is outside the interpreter) and filtered / point-in-time listings are NOT decided. Runs of this profile are always real-SQL runs.", "15/C21"),
    "C35": (SIM + "differential simulation: two ledgers of one bucket with independently drawn feature sets (all 48 combinations reachable) receive the same sequential history (creates with explicit back-dated / future-dated timestamps, refused writes, scripts setting account and transaction metadata, reverts, metadata saves and deletes), each from its own client, the two clients interleaved by the seeded scheduler; the real storage write path runs over the SQL interpreter, so the feature gates of CommitTransaction and InsertLog execute. Each history is followed by reads that may need a feature (volumes over a period, aggregated balances, accounts and transactions with pit and expansions, balance filters): they reach the real resource handlers, and the simulated database audits every statement they send against what the ledger's features leave empty (moves, post_commit_effective_volumes)",
            "Seeded exploration. Write side: for every drawn pair of feature sets the transactions, logs, balances and current metadata of the two ledgers must be identical (database-assigned dates and hashes left out); hashes exist only on HASH_LOGS=SYNC ledgers and chain; moves exist only when MOVES_HISTORY=ON. Read side: no read statement touches moves / effective volumes on behalf of a ledger that does not keep them (the storage layer must have refused first), and a refusal is answered 4xx.",
            TRUSTED + "SCOPE LIMIT: the read side decides THAT a read needing a disabled feature is refused, at statement level; it does not evaluate what the reads that are allowed return (their SQL is outside the interpreter). Per-feature triggers (metadata history, effective volumes) are absent or re-implemented, so only what the Go code gates on features is exercised.", "15/C35"),
    "C06": (SIM + "seeded schedules of 2-4 concurrent writers at store-call granularity + commit-sequence invariant on balances vs declared allowance",
            "Seeded exploration of interleavings (and store faults) of concurrent spenders through the real HTTP API; at every simulated commit the balance of each bounded source is compared with its allowance. Sampling, not proof.",
            TRUSTED + "The row locking itself (SELECT ... FOR UPDATE in balances.go) is part of the contract, not checked.", "9/C06"),
    "C07": (SIM + "FAULT ENUMERATION: for 86 scenarios (14 write kinds x {single, first write of a ledger, non-atomic bulk element, atomic bulk element} x {contract model, real SQL}) every yield point of the request (store call / SQL statement, BeginTX, Commit, LockLedger) x every fault kind it admits (statement error, connection loss, deadlock, too many clients, clean commit failure, client disconnect, crash) is injected once - a complete enumeration of single-fault positions (~4700 runs); then seeded store faults (statement error, connection loss, deadlock, too many clients, clean commit failure, client disconnect) at every store-call position of every write kind, naturally failing inputs and dry runs; oracle = committed logs vs acknowledged writes + state equals replay of logs + no event + no lock left",
            "Complete enumeration of the single-fault positions of a fixed scenario list, plus seeded exploration of multi-fault runs, concurrent writers and failing inputs; a failed or dry-run write must leave no log, no state the logs do not explain, no event, no lock or open transaction.",
            TRUSTED + "Effects of data SQL the stub does not execute are out of reach.", "9/C07"),
    "C08": (SIM + "seeded concurrent histories of all write kinds with faults and crashes; oracle = one log per acknowledged write, no unexplained log, independent replay of the stored log payloads equals the stored state, log ids follow commit order where the store serialises insertion",
            "Seeded exploration; the journal is compared with the acknowledged writes and replayed by an independent replayer that knows only the payload shapes.",
            TRUSTED + "Id-versus-commit order is only checked for HASH_LOGS=SYNC ledgers (elsewhere it is a property of PostgreSQL sequences).", "9/C08"),
    "C11": (SIM + "seeded source histories (all write kinds, adversarial strings, big amounts, back-dated transactions, reverts, schemas) exported through the real handler and imported into a fresh ledger with the body arriving in scheduler-controlled chunks, crashes and store faults during import, then every write path as first write (single, sequential/atomic/parallel bulk) with or without restart; oracle = copy equals source (logs, hashes, transactions, accounts, metadata, volumes, schemas), post-import writes succeed and continue the id sequences",
            "Seeded exploration of export/import round trips through the real API; the committed state of source and copy is compared table by table.",
            TRUSTED + "The state tracker's UPDATE/setval statements run through the sim driver with their literals applied; sequences and unique ids are part of the contract (S4, S7, S12, S13).", "9/C11"),
    "C12": (SIM + "seeded interleavings of Import with concurrent single writes, bulks (atomic, failing first element) and a second import on the same ledger over prior histories (empty, imported prefix, already written), with crashes, faults and client disconnects; commit-sequence oracle = never an imported log after an accepted write, never a client write between imported logs, a rejected import leaves nothing, bounded progress on the ledger lock",
            "Seeded exploration of schedules of imports and writes; every simulated commit is classified as imported or client write and the exclusivity rules are checked on the commit sequence.",
            TRUSTED + "The advisory lock table is part of the contract (S9); which lock function, key and connection are used is real code (storage/ledger/store.go).", "9/C12"),
    "C13": (SIM + "seeded schedules of 2-5 concurrent/sequential requests sharing an idempotency key (same and different inputs, every write kind) with ambiguous commits, crashes and disconnects; oracle = at most one committed effect per key, structural answer rules, porcupine linearizability against an exactly-once model",
            "Seeded exploration; callers' answers are checked for linearizability (porcupine) against a model where each key is applied once and business errors reflect the balance at their linearization point.",
            TRUSTED + "The unique index on (ledger, idempotency_key) is part of the contract (S7).", "9/C13"),
    "C15": (SIM + "seeded histories with concurrent reverts of the same transaction (force x atEffectiveDate, v1 and v2, with faults); oracle = exactly one revert transaction per reverted transaction, exact inverse postings, single success answer, conservation",
            "Seeded exploration of concurrent and repeated reverts through the real API.",
            TRUSTED + "The conditional UPDATE ... WHERE reverted_at IS NULL is part of the contract (S5).", "9/C15"),
    "C25": (SIM + "seeded postings lists (up to 20 postings, repeated accounts, source = destination, world on either side, zero and >2^64 amounts) through v1, v2 and bulk against random starting balances, 1-3 concurrent writers; oracle = refinement against a reference ledger in commit order (accepted => no source below zero on the balances it was committed against; refused => justified by some committed state of its invocation window), recorded postings equal the submitted list",
            "Seeded exploration with a commit-order refinement oracle against an independent balance model.",
            TRUSTED + "KNOWN FINDINGS (experimental interpreter runtime only) are listed in known_findings.json.", "9/C25"),
    "C29": (SIM + "seeded configurations {strict, audit} x {0..3 schema versions, one inserted concurrently} x charts of a small family (fixed/variable segments, patterns, .self, default metadata, fixed branch beside a variable segment) x templates; writes naming existing/missing/no version; oracle = independent chart matcher and enforcement rules written from the documented meaning, answers justified by the schema set visible in the request's window, default metadata recomputed from the committed logs",
            "Seeded exploration of schema enforcement through the real API with an independent reference for the chart semantics.",
            TRUSTED + "Schema rows and the default-metadata merge of the account upsert are part of the contract (S6).", "9/C29"),
    "C31": (SIM + "FAULT ENUMERATION of the statement's matrix: every write kind x {single, first write on an initializing ledger, non-atomic bulk, atomic bulk} x {contract model, real SQL} x every yield point x every fault kind it admits incl. clean commit failure at the inner release and at the outer commit (~4700 runs, complete for that scenario list), success and dry-run included; then seeded exploration; recording listener (real bus listener in half of the runs) with global event sequence numbers; seeded faults incl. commit failures on single writes, first writes of a ledger and concurrent writers; oracle = exactly one event per committed log, after its commit, none otherwise",
            "Complete enumeration of single-fault positions of a fixed scenario list plus seeded exploration; every listener callback is ordered against the simulated commit that made its write durable.",
            TRUSTED, "9/C31"),
    "C32": (SIM + "seeded bulks (all element kinds, planted failing elements) x atomic/continueOnFailure/parallel x json/json-stream through the real handlers and Bulker, pool workers scheduled by the simulator, with faults; oracle = one result per element, result i describes element i and equals the standalone answer, atomic all-or-nothing, ordered short-circuit",
            "Seeded exploration of bulk requests through the real handlers; effects are read from the committed logs.",
            TRUSTED, "9/C32"),
    "C33": (SIM + "the real replication Manager, PipelineHandler, DriverFacade, batching factory and registry over a simulated system store and a recording terminal exporter, with concurrent log production, exporter errors (whole batch, per item), storage errors, pipeline stop/start/reset sequences and worker crash + restart; schedules over ListLogs / Accept / StorePipelineState and timer firings on the simulated clock; oracle (every step) = ids increase within a call, no gap below an acknowledged batch, persisted last id covers only acknowledged logs (since the last reset); (bounded liveness once faults stop) every committed log acknowledged within a budget of configured retry periods",
            "Seeded exploration of replication under faults with safety invariants at every step and bounded liveness after faults stop.",
            TRUSTED + "In half of the runs the data part of every replication storage call (StorePipelineState, UpdatePipeline, CreatePipeline, ListEnabledPipelines, the exporter rows...) is the real internal/storage/system DefaultStore, its SQL interpreted by sqlmini over the _system.pipelines / _system.exporters tables declared from the migrations (DESIGN.md 15.9); in the other half it is the contract model. gRPC transport and the real exporter drivers are not run. Residual nondeterminism: two timers firing at the same simulated instant are ordered by the Go runtime (DESIGN.md 3.4). KNOWN FINDINGS are listed in known_findings.json.", "9/C33"),
    "C38": (SIM + "two profiles. (1) transport faults on otherwise valid requests: body cut (unexpected EOF), cleanly truncated, read error, client disconnect, duplicated request, on every write route and on the streaming routes (json-stream and script-stream bulk, log import). (2) type confusion: grammar-aware mutations of valid bodies of every v1/v2 write route (each JSON position replaced by values of other types, boundary strings, legacy monetary objects), odd query parameters and idempotency keys, ledger creation bodies, and read routes with bad cursors, page sizes, dates and query JSON, sent by concurrent clients; oracle = never a 5xx, a recovered panic or a process crash for a client-side fault, a request answered 4xx has no commit attributed to it, streamed bodies apply only complete elements, no lock or session left behind",
            "Seeded exploration through the real router, handlers, controllers and both Numscript runtimes; includes a process-crash oracle (a panic in a goroutine of the service kills the worker process and is reported with the deterministic run that caused it).",
            TRUSTED + "NOT DECIDED: filters and sort columns are validated by SQL-building storage code that is not in the simulation (the stub refuses every shape it does not model with the storage layer's ErrInvalidQuery); volumes, aggregated balances and stats read routes are not modelled. The type-confusion profile is input generation, which needs no scheduler; it runs inside the simulator because the no-effect oracle (commit records attributed to requests) lives there.", "9/C38"),
}

PENDING = {}

NA_PG = "mechanism executes only inside PostgreSQL (SQL / PL/pgSQL / triggers / indexes); the sandbox has no PostgreSQL or other SQL engine, so no simulated run can execute it (DESIGN.md sections 1 and 9)"
NA_READ = ("what the statement quantifies over is observed through the repository's read/resource SQL (dynamic filters, point-in-time and window aggregation over moves, metadata-history joins, cursors) or through per-feature triggers; "
           "that SQL is outside the restricted write-path grammar the simulator interprets and there is no PostgreSQL or other SQL engine in the sandbox, so no simulated run can execute it (DESIGN.md sections 1, 9 and 15). "
           "The write-side facts behind it (volume rows equal the fold of postings, current metadata equals the replay of the logs, hashes only when HASH_LOGS=SYNC) are checked under C01, C03, C08, C09")
NA_PURE = "pure function of its input: no schedule, clock, fault, crash point or shared state for a simulator to act on (DESIGN.md section 9); a property-based/differential test would be the right tool, not this technique"

NOT_APPLICABLE = {
    "C02": NA_READ, "C04": NA_PG, "C05": NA_READ, "C10": NA_PG,
    "C20": NA_READ, "C34": NA_PG,
    "C22": NA_PURE, "C23": NA_PURE, "C24": NA_PURE, "C26": NA_PURE, "C27": NA_PURE, "C28": NA_PURE, "C30": NA_PURE, "C36": NA_PURE, "C37": NA_PURE,
}

def main():
    props = [json.loads(l)["id"] for l in open(os.path.join(VERIF, "properties.jsonl"))]
    checks = []
    for pid in props:
        if pid in CLAIMED:
            tech, text, note, ref = CLAIMED[pid]
            checks.append({
                "property_id": pid,
                "quick_cmd": "./check %s quick" % pid,
                "thorough_cmd": "./check %s thorough" % pid,
                "evidence_file": "/verif/evidence/%s.json" % pid,
                "replay_cmd_template": "./check %s --replay {path}" % pid,
                "engine": "ledgersim",
                "level_claimed": {"category": "fault_enumeration" if pid in ("C07", "C31") else "exploration", "text": text, "design_ref": "DESIGN.md section " + ref},
                "level_note": note,
                "technique": tech,
            })
    na = []
    for pid in props:
        if pid in CLAIMED:
            continue
        if pid in NOT_APPLICABLE:
            na.append({"property_id": pid, "reason": NOT_APPLICABLE[pid]})
        else:
            na.append({"property_id": pid, "reason": PENDING.get(pid, "planned as a simulated check (DESIGN.md section 9) but not built yet at this commit; not claimed until its check is green and proven sensitive")})
    m = {
        "version": 1,
        "setup_cmd": "./check build",
        "hooks": {
            "guard": "verif",
            "enable": "go build tag `verif` (./check builds the simulator with go1.26.8 test -c -tags verif). One hook exists: internal/replication/mutex_verif.go gives the replication Manager a channel-based lock (a waiter is durably blocked for testing/synctest, which a sync.Mutex waiter is not); without the tag mutex_default.go aliases the type to sync.Mutex, so the shipped build is unchanged. The hook commit adds those two files and rewrites one line of manager.go (the field type `mu sync.Mutex` -> `mu managerMutex`). Every other seam used is an existing interface or the database/sql driver boundary.",
            "baseline_off_cmd": "cd /repo && go test -vet=off -count=1 ./...",
            "source_commits": ["8bc0fe5"],
            "add_only": False,
        },
        "engines": [{
            "name": "ledgersim", "path": "/verif/sim",
            "serves_properties": sorted(CLAIMED.keys()),
            "kind_free_text": "deterministic simulation with fault injection: the real service above the storage seam runs in one process inside a testing/synctest bubble over simpg (in-memory model of the PostgreSQL contract) reached through a sim database/sql driver; a seeded scheduler decides every interleaving at store-call granularity and every fault; oracles are commit-sequence invariants, refinement against a reference ledger and porcupine linearizability",
        }],
        "checks": checks,
        "not_applicable": na,
        "notes": "Family of technique: deterministic simulation with fault injection. See DESIGN.md. Exit codes of ./check: 0 held, 1 violation (with replay file), 2 infrastructure trouble.",
    }
    json.dump(m, open(os.path.join(VERIF, "MANIFEST.json"), "w"), indent=1)
    print("claimed:", sorted(CLAIMED.keys()))

if __name__ == "__main__":
    main()
