#!/usr/bin/env python3
"""Writes /verif/MANIFEST.json from the tables below (single source of truth for what is claimed)."""
import json, os

VERIF = os.path.dirname(os.path.abspath(__file__))

TRUSTED = ("Assumes the store contract S1-S14 of DESIGN.md section 4 (simpg stands in for PostgreSQL; no SQL of the repository runs). "
           "Real code: API router and handlers, system controller and state tracker, ledger controller stack, Numscript machine and interpreter, "
           "storage/ledger/store.go transaction control over the sim database/sql driver. ")

# property -> (technique, level text, level note, design ref, built?)
SIM = "deterministic simulation with fault injection: "
CLAIMED = {
    "C01": (SIM + "seeded histories of every write kind (big amounts, self postings, reverts) with store faults and crashes; conservation and volumes-equal-fold-of-postings checked after every simulated commit",
            "Seeded exploration; after every commit and at the end, per ledger and asset total input equals total output and the volume rows equal an independent fold of the committed postings. Covers the Go side of the mechanism only (postings produced by every write path, Transaction.VolumeUpdates).",
            TRUSTED + "SCOPE LIMIT: the accumulation upsert and every read path (aggregated balances, PIT volumes) are SQL and are not executed.", "9/C01"),
    "C06": (SIM + "seeded schedules of 2-4 concurrent writers at store-call granularity + commit-sequence invariant on balances vs declared allowance",
            "Seeded exploration of interleavings (and store faults) of concurrent spenders through the real HTTP API; at every simulated commit the balance of each bounded source is compared with its allowance. Sampling, not proof.",
            TRUSTED + "The row locking itself (SELECT ... FOR UPDATE in balances.go) is part of the contract, not checked.", "9/C06"),
    "C07": (SIM + "seeded store faults (statement error, connection loss, deadlock, too many clients, clean commit failure, client disconnect) at every store-call position of every write kind, naturally failing inputs and dry runs; oracle = committed logs vs acknowledged writes + state equals replay of logs + no event + no lock left",
            "Seeded exploration of fault positions and failing inputs; a failed or dry-run write must leave no log, no state the logs do not explain, no event, no lock or open transaction.",
            TRUSTED + "Effects of data SQL the stub does not execute are out of reach.", "9/C07"),
    "C08": (SIM + "seeded concurrent histories of all write kinds with faults and crashes; oracle = one log per acknowledged write, no unexplained log, independent replay of the stored log payloads equals the stored state, log ids follow commit order where the store serialises insertion",
            "Seeded exploration; the journal is compared with the acknowledged writes and replayed by an independent replayer that knows only the payload shapes.",
            TRUSTED + "Id-versus-commit order is only checked for HASH_LOGS=SYNC ledgers (elsewhere it is a property of PostgreSQL sequences).", "9/C08"),
    "C13": (SIM + "seeded schedules of 2-5 concurrent/sequential requests sharing an idempotency key (same and different inputs, every write kind) with ambiguous commits, crashes and disconnects; oracle = at most one committed effect per key, structural answer rules, porcupine linearizability against an exactly-once model",
            "Seeded exploration; callers' answers are checked for linearizability (porcupine) against a model where each key is applied once and business errors reflect the balance at their linearization point.",
            TRUSTED + "The unique index on (ledger, idempotency_key) is part of the contract (S7).", "9/C13"),
    "C15": (SIM + "seeded histories with concurrent reverts of the same transaction (force x atEffectiveDate, v1 and v2, with faults); oracle = exactly one revert transaction per reverted transaction, exact inverse postings, single success answer, conservation",
            "Seeded exploration of concurrent and repeated reverts through the real API.",
            TRUSTED + "The conditional UPDATE ... WHERE reverted_at IS NULL is part of the contract (S5).", "9/C15"),
    "C31": (SIM + "recording listener (real bus listener in half of the runs) with global event sequence numbers; seeded faults incl. commit failures on single writes, first writes of a ledger and concurrent writers; oracle = exactly one event per committed log, after its commit, none otherwise",
            "Seeded exploration; every listener callback is ordered against the simulated commit that made its write durable.",
            TRUSTED, "9/C31"),
    "C32": (SIM + "seeded bulks (all element kinds, planted failing elements) x atomic/continueOnFailure/parallel x json/json-stream through the real handlers and Bulker, pool workers scheduled by the simulator, with faults; oracle = one result per element, result i describes element i and equals the standalone answer, atomic all-or-nothing, ordered short-circuit",
            "Seeded exploration of bulk requests through the real handlers; effects are read from the committed logs.",
            TRUSTED, "9/C32"),
}

PENDING = {}

NA_PG = "mechanism executes only inside PostgreSQL (SQL / PL/pgSQL / triggers / indexes); the sandbox has no PostgreSQL or other SQL engine, so no simulated run can execute it (DESIGN.md sections 1 and 9)"
NA_PURE = "pure function of its input: no schedule, clock, fault, crash point or shared state for a simulator to act on (DESIGN.md section 9); a property-based/differential test would be the right tool, not this technique"

NOT_APPLICABLE = {
    "C02": NA_PG, "C03": NA_PG, "C04": NA_PG, "C05": NA_PG, "C09": NA_PG, "C10": NA_PG, "C14": NA_PG, "C16": NA_PG, "C17": NA_PG,
    "C18": NA_PG, "C19": NA_PG, "C20": NA_PG, "C21": NA_PG, "C34": NA_PG, "C35": NA_PG,
    "C22": NA_PURE, "C23": NA_PURE, "C24": NA_PURE, "C26": NA_PURE, "C27": NA_PURE, "C28": NA_PURE, "C30": NA_PURE, "C36": NA_PURE, "C37": NA_PURE,
}

def main():
    props = [json.loads(l)["id"] for l in open(os.path.join(VERIF, "properties.jsonl"))]
    checks = []
    for pid in props:
        if pid in CLAIMED:
            tech, text, note, ref = CLAIMED[pid]
            checks.append({
                "property_id": pid,
                "quick_cmd": "./check %s quick" % pid,
                "thorough_cmd": "./check %s thorough" % pid,
                "evidence_file": "/verif/evidence/%s.json" % pid,
                "replay_cmd_template": "./check %s --replay {path}" % pid,
                "engine": "ledgersim",
                "level_claimed": {"category": "exploration", "text": text, "design_ref": "DESIGN.md section " + ref},
                "level_note": note,
                "technique": tech,
            })
    na = []
    for pid in props:
        if pid in CLAIMED:
            continue
        if pid in NOT_APPLICABLE:
            na.append({"property_id": pid, "reason": NOT_APPLICABLE[pid]})
        else:
            na.append({"property_id": pid, "reason": PENDING.get(pid, "planned as a simulated check (DESIGN.md section 9) but not built yet at this commit; not claimed until its check is green and proven sensitive")})
    m = {
        "version": 1,
        "setup_cmd": "./check build",
        "hooks": {
            "guard": "verif",
            "enable": "go build tag `verif` (go test -tags verif); no hook exists in /repo at this commit: every seam used is an existing interface or the database/sql driver boundary",
            "baseline_off_cmd": "cd /repo && go test -vet=off -count=1 ./...",
            "source_commits": [],
            "add_only": True,
        },
        "engines": [{
            "name": "ledgersim", "path": "/verif/sim",
            "serves_properties": sorted(CLAIMED.keys()),
            "kind_free_text": "deterministic simulation with fault injection: the real service above the storage seam runs in one process inside a testing/synctest bubble over simpg (in-memory model of the PostgreSQL contract) reached through a sim database/sql driver; a seeded scheduler decides every interleaving at store-call granularity and every fault; oracles are commit-sequence invariants, refinement against a reference ledger and porcupine linearizability",
        }],
        "checks": checks,
        "not_applicable": na,
        "notes": "Family of technique: deterministic simulation with fault injection. See DESIGN.md. Exit codes of ./check: 0 held, 1 violation (with replay file), 2 infrastructure trouble.",
    }
    json.dump(m, open(os.path.join(VERIF, "MANIFEST.json"), "w"), indent=1)
    print("claimed:", sorted(CLAIMED.keys()))

if __name__ == "__main__":
    main()
